//! Building generated circuits: (RawConfig, RawProgram) -> CircuitData + reference outputs.

use plonky2::gates::gate::GateInstance;
use plonky2::plonk::circuit_builder::CircuitBuilder;
use plonky2::plonk::circuit_data::{CircuitConfig, CircuitData};
use plonky2::plonk::config::{GenericConfig, KeccakGoldilocksConfig, PoseidonGoldilocksConfig};
use serde::{Deserialize, Serialize};

use crate::gen::config::{elaborate_config, ConfigLimits, ElabConfig, RawConfig};
use crate::gen::dsl::{elaborate, DslOpts, Elab, RawProgram, D, F};

pub type PC = PoseidonGoldilocksConfig;
pub type KC = KeccakGoldilocksConfig;

#[derive(Clone, Debug, Serialize, Deserialize, PartialEq, Eq, Hash)]
pub struct RawCircuit {
    pub config: RawConfig,
    pub program: RawProgram,
}

pub struct Built<C: GenericConfig<D, F = F>> {
    pub data: CircuitData<F, C, D>,
    pub elab: Elab,
    pub cfg: ElabConfig,
    pub config: CircuitConfig,
    /// final gate instances per row (recorded by the verif hook), ground truth for the satisfaction oracle
    pub instances: Vec<GateInstance<F, D>>,
    pub dry_build: bool,
}

fn build_once<C: GenericConfig<D, F = F>>(
    config: &CircuitConfig,
    program: &RawProgram,
    opts: &DslOpts,
) -> (CircuitData<F, C, D>, Elab, Vec<GateInstance<F, D>>) {
    if std::env::var("PV_TRACE").is_ok() {
        eprintln!("[trace] config {:?}", config);
    }
    let mut builder = CircuitBuilder::<F, D>::new(config.clone());
    let elab = elaborate(program, &mut builder, opts);
    let data = builder.build::<C>();
    let instances = plonky2::verif_hooks::take_gate_instances::<F, D>().expect("recorder");
    (data, elab, instances)
}

/// Build the circuit for a raw case. When admissibility of the FRI strategy depends on the
/// circuit's degree, a dry build with a degree-independent strategy determines `degree_bits` first.
pub fn build_case<C: GenericConfig<D, F = F>>(raw: &RawCircuit, opts: &DslOpts, lim: &ConfigLimits) -> Built<C> {
    let cfg = elaborate_config(&raw.config, lim);
    let mut dry = false;
    let config = if cfg.needs_degree() {
        if cfg.config.zero_knowledge {
            // with blinding the degree depends on the arities: use the degree-independent variant
            cfg.safe()
        } else {
            dry = true;
            let (d0, _, _) = build_once::<C>(&cfg.safe(), &raw.program, opts);
            cfg.finalize(d0.common.degree_bits())
        }
    } else {
        cfg.config.clone()
    };
    let (data, elab, instances) = build_once::<C>(&config, &raw.program, opts);
    Built {
        data,
        elab,
        cfg,
        config,
        instances,
        dry_build: dry,
    }
}
