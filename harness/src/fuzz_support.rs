//! Counters for the cargo-fuzz targets under /verif/fuzz: how many inputs were executed, how many were
//! non-trivial by the target's rule (distinct, by input hash), a label histogram and a few samples. The
//! totals are written as JSON to the file named by `PV_FUZZ_STATS` every 4096 executions and at process
//! exit (libFuzzer leaves through `exit`, so an `atexit` handler sees the final numbers).
use std::collections::{BTreeMap, HashSet};
use std::sync::{Mutex, Once};

#[derive(Default)]
struct State {
    execs: u64,
    nontrivial: HashSet<u64>,
    hist: BTreeMap<String, u64>,
    samples: Vec<String>,
}

static STATE: Mutex<Option<State>> = Mutex::new(None);
static INIT: Once = Once::new();

extern "C" {
    fn atexit(cb: extern "C" fn()) -> i32;
}

extern "C" fn flush_at_exit() {
    flush();
}

pub fn fnv(data: &[u8]) -> u64 {
    let mut h: u64 = 0xcbf29ce484222325;
    for b in data {
        h ^= *b as u64;
        h = h.wrapping_mul(0x100000001b3);
    }
    h
}

/// Record one execution. `nontrivial`: hash of the input when it is non-trivial by the target's rule.
pub fn record(label: &str, nontrivial: Option<u64>, sample: impl FnOnce() -> String) {
    INIT.call_once(|| unsafe {
        atexit(flush_at_exit);
    });
    let mut g = match STATE.lock() {
        Ok(g) => g,
        Err(p) => p.into_inner(),
    };
    let st = g.get_or_insert_with(State::default);
    st.execs += 1;
    *st.hist.entry(label.to_string()).or_insert(0) += 1;
    if let Some(h) = nontrivial {
        if st.nontrivial.len() < 2_000_000 && st.nontrivial.insert(h) && st.samples.len() < 6 {
            st.samples.push(sample());
        }
    }
    let due = st.execs % 4096 == 0;
    drop(g);
    if due {
        flush();
    }
}

pub fn flush() {
    let path = match std::env::var("PV_FUZZ_STATS") {
        Ok(p) if !p.is_empty() => p,
        _ => return,
    };
    let g = match STATE.lock() {
        Ok(g) => g,
        Err(p) => p.into_inner(),
    };
    if let Some(st) = g.as_ref() {
        let v = serde_json::json!({
            "executions": st.execs,
            "distinct_nontrivial": st.nontrivial.len(),
            "histogram": st.hist,
            "samples": st.samples,
        });
        let tmp = format!("{}.tmp", path);
        if std::fs::write(&tmp, v.to_string()).is_ok() {
            let _ = std::fs::rename(&tmp, &path);
        }
    }
}
