//! C19 — circuit keys and verdicts do not depend on schedule, hash seeds or SIMD build.
//!
//! In-process: the same program built / proved inside rayon pools of 1, 2, 5 and 16 threads,
//! three repetitions each, must give identical verifier data, common data and commitments.
//! Cross-build: every build variant (scalar / debug-assert / AVX2 / AVX-512, each compiled with a
//! different compile-time hash seed) records digests, commitments and proofs for the same
//! seed-derived cases (phase `emit`); then every variant compares all records and verifies every
//! other variant's proofs (phase `cross`).

use std::collections::BTreeMap;
use std::sync::{Arc, Mutex};

use plonky2::plonk::config::{GenericConfig, GenericHashOut, Hasher};
use plonky2::plonk::proof::ProofWithPublicInputs;
use plonky2::util::serialization::DefaultGateSerializer;
use plonky2::util::timing::TimingTree;
use proptest::prelude::*;
use serde::{Deserialize, Serialize};
use serde_json::json;
use starky::proof::StarkProofWithPublicInputs;
use starky::prover::prove as stark_prove;
use starky::verifier::verify_stark_proof;

use crate::circuit::{build_case, RawCircuit, KC, PC};
use crate::engine::{bx, hash_of, verif_root, Ctx, Stats};
use crate::gen::config::ConfigLimits;
use crate::gen::dsl::{DslOpts, D, F};
use crate::gen::stark::*;
use crate::props::common::*;
use crate::{with_config, with_stark_shape};

#[derive(Clone, Debug, Serialize, Deserialize)]
pub struct Case {
    pub circuit: RawCircuit,
    pub stark: RawStark,
}

fn case(max_ops: usize) -> BoxedStrategy<Case> {
    bx((raw_circuit(max_ops), raw_stark()).prop_map(|(mut circuit, stark)| {
        circuit.config.zk = false; // everything but the grinding witness is deterministic without blinding
        Case { circuit, stark }
    }))
}

pub fn limits() -> ConfigLimits {
    ConfigLimits {
        min_queries: 1,
        max_queries: 6,
        max_pow: 5,
        allow_zk: false,
        ..ConfigLimits::default()
    }
}

pub fn stark_limits() -> StarkLimits {
    StarkLimits {
        max_log_n: 6,
        min_queries: 2,
        max_queries: 8,
        max_pow: 4,
        min_degree: 1,
        ..StarkLimits::default()
    }
}

/// What one build records for one case.
#[derive(Clone, Debug, Serialize, Deserialize, PartialEq, Eq)]
pub struct Record {
    pub circuit_digest: Vec<u8>,
    pub constants_sigmas_cap: u64,
    pub common: u64,
    pub degree_bits: usize,
    pub wires_cap: u64,
    pub zs_cap: u64,
    pub quotient_cap: u64,
    pub openings: u64,
    pub public_inputs: Vec<u64>,
    pub stark_trace_cap: u64,
    pub stark_quotient_cap: u64,
    pub stark_openings: u64,
}

#[derive(Clone, Debug, Serialize, Deserialize)]
pub struct Emitted {
    pub case: Case,
    pub record: Record,
    pub proof: Vec<u8>,
    pub stark_proof: String,
}

fn fnv(bytes: &[u8]) -> u64 {
    let mut h: u64 = 0xcbf29ce484222325;
    for b in bytes {
        h ^= *b as u64;
        h = h.wrapping_mul(0x100000001b3);
    }
    h
}

/// Hash of the serde tree with every number reduced modulo p: field equality, not representation
/// equality (an element may legitimately be held as `p` instead of `0` by one build's arithmetic).
fn json_hash<T: Serialize>(t: &T) -> u64 {
    fn canon(v: &mut serde_json::Value) {
        match v {
            serde_json::Value::Number(n) => {
                if let Some(x) = n.as_u64() {
                    *v = serde_json::Value::from(x % crate::gen::field::P);
                }
            }
            serde_json::Value::Array(a) => a.iter_mut().for_each(canon),
            serde_json::Value::Object(m) => m.values_mut().for_each(canon),
            _ => {}
        }
    }
    let mut v = serde_json::to_value(t).unwrap();
    canon(&mut v);
    fnv(serde_json::to_string(&v).unwrap().as_bytes())
}

fn plonk_record<C: GenericConfig<D, F = F>>(raw: &RawCircuit) -> Result<(Record, ProofWithPublicInputs<F, C, D>), String> {
    let built = build_case::<C>(raw, &DslOpts::default(), &limits());
    let data = &built.data;
    let proof = data.prove(built.elab.witness()).map_err(|e| format!("prove failed: {:#}", e))?;
    data.verify(proof.clone()).map_err(|e| format!("honest proof rejected: {:#}", e))?;
    let common_bytes = data.common.to_bytes(&DefaultGateSerializer).unwrap_or_else(|_| serde_json::to_vec(&format!("{:?}", data.common)).unwrap());
    let rec = Record {
        circuit_digest: data.verifier_only.circuit_digest.to_bytes(),
        constants_sigmas_cap: json_hash(&data.verifier_only.constants_sigmas_cap),
        common: fnv(&common_bytes),
        degree_bits: data.common.degree_bits(),
        // The PLONK wire commitment is NOT a deterministic intermediate: the builder fills the unused
        // wires of the public-input gate with fresh random values on every proof
        // (`randomize_unused_pi_wires`), so wires / Z / quotient caps and openings legitimately differ
        // between two runs. Deterministic commitments are covered by the constants-sigmas cap (FFT +
        // Merkle tree over fixed data) and by the STARK transcript below.
        wires_cap: 0,
        zs_cap: 0,
        quotient_cap: 0,
        openings: 0,
        public_inputs: proof.public_inputs.iter().map(|x| plonky2::field::types::PrimeField64::to_canonical_u64(x)).collect(),
        stark_trace_cap: 0,
        stark_quotient_cap: 0,
        stark_openings: 0,
    };
    Ok((rec, proof))
}

fn stark_record<const COLS: usize, const PIS: usize>(el: &ElabStark) -> Result<(u64, u64, u64, String), String> {
    let stark = GenStark::<COLS, PIS> { def: Arc::new(el.def.clone()) };
    let proof: StarkProofWithPublicInputs<F, PC, D> = stark_prove::<F, PC, GenStark<COLS, PIS>, D>(
        stark.clone(),
        &el.config,
        trace_columns(&el.trace, COLS),
        &el.pis,
        None,
        &mut TimingTree::default(),
    )
    .map_err(|e| format!("stark prove failed: {:#}", e))?;
    verify_stark_proof(stark, proof.clone(), &el.config, None).map_err(|e| format!("honest stark proof rejected: {:#}", e))?;
    if std::env::var("PV_TRACE").is_ok() {
        eprintln!("[trace] labels {:?} roles {:?} config {:?}", el.labels, el.roles, el.config);
        eprintln!("[trace] local {:?}", proof.proof.openings.local_values);
        eprintln!("[trace] next {:?}", proof.proof.openings.next_values);
        eprintln!("[trace] quotient {:?}", proof.proof.openings.quotient_polys);
        eprintln!("[trace] constraints {:?}", el.def.constraints);
    }
    Ok((
        json_hash(&proof.proof.trace_cap),
        json_hash(&proof.proof.quotient_polys_cap),
        json_hash(&proof.proof.openings),
        serde_json::to_string(&proof).unwrap(),
    ))
}

fn stark_verify<const COLS: usize, const PIS: usize>(el: &ElabStark, proof_json: &str) -> Result<(), String> {
    let stark = GenStark::<COLS, PIS> { def: Arc::new(el.def.clone()) };
    let proof: StarkProofWithPublicInputs<F, PC, D> = serde_json::from_str(proof_json).map_err(|e| format!("stark proof does not decode: {}", e))?;
    verify_stark_proof(stark, proof, &el.config, None).map_err(|e| format!("{:#}", e))
}

fn full_record(c: &Case) -> Result<Emitted, String> {
    let (mut rec, proof_bytes) = if c.circuit.config.keccak {
        let (r, p) = plonk_record::<KC>(&c.circuit)?;
        (r, p.to_bytes())
    } else {
        let (r, p) = plonk_record::<PC>(&c.circuit)?;
        (r, p.to_bytes())
    };
    let el = elaborate_stark(&c.stark, &stark_limits());
    let (tc, qc, op, sp) = with_stark_shape!(el.shape, stark_record, &el)?;
    rec.stark_trace_cap = tc;
    rec.stark_quotient_cap = qc;
    rec.stark_openings = op;
    Ok(Emitted {
        case: c.clone(),
        record: rec,
        proof: proof_bytes,
        stark_proof: sp,
    })
}

/// In-process: same case under different rayon pools and repetitions.
fn schedules(c: &Case, st: &mut Stats) -> Result<(), String> {
    let base = full_record(c)?.record;
    st.evals(1);
    for &threads in &[1usize, 2, 5, 16] {
        let pool = rayon::ThreadPoolBuilder::new().num_threads(threads).build().map_err(|e| e.to_string())?;
        for rep in 0..3 {
            let r = pool.install(|| full_record(c))?;
            st.evals(1);
            if r.record != base {
                return Err(format!(
                    "deterministic outputs differ under a pool of {} threads (repetition {}): {:?} vs {:?}",
                    threads, rep, r.record, base
                ));
            }
        }
        st.label(&format!("pool{}", threads));
    }
    st.nontrivial(&hash_of(&c.circuit));
    Ok(())
}

fn xdir(replay: bool) -> std::path::PathBuf {
    verif_root().join("target").join(if replay { "c19-xbuild-replay" } else { "c19-xbuild" })
}

pub fn run(ctx: &mut Ctx) {
    ctx.rule = "seed-derived (circuit program, STARK) cases without blinding; in-process: rayon pools of 1/2/5/16 threads x 3 repetitions must give \
                identical verifier data, common data, commitments, openings and STARK transcripts; cross-build: every variant records them and its \
                proofs, then every variant compares all records and verifies every other variant's proofs; non-trivial = every generated case \
                (programs have several gate types and constants by construction); distinct = (variant, case)"
        .into();
    ctx.assumptions.push("task interleavings are sampled by pool size and repetition, not enumerated; the grinding witness is excluded from comparisons (parallel search)".into());
    ctx.shrink_iters = 10;
    let phase = std::env::var("PV_C19_PHASE").unwrap_or_else(|_| "emit".into());
    let n = ctx.tier.pick(42, 600);
    let max_ops = ctx.tier.pick(14, 40);
    if phase == "emit" {
        let n_sched = ctx.tier.pick(8, 60);
        ctx.run_sub("schedules", n_sched, 4, move || case(max_ops), schedules);
        let sink: Arc<Mutex<BTreeMap<String, Emitted>>> = Arc::new(Mutex::new(BTreeMap::new()));
        let s2 = sink.clone();
        ctx.run_sub("emit", n, 14, move || case(max_ops), move |c: &Case, st: &mut Stats| {
            let e = full_record(c)?;
            st.evals(1);
            st.nontrivial(&hash_of(&c.circuit));
            st.sample(|| json!({"digest": format!("{:02x?}", &e.record.circuit_digest[..8]), "degree_bits": e.record.degree_bits}));
            s2.lock().unwrap().insert(format!("{:016x}", hash_of(&(&c.circuit, &c.stark))), e);
            Ok(())
        });
        let dir = xdir(ctx.replay.is_some());
        let _ = std::fs::create_dir_all(&dir);
        let path = dir.join(format!("{}.json", ctx.variant));
        let map = sink.lock().unwrap();
        std::fs::write(&path, serde_json::to_vec(&*map).unwrap()).expect("write xbuild record");
        eprintln!("[C19 {}] emitted {} records to {}", ctx.variant, map.len(), path.display());
    } else {
        // cross phase: compare with every other variant's file
        let dir = xdir(ctx.replay.is_some());
        let own_path = dir.join(format!("{}.json", ctx.variant));
        let Ok(own_bytes) = std::fs::read(&own_path) else {
            eprintln!("[C19] no own record file {}; run the emit phase first", own_path.display());
            std::process::exit(2);
        };
        let own: BTreeMap<String, Emitted> = serde_json::from_slice(&own_bytes).expect("own records");
        let wanted: Vec<String> = std::env::var("PV_VARIANTS").unwrap_or_default().split(',').filter(|s| !s.is_empty()).map(|s| s.to_string()).collect();
        let mut others: Vec<(String, BTreeMap<String, Emitted>)> = vec![];
        for v in &wanted {
            if *v == ctx.variant {
                continue;
            }
            match std::fs::read(dir.join(format!("{}.json", v))) {
                Ok(b) => others.push((v.clone(), serde_json::from_slice(&b).expect("other records"))),
                Err(_) => eprintln!("[C19] variant {} has no record file (skipped)", v),
            }
        }
        let mut compared = 0u64;
        let mut verified = 0u64;
        'outer: for (key, mine) in &own {
            for (ov, omap) in &others {
                let Some(theirs) = omap.get(key) else { continue };
                compared += 1;
                ctx.stats.evaluations += 1;
                ctx.stats.nontrivial.insert(hash_of(&(key, ov)));
                if mine.record != theirs.record {
                    let reason = format!(
                        "deterministic outputs differ between build variants {} and {}: {:?} vs {:?}",
                        ctx.variant, ov, mine.record, theirs.record
                    );
                    ctx.violation("emit", &mine.case, &reason);
                    break 'outer;
                }
                // verify their proofs with this build
                let ok = if mine.case.circuit.config.keccak {
                    verify_foreign::<KC>(&mine.case.circuit, &theirs.proof)
                } else {
                    verify_foreign::<PC>(&mine.case.circuit, &theirs.proof)
                };
                let el = elaborate_stark(&mine.case.stark, &stark_limits());
                let sok = with_stark_shape!(el.shape, stark_verify, &el, &theirs.stark_proof);
                verified += 2;
                if let Err(e) = ok.and(sok) {
                    let reason = format!("a proof produced by build variant {} is rejected by variant {}: {}", ov, ctx.variant, e);
                    ctx.violation("emit", &mine.case, &reason);
                    break 'outer;
                }
            }
        }
        *ctx.stats.hist.entry("cross_compared".into()).or_insert(0) += compared;
        *ctx.stats.hist.entry("cross_verified".into()).or_insert(0) += verified;
        ctx.stats.samples.push(json!({"phase": "cross", "own_variant": ctx.variant, "others": others.iter().map(|o| o.0.clone()).collect::<Vec<_>>(), "records": own.len()}));
        eprintln!("[C19 {}] cross: compared {} records, verified {} foreign proofs", ctx.variant, compared, verified);
    }
}

fn verify_foreign<C: GenericConfig<D, F = F>>(raw: &RawCircuit, proof_bytes: &[u8]) -> Result<(), String> {
    let built = build_case::<C>(raw, &DslOpts::default(), &limits());
    let proof = ProofWithPublicInputs::<F, C, D>::from_bytes(proof_bytes.to_vec(), &built.data.common).map_err(|e| format!("foreign proof does not decode: {:#}", e))?;
    built.data.verify(proof).map_err(|e| format!("{:#}", e))
}

#[allow(unused)]
fn _h<H: Hasher<F>>() {}
