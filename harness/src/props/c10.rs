//! C10 — STARK lookups and cross-table lookups (see DESIGN.md §C10).

use crate::engine::Ctx;

pub fn run(ctx: &mut Ctx) {
    let _ = ctx;
}
