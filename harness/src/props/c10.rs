//! C10 — STARK lookups and cross-table lookups hold iff the looked-up values are present
//! (see DESIGN.md §C10).
//!
//! (a) `single_table_lookups`: generated STARKs with 1-2 `Lookup`s, proved and verified by the real
//!     prover / verifier; single-value changes of the trace (looking value, table value, frequency,
//!     filter bit) judged by the harness's multiset oracle, and perturbations of one helper / running-sum
//!     value before commitment (always to be rejected).
//! (b) `cross_table_lookups`: 2-3 tables linked by 1-2 `CrossTableLookup`s; the multi-table pipeline is
//!     rebuilt from public functions with one fixed transcript discipline (all trace caps, CTL challenges,
//!     then per table a clone that absorbs the public inputs and the config, `ignore_trace_cap = true`).
//!     Negatives: single-value changes on either side, filter bits, extra values, perturbed auxiliary
//!     values, and forged CTL running sums / helper cells that compensate a multiset difference.

use std::sync::Arc;

use hashbrown::HashMap as HbMap;
use plonky2::field::polynomial::PolynomialValues;
use plonky2::field::types::Field;
use plonky2::fri::oracle::PolynomialBatch;
use plonky2::iop::challenger::Challenger;
use plonky2::plonk::config::GenericConfig;
use plonky2::util::timing::TimingTree;
use plonky2::verif_hooks::{reset_knobs, set_knobs, Knobs};
use proptest::prelude::*;
use serde::{Deserialize, Serialize};
use serde_json::json;
use starky::config::StarkConfig;
use starky::cross_table_lookup::{get_ctl_data, verify_cross_table_lookups, CrossTableLookup, CtlCheckVars, CtlData, CtlZData};
use starky::lookup::{get_grand_product_challenge_set, Column, Filter, GrandProductChallengeSet};
use starky::proof::StarkProofWithPublicInputs;
use starky::prover::{prove, prove_with_commitment};
use starky::stark::Stark;
use starky::verifier::{verify_stark_proof, verify_stark_proof_with_challenges};

use crate::circuit::PC;
use crate::engine::{bx, catch, frac, hash_of, Ctx, Stats};
use crate::gen::dsl::{D, F};
use crate::gen::field::canonical;
use crate::gen::stark::*;
use crate::gen::stark_lookup::*;
use crate::props::common::frac32;
use crate::with_stark_shape;

type H = <PC as GenericConfig<D>>::Hasher;
type Proof = StarkProofWithPublicInputs<F, PC, D>;

fn row_by_class(class: u8, raw: u32, n: usize) -> usize {
    match class % 6 {
        0 => 0,
        1 => n - 1,
        2 => n - 2,
        3 => 1,
        _ => frac32(raw, n),
    }
}

fn nonzero_delta(raw: u64, mode: u8) -> u64 {
    match mode % 3 {
        0 => 1,
        1 => crate::gen::field::P - 1,
        _ => {
            let d = raw % crate::gen::field::P;
            if d == 0 {
                1
            } else {
                d
            }
        }
    }
}

// ==========================================================================================
// (a) single-table lookups
// ==========================================================================================

#[derive(Clone, Debug, Serialize, Deserialize, PartialEq, Eq, Hash)]
pub struct RawNeg {
    pub kind: u8,
    pub lookup: u16,
    pub pos: u32,
    pub row_class: u8,
    pub row: u32,
    pub val: u64,
    pub which: u16,
    pub delta: u64,
}

fn raw_neg() -> BoxedStrategy<RawNeg> {
    bx((any::<u8>(), any::<u16>(), any::<u32>(), any::<u8>(), any::<u32>(), canonical(), any::<u16>(), canonical())
        .prop_map(|(kind, lookup, pos, row_class, row, val, which, delta)| RawNeg { kind, lookup, pos, row_class, row, val, which, delta }))
}

#[derive(Clone, Debug, Serialize, Deserialize)]
pub struct CaseA {
    pub stark: RawLkStark,
    pub negs: Vec<RawNeg>,
}

fn case_a(n_negs: usize) -> BoxedStrategy<CaseA> {
    bx((raw_lk_stark(), prop::collection::vec(raw_neg(), n_negs..=n_negs)).prop_map(|(stark, negs)| CaseA { stark, negs }))
}

const NEG_A: [&str; 12] = [
    "looking_to_non_table_value",
    "looking_to_other_table_value",
    "looking_moved_and_frequencies_fixed",
    "table_value_fresh",
    "table_value_duplicated",
    "frequency_changed",
    "filter_bit_flipped",
    "filter_flipped_and_frequencies_fixed",
    "aux_helper_perturbed",
    "aux_running_sum_perturbed",
    "filtered_out_cell_changed",
    "looking_to_non_table_value",
];

enum Change {
    Trace(Vec<Vec<F>>),
    Aux((usize, usize, u64)),
}

/// (column k, row r) pairs of a lookup whose filter is on / off, restricted to columns with their own cell
fn looking_cells(l: &LookupBuilt, trace: &[Vec<F>], on: bool) -> Vec<(usize, usize)> {
    let mut out = vec![];
    for (k, s) in l.slots.iter().enumerate() {
        if s.is_none() {
            continue;
        }
        for r in 0..trace.len() {
            if l.filters[k].eval(&trace[r]).is_one() == on {
                out.push((k, r));
            }
        }
    }
    out
}

fn table_values(l: &LookupBuilt, trace: &[Vec<F>]) -> Vec<F> {
    (0..trace.len()).map(|r| l.def.table.eval(trace, r)).collect()
}

fn fresh_value(tvals: &[F], seed: u64) -> F {
    let mut v = fu(seed);
    while tvals.contains(&v) {
        v += F::ONE;
    }
    v
}

/// Apply one single-value change of kind `kind` to lookup `l` of a table; returns the name actually applied.
fn change_lookup(l: &LookupBuilt, def: &StarkDef, base: &[Vec<F>], rn: &RawNeg, num_challenges: usize, li: usize) -> (Change, &'static str) {
    let n = base.len();
    let mut trace = base.to_vec();
    let tvals = table_values(l, &trace);
    let on_cells = looking_cells(l, &trace, true);
    let mut kind = (rn.kind % 12) as usize;
    // fall-backs when the requested change is not available
    if kind == 10 && looking_cells(l, &trace, false).is_empty() {
        kind = 0;
    }
    if (kind == 6 || kind == 7) && l.filters.iter().all(|f| *f == FilterDef::None) {
        kind = if kind == 6 { 1 } else { 2 };
    }
    if on_cells.is_empty() && matches!(kind, 0 | 1 | 2 | 11) {
        kind = 3;
    }
    match kind {
        0 | 11 => {
            let (k, r) = on_cells[frac32(rn.pos, on_cells.len())];
            l.slots[k].as_ref().unwrap().set(&mut trace, r, fresh_value(&tvals, rn.val));
        }
        1 | 2 => {
            let (k, r) = on_cells[frac32(rn.pos, on_cells.len())];
            let cur = l.def.columns[k].eval(&trace, r);
            let start = frac(rn.which, n);
            let new = (0..n).map(|i| tvals[(start + i) % n]).find(|&v| v != cur);
            match new {
                Some(v) => l.slots[k].as_ref().unwrap().set(&mut trace, r, v),
                None => l.slots[k].as_ref().unwrap().set(&mut trace, r, fresh_value(&tvals, rn.val)),
            }
            if kind == 2 {
                let _ = l.fill_frequencies(&mut trace, rn.which & 1 == 1);
            }
        }
        3 => {
            let r = row_by_class(rn.row_class, rn.row, n);
            l.table_slot.set(&mut trace, r, fresh_value(&tvals, rn.val));
        }
        4 => {
            let r = row_by_class(rn.row_class, rn.row, n);
            let start = frac(rn.which, n);
            let new = (0..n).map(|i| tvals[(start + i) % n]).find(|&v| v != tvals[r]).unwrap_or(tvals[r] + F::ONE);
            l.table_slot.set(&mut trace, r, new);
        }
        5 => {
            let r = row_by_class(rn.row_class, rn.row, n);
            let m = l.def.freq.eval(&trace, r);
            l.freq_slot.set(&mut trace, r, m + fu(nonzero_delta(rn.delta, rn.which as u8)));
        }
        6 | 7 => {
            let cols: Vec<usize> = (0..l.filters.len()).filter(|&k| l.filters[k] != FilterDef::None).collect();
            let k = cols[frac(rn.which, cols.len())];
            let c = l.filters[k].flip_col().unwrap();
            let r = row_by_class(rn.row_class, rn.row, n);
            trace[r][c] = F::ONE - trace[r][c];
            if kind == 7 {
                let _ = l.fill_frequencies(&mut trace, false);
            }
        }
        8 | 9 => {
            let (layout, _) = lookup_aux_layout(def, num_challenges);
            let mine: Vec<_> = layout.iter().filter(|e| e.0 == li).collect();
            let e = mine[frac(rn.which, mine.len())];
            let poly = if kind == 8 { e.2 + frac32(rn.pos, e.3) } else { e.2 + e.3 };
            let r = row_by_class(rn.row_class, rn.row, n);
            return (Change::Aux((poly, r, nonzero_delta(rn.delta, rn.which as u8))), NEG_A[kind]);
        }
        _ => {
            let off = looking_cells(l, &trace, false);
            let (k, r) = off[frac32(rn.pos, off.len())];
            let cur = l.def.columns[k].eval(&trace, r);
            let new = if rn.which & 1 == 0 { fu(rn.val) } else { tvals[frac(rn.which, n)] };
            l.slots[k].as_ref().unwrap().set(&mut trace, r, if new == cur { new + F::ONE } else { new });
        }
    }
    (Change::Trace(trace), NEG_A[kind])
}

fn prove_single<const COLS: usize, const PIS: usize>(stark: &GenStark<COLS, PIS>, config: &StarkConfig, trace: &[Vec<F>], pis: &[F], knobs: Knobs) -> Result<anyhow::Result<Proof>, String> {
    let cols = trace_columns(trace, COLS);
    set_knobs(knobs);
    let r = catch(|| prove::<F, PC, GenStark<COLS, PIS>, D>(stark.clone(), config, cols, pis, None, &mut TimingTree::default()));
    reset_knobs();
    r
}

/// Expected acceptance of a single table: ordinary constraints and every lookup relation.
fn table_expectation(t: &TableBuilt, trace: &[Vec<F>]) -> Result<Option<String>, String> {
    let v = violations(&t.def, trace, &t.pis);
    if !v.is_empty() {
        return Ok(Some(format!("ordinary constraints violated: {:?}", v)));
    }
    for (i, l) in t.lookups.iter().enumerate() {
        if let Some(d) = lookup_verdict(l, trace)?.defect {
            return Ok(Some(format!("lookup {}: {}", i, d)));
        }
    }
    Ok(None)
}

fn run_a<const COLS: usize, const PIS: usize>(c: &CaseA, el: &LkStark, st: &mut Stats) -> Result<(), String> {
    let t = &el.table;
    let stark = GenStark::<COLS, PIS> { def: Arc::new(t.def.clone()) };
    let chash = hash_of(&c.stark);
    for l in &el.labels {
        st.label(l);
    }
    let ctx = || format!("{:?} lookups {:?}", el.labels, t.def.lookups);
    // ---- generator / oracle sanity
    if let Some(d) = table_expectation(t, &t.trace)? {
        return Err(format!("generator bug: the constructed trace does not satisfy the statement: {}", d));
    }
    let mut rich = true;
    for l in &t.lookups {
        let v = lookup_verdict(l, &t.trace)?;
        rich &= v.filtered_values >= 2 && v.used_table_rows >= 2;
    }
    st.label(if rich { "positive_nontrivial" } else { "positive_small" });
    // ---- positive
    st.evals(1);
    let proof = prove_single(&stark, &el.config, &t.trace, &t.pis, Knobs::default())
        .map_err(|p| format!("prover PANICKED on a trace whose lookups hold: {} [{}]", p, ctx()))?
        .map_err(|e| format!("prover failed on a trace whose lookups hold: {:#} [{}]", e, ctx()))?;
    catch(|| verify_stark_proof(stark.clone(), proof.clone(), &el.config, None))
        .map_err(|p| format!("verifier PANICKED on an honest lookup proof: {} [{}]", p, ctx()))?
        .map_err(|e| format!("honest lookup proof rejected: {:#} [{}]", e, ctx()))?;
    if rich {
        st.nontrivial(&(chash, "positive"));
    }
    // ---- negatives
    for rn in &c.negs {
        let li = frac(rn.lookup, t.lookups.len());
        let (change, name) = change_lookup(&t.lookups[li], &t.def, &t.trace, rn, el.config.num_challenges, li);
        st.evals(1);
        st.label(&format!("neg:{}", name));
        let mut knobs = Knobs::default();
        knobs.lenient_quotient = true;
        let (trace, expected): (Vec<Vec<F>>, Option<String>) = match change {
            Change::Trace(tr) => {
                let e = table_expectation(t, &tr)?;
                (tr, e)
            }
            Change::Aux(p) => {
                knobs.aux_perturb = Some(p);
                (t.trace.clone(), Some(format!("auxiliary polynomial {} perturbed on row {} by {}", p.0, p.1, p.2)))
            }
        };
        let res = prove_single(&stark, &el.config, &trace, &t.pis, knobs);
        match expected {
            None => {
                st.label("expected_accept");
                let p = res
                    .map_err(|p| format!("prover PANICKED on a changed trace whose lookups still hold ({}): {} [{}]", name, p, ctx()))?
                    .map_err(|e| format!("prover failed on a changed trace whose lookups still hold ({}): {:#} [{}]", name, e, ctx()))?;
                catch(|| verify_stark_proof(stark.clone(), p, &el.config, None))
                    .map_err(|p| format!("verifier panicked: {}", p))?
                    .map_err(|e| format!("proof rejected although the multiset relation holds after the change ({}): {:#} [{}]", name, e, ctx()))?;
                st.nontrivial(&(chash, rn, "accept"));
            }
            Some(why) => {
                st.label("expected_reject");
                match res {
                    Err(_) => st.label("weak:prover_panicked"),
                    Ok(Err(_)) => st.label("weak:prover_err"),
                    Ok(Ok(p)) => {
                        st.label("proof_emitted");
                        st.nontrivial(&(chash, rn));
                        let ok = catch(|| verify_stark_proof(stark.clone(), p, &el.config, None)).map(|r| r.is_ok()).unwrap_or(false);
                        if ok {
                            return Err(format!("STARK verifier ACCEPTED a proof although {} (change: {}) [{}]", why, name, ctx()));
                        }
                    }
                }
            }
        }
    }
    st.sample(|| json!({"labels": el.labels, "roles": t.roles, "lookups": format!("{:?}", t.def.lookups), "config": format!("{:?}", el.config)}));
    Ok(())
}

fn prop_a(c: &CaseA, st: &mut Stats) -> Result<(), String> {
    let el = build_lookup_stark(&c.stark).map_err(|e| format!("generator bug: {}", e))?;
    with_stark_shape!(el.table.shape, run_a, c, &el, st)
}

// ==========================================================================================
// (b) cross-table lookups
// ==========================================================================================

#[derive(Clone, Debug, Serialize, Deserialize, PartialEq, Eq, Hash)]
pub struct RawNegB {
    pub kind: u8,
    pub ctl: u16,
    pub side: u16,
    pub pos: u32,
    pub col: u16,
    pub val: u64,
    pub table: u16,
    pub which: u16,
    pub row_class: u8,
    pub row: u32,
    pub delta: u64,
    pub inner: RawNeg,
}

fn raw_neg_b() -> BoxedStrategy<RawNegB> {
    bx((
        (any::<u8>(), any::<u16>(), any::<u16>(), any::<u32>(), any::<u16>(), canonical()),
        (any::<u16>(), any::<u16>(), any::<u8>(), any::<u32>(), canonical(), raw_neg()),
    )
        .prop_map(|((kind, ctl, side, pos, col, val), (table, which, row_class, row, delta, inner))| RawNegB {
            kind,
            ctl,
            side,
            pos,
            col,
            val,
            table,
            which,
            row_class,
            row,
            delta,
            inner,
        }))
}

#[derive(Clone, Debug, Serialize, Deserialize)]
pub struct CaseB {
    pub sys: RawCtlSys,
    pub negs: Vec<RawNegB>,
}

fn case_b(n_negs: usize) -> BoxedStrategy<CaseB> {
    bx((raw_ctl_sys(), prop::collection::vec(raw_neg_b(), n_negs..=n_negs)).prop_map(|(sys, negs)| CaseB { sys, negs }))
}

/// What the forging prover does to the CTL auxiliary columns of one table.
#[derive(Clone, Debug)]
enum Forge {
    /// replace every CTL entry of the table by the harness's own (honest) computation
    OwnHonest { table: usize },
    /// make up for the difference of the two sides by adding it to Z on rows 0..=row of one entry
    ShiftZ { ctl: usize, looked: bool, group: usize, row: u32, row_class: u8 },
    /// make up for the difference by adding it to one helper cell (Z recomputed consistently)
    HelperCell { ctl: usize, group: usize, chunk: u16, row: u32, row_class: u8 },
}

struct World<'a> {
    sys: &'a CtlSystem,
    defs: Vec<Arc<StarkDef>>,
    ctls: Vec<CrossTableLookup<F>>,
}

struct Attempt<'a> {
    traces: &'a [Vec<Vec<F>>],
    extras: &'a [Vec<Vec<F>>],
    lenient: bool,
    aux: Option<(usize, (usize, usize, u64))>,
    forge: Option<Forge>,
}

fn prove_table<const COLS: usize, const PIS: usize>(
    def: &Arc<StarkDef>,
    config: &StarkConfig,
    trace: &[PolynomialValues<F>],
    commitment: &PolynomialBatch<F, PC, D>,
    ctl_data: &CtlData<F>,
    ctl_challenges: &GrandProductChallengeSet<F>,
    challenger: &mut Challenger<F, H>,
    pis: &[F],
) -> anyhow::Result<Proof> {
    let stark = GenStark::<COLS, PIS> { def: def.clone() };
    prove_with_commitment::<F, PC, GenStark<COLS, PIS>, D>(
        &stark,
        config,
        trace,
        commitment,
        Some(ctl_data),
        Some(ctl_challenges),
        challenger,
        pis,
        None,
        None,
        &mut TimingTree::default(),
    )
}

fn verify_table<const COLS: usize, const PIS: usize>(
    def: &Arc<StarkDef>,
    config: &StarkConfig,
    table: usize,
    proof: &Proof,
    ctls: &[CrossTableLookup<F>],
    ctl_challenges: &GrandProductChallengeSet<F>,
    base: &Challenger<F, H>,
    degree: usize,
) -> anyhow::Result<()> {
    let stark = GenStark::<COLS, PIS> { def: def.clone() };
    anyhow::ensure!(proof.public_inputs.len() == PIS, "wrong number of public inputs");
    let (total_helpers, _num_zs, helpers_by_ctl) = CrossTableLookup::num_ctl_helpers_zs_all(ctls, table, config.num_challenges, degree);
    let num_lookup_columns = stark.num_lookup_helper_columns(config);
    let ctl_vars = CtlCheckVars::from_proof(table, &proof.proof, ctls, ctl_challenges, num_lookup_columns, total_helpers, &helpers_by_ctl);
    let mut ch = base.clone();
    ch.observe_elements(&proof.public_inputs);
    let challenges = proof.proof.get_challenges(&stark, &proof.public_inputs, &mut ch, Some(ctl_challenges), Some(&ctl_vars), true, config, None);
    verify_stark_proof_with_challenges(&stark, &proof.proof, &challenges, Some(&ctl_vars), &proof.public_inputs, config)
}

/// sum over the extra looking tuples of 1/combine(tuple) for one challenge
fn extra_sum(extras: &[Vec<F>], beta: F, gamma: F) -> F {
    extras.iter().map(|t| combine(t, beta, gamma).inverse()).sum()
}

enum ProveOutcome {
    Proofs(Vec<Proof>),
    /// the prover gave up (Err / panic) on some table
    Weak(String),
}

fn prove_system<const N: usize>(w: &World, a: &Attempt) -> Result<ProveOutcome, String> {
    let sys = w.sys;
    let config = &sys.config;
    let fc = &config.fri_config;
    let cols: Vec<Vec<PolynomialValues<F>>> = (0..N).map(|t| trace_columns(&a.traces[t], sys.tables[t].def.cols)).collect();
    let arr: [Vec<PolynomialValues<F>>; N] = cols.clone().try_into().map_err(|_| "table count".to_string())?;
    let commitments: Vec<PolynomialBatch<F, PC, D>> = catch(|| {
        cols.iter()
            .map(|c| PolynomialBatch::<F, PC, D>::from_values(c.clone(), fc.rate_bits, false, fc.cap_height, &mut TimingTree::default(), None))
            .collect()
    })
    .map_err(|p| format!("trace commitment panicked: {}", p))?;
    let mut challenger = Challenger::<F, H>::new();
    for c in &commitments {
        challenger.observe_cap(&c.merkle_tree.cap);
    }
    // own copies of the CTL columns / filters of the forged table (they must outlive `ctl_data`)
    let forged_table = match &a.forge {
        Some(Forge::OwnHonest { table }) => Some(*table),
        Some(Forge::ShiftZ { ctl, looked, group, .. }) => Some(if *looked { sys.ctls[*ctl].looked.table } else { sys.ctls[*ctl].groups()[*group].0 }),
        Some(Forge::HelperCell { ctl, group, .. }) => Some(sys.ctls[*ctl].groups()[*group].0),
        None => None,
    };
    let entries: Vec<EntryRef> = forged_table.map(|t| table_entries(&sys.ctls, t, config.num_challenges, sys.degree)).unwrap_or_default();
    let entry_sides = |e: &EntryRef| -> Vec<&SideBuilt> {
        match &e.group {
            Some(g) => g.iter().map(|&i| &sys.ctls[e.ctl].looking[i]).collect(),
            None => vec![&sys.ctls[e.ctl].looked],
        }
    };
    let own_cols: Vec<Vec<Vec<Column<F>>>> = entries.iter().map(|e| entry_sides(e).iter().map(|s| s.slots.iter().map(|sl| sl.col.to_column()).collect()).collect()).collect();
    let own_filters: Vec<Vec<Filter<F>>> = entries.iter().map(|e| entry_sides(e).iter().map(|s| s.filter.to_filter()).collect()).collect();

    let got = catch(|| get_ctl_data::<F, PC, D, N>(config, &arr, &w.ctls, &mut challenger, sys.degree));
    let (ctl_challenges, mut ctl_data) = match got {
        Ok(x) => x,
        Err(p) => return Ok(ProveOutcome::Weak(format!("get_ctl_data panicked: {}", p))),
    };
    if let (Some(ft), Some(forge)) = (forged_table, &a.forge) {
        for (idx, e) in entries.iter().enumerate() {
            let ch = ctl_challenges.challenges[e.challenge];
            let trace = &a.traces[ft];
            let n = trace.len();
            let (mut helpers, mut z) = group_aux(&entry_sides(e), trace, ch.beta, ch.gamma, sys.degree);
            // difference of the two sides of this entry's CTL for this challenge (own sums)
            let delta = || -> F {
                let ctl = &sys.ctls[e.ctl];
                let looked = group_aux(&[&ctl.looked], &a.traces[ctl.looked.table], ch.beta, ch.gamma, sys.degree).1[0];
                let mut looking = extra_sum(&a.extras[e.ctl], ch.beta, ch.gamma);
                for (t, g) in ctl.groups() {
                    let sides: Vec<&SideBuilt> = g.iter().map(|&i| &ctl.looking[i]).collect();
                    looking += group_aux(&sides, &a.traces[t], ch.beta, ch.gamma, sys.degree).1[0];
                }
                looked - looking
            };
            let replace = match forge {
                Forge::OwnHonest { .. } => true,
                Forge::ShiftZ { ctl, looked, group, row, row_class } => {
                    let hit = e.ctl == *ctl && if *looked { e.group.is_none() } else { e.group.as_ref() == Some(&sys.ctls[*ctl].groups()[*group].1) };
                    if hit {
                        let d = if *looked { -delta() } else { delta() };
                        let r = row_by_class(*row_class, *row, n);
                        for zi in z.iter_mut().take(r + 1) {
                            *zi += d;
                        }
                    }
                    hit
                }
                Forge::HelperCell { ctl, group, chunk, row, row_class } => {
                    let hit = e.ctl == *ctl && e.group.as_ref() == Some(&sys.ctls[*ctl].groups()[*group].1) && !helpers.is_empty();
                    if hit {
                        let d = delta();
                        let r = row_by_class(*row_class, *row, n);
                        let k = frac(*chunk, helpers.len());
                        helpers[k][r] += d;
                        for zi in z.iter_mut().take(r + 1) {
                            *zi += d;
                        }
                    }
                    hit
                }
            };
            if replace {
                ctl_data[ft].zs_columns[idx] = CtlZData::new(
                    helpers.into_iter().map(PolynomialValues::new).collect(),
                    PolynomialValues::new(z),
                    ch,
                    own_cols[idx].iter().map(|v| &v[..]).collect(),
                    own_filters[idx].clone(),
                );
            }
        }
    }
    let mut proofs = vec![];
    for t in 0..N {
        let tb = &sys.tables[t];
        let mut ch = challenger.clone();
        ch.observe_elements(&tb.pis);
        config.observe(&mut ch);
        let mut knobs = Knobs::default();
        knobs.lenient_quotient = a.lenient;
        if let Some((at, p)) = a.aux {
            if at == t {
                knobs.aux_perturb = Some(p);
            }
        }
        set_knobs(knobs);
        let r = catch(|| with_stark_shape!(tb.shape, prove_table, &w.defs[t], config, &arr[t], &commitments[t], &ctl_data[t], &ctl_challenges, &mut ch, &tb.pis));
        reset_knobs();
        match r {
            Err(p) => return Ok(ProveOutcome::Weak(format!("prover panicked on table {}: {}", t, p))),
            Ok(Err(e)) => return Ok(ProveOutcome::Weak(format!("prover failed on table {}: {:#}", t, e))),
            Ok(Ok(p)) => proofs.push(p),
        }
    }
    Ok(ProveOutcome::Proofs(proofs))
}

/// The verifier of the multi-table system; Err(stage: reason) on the first failing check.
fn verify_system<const N: usize>(w: &World, proofs: &[Proof], extras: &[Vec<Vec<F>>]) -> Result<(), String> {
    let sys = w.sys;
    let config = &sys.config;
    let mut challenger = Challenger::<F, H>::new();
    for p in proofs {
        challenger.observe_cap(&p.proof.trace_cap);
    }
    let ctl_challenges = get_grand_product_challenge_set(&mut challenger, config.num_challenges);
    for t in 0..N {
        let tb = &sys.tables[t];
        catch(|| with_stark_shape!(tb.shape, verify_table, &w.defs[t], config, t, &proofs[t], &w.ctls, &ctl_challenges, &challenger, sys.degree))
            .map_err(|p| format!("table {}: verifier panicked: {}", t, p))?
            .map_err(|e| format!("table {}: {:#}", t, e))?;
    }
    let mut extra_sums: HbMap<usize, Vec<F>> = HbMap::new();
    for (i, e) in extras.iter().enumerate() {
        if !e.is_empty() {
            extra_sums.insert(i, ctl_challenges.challenges.iter().map(|ch| extra_sum(e, ch.beta, ch.gamma)).collect());
        }
    }
    let mut firsts: Vec<Vec<F>> = vec![];
    for p in proofs {
        firsts.push(p.proof.openings.ctl_zs_first.clone().ok_or_else(|| "missing ctl_zs_first".to_string())?);
    }
    let firsts: [Vec<F>; N] = firsts.try_into().map_err(|_| "table count".to_string())?;
    catch(|| verify_cross_table_lookups::<F, D, N>(&w.ctls, firsts, &extra_sums, config))
        .map_err(|p| format!("cross-table check panicked: {}", p))?
        .map_err(|e| format!("cross-table check: {:#}", e))
}

fn prove_dispatch(w: &World, a: &Attempt) -> Result<ProveOutcome, String> {
    match w.sys.n_tables {
        2 => prove_system::<2>(w, a),
        _ => prove_system::<3>(w, a),
    }
}

fn verify_dispatch(w: &World, proofs: &[Proof], extras: &[Vec<Vec<F>>]) -> Result<(), String> {
    match w.sys.n_tables {
        2 => verify_system::<2>(w, proofs, extras),
        _ => verify_system::<3>(w, proofs, extras),
    }
}

/// Expected acceptance of the whole system: Ok(None) = accept.
fn system_expectation(sys: &CtlSystem, traces: &[Vec<Vec<F>>], extras: &[Vec<Vec<F>>]) -> Result<Option<String>, String> {
    for (t, tb) in sys.tables.iter().enumerate() {
        if let Some(d) = table_expectation(tb, &traces[t])? {
            return Ok(Some(format!("table {}: {}", t, d)));
        }
    }
    let refs: Vec<&Vec<Vec<F>>> = traces.iter().collect();
    for (i, ctl) in sys.ctls.iter().enumerate() {
        if let Some(d) = ctl_verdict(ctl, &extras[i], &refs)?.defect {
            return Ok(Some(format!("cross-table lookup {}: {}", i, d)));
        }
    }
    Ok(None)
}

const NEG_B: [&str; 12] = [
    "looking_value_changed",
    "looked_value_changed",
    "filter_bit_flipped",
    "unselected_cell_changed",
    "extra_value_changed",
    "aux_perturbed",
    "forged_running_sum",
    "forged_helper_cell",
    "own_aux_honest",
    "table_lookup_changed",
    "looking_value_changed",
    "looked_value_changed",
];

/// Trace-level single-value change for the CTL system; returns the name applied.
fn change_ctl(sys: &CtlSystem, traces: &mut [Vec<Vec<F>>], extras: &mut [Vec<Vec<F>>], rn: &RawNegB, kind: usize) -> &'static str {
    let ci = frac(rn.ctl, sys.ctls.len());
    let ctl = &sys.ctls[ci];
    let pick_side = |looked: bool| -> &SideBuilt {
        if looked {
            &ctl.looked
        } else {
            &ctl.looking[frac(rn.side, ctl.looking.len())]
        }
    };
    let new_value = |cur: F| -> F {
        let v = match rn.which % 3 {
            0 => fu(rn.val),
            1 => cur + F::ONE,
            _ => cur - F::ONE,
        };
        if v == cur {
            v + F::ONE
        } else {
            v
        }
    };
    match kind {
        0 | 1 | 3 => {
            let s = pick_side(kind == 1 || (kind == 3 && rn.side & 1 == 1));
            let n = traces[s.table].len();
            let rows: Vec<usize> = if kind == 3 { (0..n).filter(|r| !s.selected.contains(r)).collect() } else { s.selected.clone() };
            let r = if rows.is_empty() { frac32(rn.pos, n) } else { rows[frac32(rn.pos, rows.len())] };
            let slot = &s.slots[frac(rn.col, s.slots.len())];
            let cur = slot.col.eval(&traces[s.table], r);
            slot.set(&mut traces[s.table], r, new_value(cur));
            NEG_B[kind]
        }
        2 => {
            let s = pick_side(rn.side & 1 == 1);
            match s.filter.flip_col() {
                None => change_ctl(sys, traces, extras, rn, (rn.side & 1) as usize),
                Some(c) => {
                    let n = traces[s.table].len();
                    let r = if rn.row_class & 1 == 0 && !s.selected.is_empty() { s.selected[frac32(rn.pos, s.selected.len())] } else { frac32(rn.row, n) };
                    let x = traces[s.table][r][c];
                    traces[s.table][r][c] = F::ONE - x;
                    NEG_B[2]
                }
            }
        }
        _ => {
            if extras[ci].is_empty() {
                return change_ctl(sys, traces, extras, rn, 0);
            }
            let j = frac32(rn.pos, extras[ci].len());
            let i = frac(rn.col, ctl.width);
            let cur = extras[ci][j][i];
            extras[ci][j][i] = new_value(cur);
            NEG_B[4]
        }
    }
}

fn prop_b(c: &CaseB, st: &mut Stats) -> Result<(), String> {
    let sys = build_ctl_system(&c.sys).map_err(|e| format!("generator bug: {}", e))?;
    let chash = hash_of(&c.sys);
    for l in &sys.labels {
        st.label(l);
    }
    let w = World {
        sys: &sys,
        defs: sys.tables.iter().map(|t| Arc::new(t.def.clone())).collect(),
        ctls: sys.ctls.iter().map(|c| c.to_ctl()).collect(),
    };
    let ctx = || format!("{:?}", sys.labels);
    let base_traces: Vec<Vec<Vec<F>>> = sys.tables.iter().map(|t| t.trace.clone()).collect();
    let base_extras: Vec<Vec<Vec<F>>> = sys.ctls.iter().map(|c| c.extras.clone()).collect();
    if let Some(d) = system_expectation(&sys, &base_traces, &base_extras)? {
        return Err(format!("generator bug: the constructed system does not satisfy the statement: {}", d));
    }
    let refs: Vec<&Vec<Vec<F>>> = base_traces.iter().collect();
    let mut rich = true;
    for (i, ctl) in sys.ctls.iter().enumerate() {
        let v = ctl_verdict(ctl, &base_extras[i], &refs)?;
        rich &= v.looking_rows >= 2 && v.looked_rows >= 2;
    }
    st.label(if rich { "positive_nontrivial" } else { "positive_small" });
    // ---- positive
    st.evals(1);
    let honest = Attempt {
        traces: &base_traces,
        extras: &base_extras,
        lenient: false,
        aux: None,
        forge: None,
    };
    let proofs = match prove_dispatch(&w, &honest)? {
        ProveOutcome::Proofs(p) => p,
        ProveOutcome::Weak(e) => return Err(format!("honest multi-table proving failed: {} [{}]", e, ctx())),
    };
    verify_dispatch(&w, &proofs, &base_extras).map_err(|e| format!("honest multi-table proof rejected at {} [{}]", e, ctx()))?;
    if rich {
        st.nontrivial(&(chash, "positive"));
    }
    // ---- negatives
    for rn in &c.negs {
        let mut traces = base_traces.clone();
        let mut extras = base_extras.clone();
        let mut aux = None;
        let mut forge = None;
        let mut forced_reject: Option<String> = None;
        let kind = (rn.kind % 12) as usize;
        let name: &'static str = match kind {
            5 => {
                // perturb one auxiliary value of one table: lookup helper / lookup Z / CTL helper / CTL Z
                let t = frac(rn.table, sys.n_tables);
                let tb = &sys.tables[t];
                let n = tb.trace.len();
                let (lk_layout, n_lk) = lookup_aux_layout(&tb.def, sys.config.num_challenges);
                let entries = table_entries(&sys.ctls, t, sys.config.num_challenges, sys.degree);
                let n_helpers: usize = entries.iter().map(|e| e.n_helpers).sum();
                let class = rn.which % 4;
                let (poly, what) = if class == 0 && !lk_layout.is_empty() {
                    let e = lk_layout[frac32(rn.pos, lk_layout.len())];
                    if rn.col & 1 == 0 {
                        (e.2 + frac(rn.col, e.3), "aux:lookup_helper")
                    } else {
                        (e.2 + e.3, "aux:lookup_running_sum")
                    }
                } else if class <= 1 && n_helpers > 0 {
                    (n_lk + frac32(rn.pos, n_helpers), "aux:ctl_helper")
                } else {
                    (n_lk + n_helpers + frac32(rn.pos, entries.len()), "aux:ctl_running_sum")
                };
                let r = row_by_class(rn.row_class, rn.row, n);
                st.label(what);
                aux = Some((t, (poly, r, nonzero_delta(rn.delta, rn.which as u8 / 4))));
                forced_reject = Some(format!("{} (table {}, polynomial {}, row {})", what, t, poly, r));
                NEG_B[5]
            }
            6 | 7 => {
                // a multiset difference, compensated by forged auxiliary columns of one entry
                let inner = change_ctl(&sys, &mut traces, &mut extras, rn, (rn.which % 3) as usize);
                st.label(&format!("forge_after:{}", inner));
                let ci = frac(rn.ctl, sys.ctls.len());
                let groups = sys.ctls[ci].groups();
                let with_helpers: Vec<usize> = (0..groups.len()).filter(|&g| groups[g].1.len() > 1).collect();
                if kind == 7 && !with_helpers.is_empty() {
                    forge = Some(Forge::HelperCell {
                        ctl: ci,
                        group: with_helpers[frac(rn.table, with_helpers.len())],
                        chunk: rn.col,
                        row: rn.row,
                        row_class: rn.row_class,
                    });
                    NEG_B[7]
                } else {
                    let looked = rn.table & 1 == 1;
                    // row class 1 = last row: only the last-row constraint notices; other rows: one transition
                    forge = Some(Forge::ShiftZ {
                        ctl: ci,
                        looked,
                        group: frac(rn.table >> 1, groups.len()),
                        row: rn.row,
                        row_class: if rn.delta & 1 == 0 { 1 } else { rn.row_class },
                    });
                    NEG_B[6]
                }
            }
            8 => {
                forge = Some(Forge::OwnHonest { table: frac(rn.table, sys.n_tables) });
                NEG_B[8]
            }
            9 => {
                let with_lk: Vec<usize> = (0..sys.n_tables).filter(|&t| !sys.tables[t].lookups.is_empty()).collect();
                if with_lk.is_empty() {
                    change_ctl(&sys, &mut traces, &mut extras, rn, 0)
                } else {
                    let t = with_lk[frac(rn.table, with_lk.len())];
                    let tb = &sys.tables[t];
                    let mut inner = rn.inner.clone();
                    if matches!(inner.kind % 12, 8 | 9) {
                        inner.kind = 0; // auxiliary perturbations are kind 5 here
                    }
                    match change_lookup(&tb.lookups[0], &tb.def, &tb.trace, &inner, sys.config.num_challenges, 0) {
                        (Change::Trace(tr), what) => {
                            st.label(&format!("table_lookup:{}", what));
                            traces[t] = tr;
                        }
                        (Change::Aux(_), _) => unreachable!(),
                    }
                    NEG_B[9]
                }
            }
            k => change_ctl(&sys, &mut traces, &mut extras, rn, [0, 1, 2, 3, 4, 0, 0, 0, 0, 0, 0, 1][k]),
        };
        st.evals(1);
        st.label(&format!("neg:{}", name));
        let expected = match forced_reject {
            Some(w) => Some(w),
            None => system_expectation(&sys, &traces, &extras)?,
        };
        let attempt = Attempt {
            traces: &traces,
            extras: &extras,
            lenient: true,
            aux,
            forge,
        };
        let outcome = prove_dispatch(&w, &attempt)?;
        match expected {
            None => {
                st.label("expected_accept");
                let proofs = match outcome {
                    ProveOutcome::Proofs(p) => p,
                    ProveOutcome::Weak(e) => return Err(format!("proving failed although every multiset relation holds after the change ({}): {} [{}]", name, e, ctx())),
                };
                verify_dispatch(&w, &proofs, &extras).map_err(|e| format!("multi-table proof rejected although every multiset relation holds after the change ({}): {} [{}]", name, e, ctx()))?;
                st.nontrivial(&(chash, rn, "accept"));
            }
            Some(why) => {
                st.label("expected_reject");
                match outcome {
                    ProveOutcome::Weak(_) => st.label("weak:prover_gave_up"),
                    ProveOutcome::Proofs(proofs) => {
                        st.label("proof_emitted");
                        st.nontrivial(&(chash, rn));
                        match verify_dispatch(&w, &proofs, &extras) {
                            Ok(()) => {
                                return Err(format!("multi-table verification ACCEPTED although {} (change: {}) [{}]", why, name, ctx()));
                            }
                            Err(stage) => {
                                let by = if stage.starts_with("cross-table") { "cross_table_check" } else { "table_verifier" };
                                st.label(&format!("rejected_by:{}", by));
                                if matches!(kind, 5 | 6 | 7) {
                                    st.label(&format!("{}:rejected_by:{}", name, by));
                                }
                            }
                        }
                    }
                }
            }
        }
    }
    st.sample(|| json!({"labels": sys.labels, "config": format!("{:?}", sys.config), "tables": sys.tables.iter().map(|t| t.roles.clone()).collect::<Vec<_>>()}));
    Ok(())
}

pub fn run(ctx: &mut Ctx) {
    ctx.level = "fault_enumeration";
    ctx.rule = "(a) run-time STARK (3-16 columns, 4..64 rows, declared degree 2 or 3) with 1-2 Lookups (1-5 looking columns: single / scaled / \
                two-column combination with constant / next-row / mixed-row / alias of another column's next row; filters c or 1-c; table and \
                frequency columns as combinations; optional duplicate table values, shared table) whose trace is built so that the logUp relation \
                holds, then single-value changes judged by the harness's multiset oracle and single-value perturbations of helper / running-sum \
                polynomials; (b) 2-3 such tables (own heights and shapes, optionally with a table-local Lookup) linked by 1-2 cross-table lookups \
                (tuple width 1-3, 1-3 looking entries incl. the same table several times, filters c / 1-c / a*b / none, extra looking values, 1-3 \
                challenges) proved and verified through the public multi-table API, then single-value changes on either side, perturbed auxiliary \
                values and forged running sums / helper cells. Non-trivial = at least 2 filtered rows (values) on each side (positive); a negative is \
                counted when the multiset relation is broken (or an auxiliary value altered) and a proof reached the verifier; distinct = distinct \
                (definition, change) pairs"
        .into();
    ctx.assumptions.push("declared constraint degree is 2 or 3 and identical for all tables of a system; filters are 0/1 valued; rows x looking columns < p".into());
    ctx.assumptions.push("table and frequency columns of a Lookup are combinations of current-row cells only (the constraints evaluate them on the local row)".into());
    ctx.assumptions.push("looking entries of the same table are adjacent in a CrossTableLookup and the looked table does not look into itself (as in the known consumer)".into());
    ctx.assumptions.push("multi-table transcript discipline (integration choice): all trace caps, CTL challenges, then per table a clone absorbing public inputs and the config, ignore_trace_cap = true".into());
    ctx.assumptions.push("rejections rely on the logUp / random-evaluation soundness error <= (rows x columns + degree) / |F| per challenge, negligible for all generated sizes".into());
    ctx.shrink_iters = 60;
    let (na, ka) = ctx.tier.pick((1_100, 10), (16_000, 16));
    ctx.run_sub("single_table_lookups", na, 16, move || case_a(ka), prop_a);
    let (nb, kb) = ctx.tier.pick((900, 8), (12_000, 12));
    ctx.run_sub("cross_table_lookups", nb, 16, move || case_b(kb), prop_b);
}
