//! C13 — optimised hashing and the transcript sponge equal their specification (DESIGN.md §C13).
//!
//! Oracles: `oracle::poseidon_ref` (textbook Poseidon, overwrite-mode sponge, duplex model) and
//! `oracle::keccak_ref` (Keccak-f[1600], Keccak-256, rejection-sampling pseudo-permutation).
//! All comparisons are by canonical residue.

use plonky2::hash::hash_types::{BytesHash, HashOut};
use plonky2::hash::hashing::{compress, hash_n_to_hash_no_pad, hash_n_to_m_no_pad, PlonkyPermutation};
use plonky2::hash::keccak::{KeccakHash, KeccakPermutation};
use plonky2::hash::merkle_tree::MerkleCap;
use plonky2::hash::poseidon::{Poseidon, PoseidonHash, PoseidonPermutation};
use plonky2::iop::challenger::Challenger;
use plonky2::plonk::config::Hasher;
use plonky2_field::extension::quadratic::QuadraticExtension;
use plonky2_field::goldilocks_field::GoldilocksField as F;
use plonky2_field::types::{Field, Field64, PrimeField64};
use proptest::array::{uniform12, uniform2, uniform4};
use proptest::collection::vec;
use proptest::prelude::*;
use serde::{Deserialize, Serialize};
use serde_json::json;

use crate::engine::{bx, frac, Ctx, Stats};
use crate::gen::field::{any_repr, class_of, is_boundary, EPS, P};
use crate::oracle::keccak_ref as kref;
use crate::oracle::poseidon_ref as pref;

type QE = QuadraticExtension<F>;

// ------------------------------------------------------------------------------------------
// helpers
// ------------------------------------------------------------------------------------------

fn fs(v: &[u64]) -> Vec<F> {
    v.iter().map(|&x| F(x)).collect()
}

fn cmp(what: &str, got: &[F], want: &[u64]) -> Result<(), String> {
    let g: Vec<u64> = got.iter().map(|x| x.to_canonical_u64()).collect();
    if g.as_slice() != want {
        return Err(format!("{}: got {:x?} want {:x?}", what, g, want));
    }
    Ok(())
}

fn noncanonical() -> BoxedStrategy<u64> {
    prop_oneof![
        2 => (0u64..4).prop_map(|k| P + k),
        2 => (0u64..4).prop_map(|k| u64::MAX - k),
        2 => P..=u64::MAX,
    ]
    .boxed()
}

fn extreme() -> BoxedStrategy<u64> {
    prop::sample::select(vec![
        0u64,
        1,
        P - 1,
        P,
        P + 1,
        u64::MAX,
        u64::MAX - 1,
        EPS,
        EPS + 1,
        1 << 63,
        0xFFFF_FFFF_0000_0000,
        0xFFFF_FFFE_FFFF_FFFF,
        0x7FFF_FFFF_FFFF_FFFF,
    ])
    .boxed()
}

/// State whose MDS row sum for row `r`, reduced lazily as `lo + hi * (2^32 - 1)`, lands just below
/// 2^64 (a non-canonical representation), with lane 0 = 2^61 - 1 - a so that 8 * lane0 (the diagonal
/// term) is just below 2^64 too. Boundary class derived from the specification's MDS vectors:
/// two lanes are solved from 15 x + 41 y = target - (contribution of the other lanes).
fn mds_wrap_state() -> BoxedStrategy<[u64; 12]> {
    (0usize..12, 0u64..4, 8u128..=12, 0u128..4, uniform12(0u64..0x1_0000_0000), any::<u16>(), 0u128..1000)
        .prop_map(|(r, a, h, c, small, mask, k)| {
            let mut s = [0u64; 12];
            for i in 0..12 {
                if mask >> i & 1 == 1 {
                    s[i] = small[i];
                }
            }
            s[0] = (1u64 << 61) - 1 - a;
            let (ix, iy) = ((r + 1) % 12, (r + 2) % 12); // circulant coefficients 15 and 41 in row r
            let (ix, iy) = if ix == 0 || iy == 0 { return s } else { (ix, iy) };
            s[ix] = 0;
            s[iy] = 0;
            let fixed: u128 = (0..12).map(|i| pref::MDS_CIRC[i] as u128 * s[(i + r) % 12] as u128).sum();
            let target: u128 = (h << 64) + ((1u128 << 64) - h * (EPS as u128) - 1 - c);
            let d = target - fixed; // fixed < 42 * 2^61 + 10 * 41 * 2^32 < 6 * 2^64
            // 15 x + 41 y = d  with  x = x0 + 41 k,  x0 = d * 15^-1 mod 41 (15 * 11 = 165 = 1 mod 41)
            let x = (d % 41) * 11 % 41 + 41 * k;
            let y = (d - 15 * x) / 41;
            s[ix] = x as u64;
            s[iy] = y as u64;
            s
        })
        .boxed()
}

/// 12-element state, any representation per element, several correlated shapes.
fn state12() -> BoxedStrategy<[u64; 12]> {
    prop_oneof![
        1 => mds_wrap_state(),
        6 => uniform12(any_repr()),
        1 => any_repr().prop_map(|x| [x; 12]),
        2 => uniform12(noncanonical()),
        1 => uniform12(any::<u64>()),
        2 => uniform12(extreme()),
        1 => (uniform12(any_repr()), any::<u16>()).prop_map(|(mut s, m)| {
            for (i, x) in s.iter_mut().enumerate() {
                if m >> i & 1 == 0 {
                    *x = 0;
                }
            }
            s
        }),
    ]
    .boxed()
}

fn state_nontrivial(s: &[u64]) -> bool {
    s.iter().any(|&x| x >= P || is_boundary(x))
}

// ------------------------------------------------------------------------------------------
// (a) permutation
// ------------------------------------------------------------------------------------------

#[derive(Clone, Debug, Serialize, Deserialize)]
pub struct PermCase {
    pub state: [u64; 12],
}

fn perm_strategy() -> BoxedStrategy<PermCase> {
    bx(state12().prop_map(|state| PermCase { state }))
}

fn perm_prop(c: &PermCase, st: &mut Stats) -> Result<(), String> {
    let nc = c.state.iter().filter(|&&x| x >= P).count();
    st.label(match nc {
        0 => "perm:all_canonical",
        12 => "perm:all_noncanonical",
        _ => "perm:some_noncanonical",
    });
    st.label(&format!("perm:lane0_{}", class_of(c.state[0])));
    if state_nontrivial(&c.state) {
        st.nontrivial(&("perm", c.state));
    }
    st.sample(|| json!({"sub": "poseidon_permute", "state": c.state.to_vec()}));

    let want = pref::permute(&c.state);
    let inp: [F; 12] = c.state.map(F);
    cmp("Poseidon::poseidon", &F::poseidon(inp), &want)?;
    cmp("Poseidon::poseidon_naive", &F::poseidon_naive(inp), &want)?;
    let mut p1 = PoseidonPermutation::<F>::new(inp.iter().copied());
    p1.permute();
    cmp("PoseidonPermutation::new+permute", p1.as_ref(), &want)?;
    cmp("PoseidonPermutation::squeeze", p1.squeeze(), &want[..8])?;
    let mut p2 = PoseidonPermutation::<F>::new(core::iter::repeat(F::ONE));
    p2.set_from_slice(&inp[..5], 0);
    p2.set_from_iter(inp[5..].iter().copied(), 5);
    p2.set_elt(inp[11], 11);
    p2.permute();
    cmp("PoseidonPermutation::set_*+permute", p2.as_ref(), &want)?;
    // The residue, not the representation, determines the result.
    let canon: [F; 12] = c.state.map(|x| F(x % P));
    cmp("Poseidon::poseidon(canonicalised)", &F::poseidon(canon), &want)?;
    st.evals(5);
    Ok(())
}

// ------------------------------------------------------------------------------------------
// (a') layers
// ------------------------------------------------------------------------------------------

#[derive(Clone, Debug, Serialize, Deserialize)]
pub struct LayerCase {
    pub state: [u64; 12],
    pub state2: [u64; 12],
    pub round: u16,
}

fn layer_strategy() -> BoxedStrategy<LayerCase> {
    bx(prop_oneof![
        6 => (state12(), state12(), any::<u16>()).prop_map(|(state, state2, round)| LayerCase { state, state2, round }),
        2 => acc160_boundary_case(),
    ])
}

/// The 160-bit accumulator of the sparse partial-round step for round `pr` and state `s`:
/// `d = M00 s_0 + sum w_hat_i s_i` as (bits 128.., bits 0..128).
fn acc160(s: &[u64; 12], pr: usize) -> (u32, u128) {
    let w_hat = <F as Poseidon>::FAST_PARTIAL_ROUND_W_HATS[pr];
    let (mut hi, mut lo) = (0u32, 0u128);
    for i in 0..12 {
        let w = if i == 0 { pref::MDS_CIRC[0] + pref::MDS_DIAG[0] } else { w_hat[i - 1] };
        let (l, c) = lo.overflowing_add(s[i] as u128 * w as u128);
        lo = l;
        hi += c as u32;
    }
    (hi, lo)
}

/// Is the accumulator in the region where its reduction has to propagate a carry out of bit 128
/// (`top limb + hi * (2^32 - 1)` wraps 2^64)? Measure about 2^-29 for uniform states.
fn acc160_carry_region(hi: u32, lo: u128) -> bool {
    hi > 0 && ((lo >> 64) as u64).checked_add(hi as u64 * EPS).is_none()
}

/// Boundary class for the multi-limb accumulation of `mds_partial_layer_fast`: one lane is solved so that
/// the low 128 bits of the accumulator land next to a chosen limb boundary (top limb all ones, zero, or at
/// the edge `2^64 - hi * (2^32 - 1) + c` of the carry region), for every partial round index.
fn acc160_boundary_case() -> BoxedStrategy<LayerCase> {
    (uniform12(any::<u64>()), state12(), 0usize..pref::N_PARTIAL, 1usize..12, 0u8..6, 0u64..5)
        .prop_map(|(mut s, state2, pr, j0, which, c)| {
            let w_hat = <F as Poseidon>::FAST_PARTIAL_ROUND_W_HATS[pr];
            let round = ((pr as u32 * 65536 + 65535) / pref::N_PARTIAL as u32) as u16; // frac(round, N_PARTIAL) == pr
            for dj in 0..11 {
                let j = 1 + (j0 - 1 + dj) % 11;
                let w = w_hat[j - 1] as u128;
                if w == 0 {
                    continue;
                }
                let mut t = s;
                t[j] = 0;
                let (a_hi, a_lo) = acc160(&t, pr);
                let mut done = false;
                for h in [a_hi, a_hi + 1] {
                    let edge = (h as u64).wrapping_mul(EPS).wrapping_neg(); // 2^64 - h * eps (mod 2^64)
                    let top: u64 = match which {
                        0 => u64::MAX - c,
                        1 => c,
                        2 => edge.wrapping_add(c),
                        3 => edge.wrapping_sub(c + 1),
                        4 => (1u64 << 63).wrapping_add(c),
                        _ => (u32::MAX as u64).wrapping_sub(c) << 32,
                    };
                    let v = ((top as u128) << 64) | (1u128 << 63);
                    let wraps = v < a_lo;
                    if wraps != (h == a_hi + 1) {
                        continue;
                    }
                    let x = v.wrapping_sub(a_lo) / w;
                    if x <= u64::MAX as u128 {
                        s[j] = x as u64;
                        done = true;
                        break;
                    }
                }
                if done {
                    break;
                }
            }
            LayerCase { state: s, state2, round }
        })
        .boxed()
}

fn ext_mul(a: (u64, u64), b: (u64, u64)) -> (u64, u64) {
    // F[X]/(X^2 - 7)
    let c0 = pref::addm(pref::mulm(a.0, b.0), pref::mulm(7, pref::mulm(a.1, b.1)));
    let c1 = pref::addm(pref::mulm(a.0, b.1), pref::mulm(a.1, b.0));
    (c0, c1)
}

fn layer_prop(c: &LayerCase, st: &mut Stats) -> Result<(), String> {
    let s = &c.state;
    let inp: [F; 12] = s.map(F);
    if state_nontrivial(s) {
        st.nontrivial(&("layer", c.state, c.round));
    }
    let round = frac(c.round, pref::N_ROUNDS); // 0..30
    let pr = frac(c.round, pref::N_PARTIAL); // 0..22

    // MDS: optimised (frequency-domain) layer, generic row routine, extension-field variants.
    let want_mds = pref::mds_layer(s);
    let got_mds = F::mds_layer(&inp);
    if got_mds.iter().any(|x| x.0 >= P) {
        st.label("layer:mds_output_noncanonical_repr");
    }
    let a0: u128 = (0..12).map(|i| pref::MDS_CIRC[i] as u128 * s[i] as u128).sum();
    let a0_lazy = (a0 as u64 as u128) + (a0 >> 64) * EPS as u128;
    if a0_lazy < 1 << 64 && a0_lazy >= P as u128 && s[0] < 1 << 61 && 8 * s[0] >= P {
        st.label("layer:mds_row0_and_diag_term_both_near_2^64");
    }
    cmp("mds_layer", &got_mds, &want_mds)?;
    for r in 0..12 {
        let got = pref::red(F::mds_row_shf(r, s));
        if got != want_mds[r] {
            return Err(format!("mds_row_shf(r={}): got {:#x} want {:#x} state {:x?}", r, got, want_mds[r], s));
        }
    }
    cmp("mds_layer_field<D=1>", &F::mds_layer_field::<F, 1>(&inp), &want_mds)?;
    let want_mds2 = pref::mds_layer(&c.state2);
    let mut ext = [QE::ZERO; 12];
    for i in 0..12 {
        ext[i] = QuadraticExtension([F(s[i]), F(c.state2[i])]);
    }
    let e = F::mds_layer_field::<QE, 2>(&ext);
    cmp("mds_layer_field<D=2>.0", &e.map(|x| x.0[0]), &want_mds)?;
    cmp("mds_layer_field<D=2>.1", &e.map(|x| x.0[1]), &want_mds2)?;

    // Round-constant layer (every round index).
    let want_c = pref::constant_layer(s, round);
    let mut t = inp;
    F::constant_layer(&mut t, round);
    cmp("constant_layer", &t, &want_c)?;
    let mut t = inp;
    F::constant_layer_field::<F, 1>(&mut t, round);
    cmp("constant_layer_field<D=1>", &t, &want_c)?;
    let mut te = ext;
    F::constant_layer_field::<QE, 2>(&mut te, round);
    cmp("constant_layer_field<D=2>.0", &te.map(|x| x.0[0]), &want_c)?;
    cmp("constant_layer_field<D=2>.1", &te.map(|x| x.0[1]), &pref::canon(&c.state2))?;

    // S-box.
    let want_s = pref::sbox_layer(s);
    let mut t = inp;
    F::sbox_layer(&mut t);
    cmp("sbox_layer", &t, &want_s)?;
    let mut t = inp;
    F::sbox_layer_field::<F, 1>(&mut t);
    cmp("sbox_layer_field<D=1>", &t, &want_s)?;
    let mut te = ext;
    F::sbox_layer_field::<QE, 2>(&mut te);
    for i in 0..12 {
        let x = (s[i] % P, c.state2[i] % P);
        let x2 = ext_mul(x, x);
        let x4 = ext_mul(x2, x2);
        let x7 = ext_mul(ext_mul(x4, x2), x);
        let got = (te[i].0[0].to_canonical_u64(), te[i].0[1].to_canonical_u64());
        if got != x7 {
            return Err(format!("sbox_layer_field<D=2>[{}]: got {:x?} want {:x?} for {:x?}", i, got, x7, x));
        }
    }

    // Full rounds from either half; the round counter must advance by 4.
    for start in [0usize, pref::HALF_FULL + pref::N_PARTIAL] {
        let mut t = inp;
        let mut ctr = start;
        F::full_rounds(&mut t, &mut ctr);
        cmp(&format!("full_rounds(from {})", start), &t, &pref::rounds(s, start, start + 4))?;
        if ctr != start + 4 {
            return Err(format!("full_rounds: round counter {} after starting at {}", ctr, start));
        }
    }

    // Partial rounds: optimised, naive and a hand composition of the public pieces.
    let want_p = pref::rounds(s, pref::HALF_FULL, pref::HALF_FULL + pref::N_PARTIAL);
    let mut t = inp;
    let mut ctr = pref::HALF_FULL;
    F::partial_rounds(&mut t, &mut ctr);
    cmp("partial_rounds", &t, &want_p)?;
    if ctr != pref::HALF_FULL + pref::N_PARTIAL {
        return Err(format!("partial_rounds: round counter {}", ctr));
    }
    let mut t = inp;
    let mut ctr = pref::HALF_FULL;
    F::partial_rounds_naive(&mut t, &mut ctr);
    cmp("partial_rounds_naive", &t, &want_p)?;
    if ctr != pref::HALF_FULL + pref::N_PARTIAL {
        return Err(format!("partial_rounds_naive: round counter {}", ctr));
    }
    let mut t = inp;
    F::partial_first_constant_layer::<F, 1>(&mut t);
    t = F::mds_partial_layer_init::<F, 1>(&t);
    for i in 0..pref::N_PARTIAL {
        t[0] = F::sbox_monomial::<F, 1>(t[0]);
        t[0] = unsafe { t[0].add_canonical_u64(<F as Poseidon>::FAST_PARTIAL_ROUND_CONSTANTS[i]) };
        t = if i % 2 == 0 { F::mds_partial_layer_fast(&t, i) } else { F::mds_partial_layer_fast_field::<F, 1>(&t, i) };
    }
    cmp("composed fast partial rounds", &t, &want_p)?;

    // One sparse-matrix step on the raw input (exercises the 160-bit accumulator with extreme
    // lanes): [d | s_i + s_0 v_i], d = M00 s_0 + sum w_hat_i s_i.
    let w_hat = <F as Poseidon>::FAST_PARTIAL_ROUND_W_HATS[pr];
    let vs = <F as Poseidon>::FAST_PARTIAL_ROUND_VS[pr];
    let (acc_hi, acc_lo) = acc160(s, pr);
    if acc160_carry_region(acc_hi, acc_lo) {
        st.label("layer:acc160_in_carry_region");
    } else if (acc_lo >> 64) as u64 <= 8 || (acc_lo >> 64) as u64 >= u64::MAX - 8 {
        st.label("layer:acc160_top_limb_at_boundary");
    }
    let mut want_f = [0u64; 12];
    want_f[0] = pref::mulm(s[0], pref::MDS_CIRC[0] + pref::MDS_DIAG[0]);
    for i in 1..12 {
        want_f[0] = pref::addm(want_f[0], pref::mulm(s[i], w_hat[i - 1]));
        want_f[i] = pref::addm(s[i] % P, pref::mulm(s[0], vs[i - 1]));
    }
    cmp(&format!("mds_partial_layer_fast(r={})", pr), &F::mds_partial_layer_fast(&inp, pr), &want_f)?;
    cmp(
        &format!("mds_partial_layer_fast_field<D=1>(r={})", pr),
        &F::mds_partial_layer_fast_field::<F, 1>(&inp, pr),
        &want_f,
    )?;
    st.evals(20);
    Ok(())
}

// ------------------------------------------------------------------------------------------
// (b) sponge
// ------------------------------------------------------------------------------------------

#[derive(Clone, Debug, Serialize, Deserialize)]
pub struct SpongeCase {
    pub msg: Vec<u64>,
    pub out_len: u8,
    pub l: [u64; 4],
    pub r: [u64; 4],
}

fn msg_len() -> BoxedStrategy<usize> {
    prop_oneof![
        3 => prop::sample::select(vec![0usize, 1, 3, 4, 5, 7, 8, 9, 15, 16, 17, 18, 23, 24, 25, 33, 34, 35]),
        2 => 0usize..=40,
    ]
    .boxed()
}

fn message() -> BoxedStrategy<Vec<u64>> {
    msg_len()
        .prop_flat_map(|n| {
            prop_oneof![
                4 => vec(any_repr(), n),
                1 => vec(prop_oneof![Just(0u64), Just(1u64), Just(P), Just(P + 1)], n),
            ]
        })
        .boxed()
}

fn sponge_strategy() -> BoxedStrategy<SpongeCase> {
    bx((message(), 1u8..=20, uniform4(any_repr()), uniform4(any_repr()))
        .prop_map(|(msg, out_len, l, r)| SpongeCase { msg, out_len, l, r }))
}

fn sponge_prop(c: &SpongeCase, st: &mut Stats) -> Result<(), String> {
    let n = c.msg.len();
    st.label(&format!("sponge:len_mod8={}", n % 8));
    st.label(&format!("sponge:blocks={}", n.div_ceil(8)));
    st.label(&format!("sponge:squeeze_perms={}", (c.out_len as usize - 1) / 8));
    if state_nontrivial(&c.msg) || n == 0 {
        st.nontrivial(&("sponge", &c.msg, c.out_len));
    }
    st.sample(|| json!({"sub": "sponge", "len": n, "out_len": c.out_len}));
    let m = fs(&c.msg);
    type PH = PoseidonHash;
    type PP = PoseidonPermutation<F>;
    cmp("hash_no_pad", &<PH as Hasher<F>>::hash_no_pad(&m).elements, &pref::hash_no_pad(&c.msg))?;
    cmp("hash_n_to_hash_no_pad", &hash_n_to_hash_no_pad::<F, PP>(&m).elements, &pref::hash_no_pad(&c.msg))?;
    cmp("hash_pad", &<PH as Hasher<F>>::hash_pad(&m).elements, &pref::hash_pad(&c.msg))?;
    cmp("hash_or_noop", &<PH as Hasher<F>>::hash_or_noop(&m).elements, &pref::hash_or_noop(&c.msg))?;
    let k = c.out_len as usize;
    cmp(
        &format!("hash_n_to_m_no_pad(m={})", k),
        &hash_n_to_m_no_pad::<F, PP>(&m, k),
        &pref::hash_n_to_m_no_pad(&c.msg, k),
    )?;
    let (l, r) = (HashOut { elements: c.l.map(F) }, HashOut { elements: c.r.map(F) });
    let want = pref::two_to_one(&c.l, &c.r);
    cmp("two_to_one", &<PH as Hasher<F>>::two_to_one(l, r).elements, &want)?;
    cmp("compress", &compress::<F, PP>(l, r).elements, &want)?;
    st.evals(6);
    Ok(())
}

// ------------------------------------------------------------------------------------------
// (c) challenger: model-based
// ------------------------------------------------------------------------------------------

#[derive(Clone, Debug, Serialize, Deserialize)]
pub enum Op {
    ObserveElement(u64),
    ObserveElements(Vec<u64>),
    ObserveExt([u64; 2]),
    ObserveExts(Vec<[u64; 2]>),
    ObserveHash([u64; 4]),
    ObserveBytesHash(Vec<u8>),
    ObserveCap(Vec<[u64; 4]>),
    GetChallenge,
    GetN(u8),
    GetHash,
    GetExt,
    GetNExt(u8),
    Compact,
}

#[derive(Clone, Debug, Serialize, Deserialize)]
pub struct ChalCase {
    /// false: Poseidon challenger; true: challenger over the Keccak pseudo-permutation.
    pub keccak: bool,
    pub ops: Vec<Op>,
}

fn op_strategy() -> BoxedStrategy<Op> {
    prop_oneof![
        4 => any_repr().prop_map(Op::ObserveElement),
        3 => vec(any_repr(), 0..=20).prop_map(Op::ObserveElements),
        1 => uniform2(any_repr()).prop_map(Op::ObserveExt),
        1 => vec(uniform2(any_repr()), 0..=6).prop_map(Op::ObserveExts),
        2 => uniform4(any_repr()).prop_map(Op::ObserveHash),
        1 => vec(any::<u8>(), 25).prop_map(Op::ObserveBytesHash),
        1 => vec(uniform4(any_repr()), 1..=4).prop_map(Op::ObserveCap),
        5 => Just(Op::GetChallenge),
        2 => (0u8..=20).prop_map(Op::GetN),
        1 => Just(Op::GetHash),
        1 => Just(Op::GetExt),
        1 => (0u8..=5).prop_map(Op::GetNExt),
        1 => Just(Op::Compact),
    ]
    .boxed()
}

fn chal_strategy() -> BoxedStrategy<ChalCase> {
    bx((prop::bool::weighted(0.15), vec(op_strategy(), 1..=40)).prop_map(|(keccak, ops)| ChalCase { keccak, ops }))
}

fn bytes25(b: &[u8]) -> [u8; 25] {
    let mut a = [0u8; 25];
    let n = b.len().min(25);
    a[..n].copy_from_slice(&b[..n]);
    a
}

/// 7-byte little-endian limbs (how a byte hash is turned into field elements).
fn bytes_to_elems(b: &[u8; 25]) -> Vec<u64> {
    b.chunks(7)
        .map(|ch| {
            let mut w = [0u8; 8];
            w[..ch.len()].copy_from_slice(ch);
            u64::from_le_bytes(w)
        })
        .collect()
}

struct ModelTrace {
    absorbs: usize,
    squeezes: usize,
    squeeze_partial: usize,
}

fn model_squeeze(m: &mut pref::Duplex, n: usize, st: &mut Stats, tr: &mut ModelTrace) -> Vec<u64> {
    (0..n)
        .map(|_| {
            tr.squeezes += 1;
            if !m.pending.is_empty() {
                tr.squeeze_partial += 1;
                st.label(&format!("chal:squeeze_with_{}_pending", m.pending.len()));
            } else if m.avail == 0 {
                st.label("chal:squeeze_refill_empty_input");
            } else {
                st.label("chal:squeeze_buffered");
            }
            m.challenge()
        })
        .collect()
}

fn model_observe(m: &mut pref::Duplex, xs: &[u64], st: &mut Stats, tr: &mut ModelTrace) {
    for &x in xs {
        tr.absorbs += 1;
        if m.avail > 0 {
            st.label("chal:observe_invalidates_outputs");
        }
        if m.pending.len() == pref::RATE - 1 {
            st.label("chal:observe_fills_rate");
        }
        m.observe(x);
    }
}

fn run_challenger<H: Hasher<F>>(
    ops: &[Op],
    perm: &dyn Fn(&pref::State) -> pref::State,
    st: &mut Stats,
) -> Result<ModelTrace, String> {
    let mut ch = Challenger::<F, H>::new();
    let mut m = pref::Duplex::new(perm);
    let mut tr = ModelTrace { absorbs: 0, squeezes: 0, squeeze_partial: 0 };
    let at = |i: usize, op: &Op| format!("op #{} {:?}", i, op).chars().take(200).collect::<String>();
    for (i, op) in ops.iter().enumerate() {
        match op {
            Op::ObserveElement(x) => {
                ch.observe_element(F(*x));
                model_observe(&mut m, &[*x], st, &mut tr);
            }
            Op::ObserveElements(xs) => {
                ch.observe_elements(&fs(xs));
                model_observe(&mut m, xs, st, &mut tr);
            }
            Op::ObserveExt(e) => {
                ch.observe_extension_element::<2>(&QuadraticExtension([F(e[0]), F(e[1])]));
                model_observe(&mut m, e, st, &mut tr);
            }
            Op::ObserveExts(es) => {
                let v: Vec<QE> = es.iter().map(|e| QuadraticExtension([F(e[0]), F(e[1])])).collect();
                ch.observe_extension_elements::<2>(&v);
                for e in es {
                    model_observe(&mut m, e, st, &mut tr);
                }
            }
            Op::ObserveHash(h) => {
                ch.observe_hash::<PoseidonHash>(HashOut { elements: h.map(F) });
                model_observe(&mut m, h, st, &mut tr);
            }
            Op::ObserveBytesHash(b) => {
                let b = bytes25(b);
                ch.observe_hash::<KeccakHash<25>>(BytesHash(b));
                model_observe(&mut m, &bytes_to_elems(&b), st, &mut tr);
            }
            Op::ObserveCap(hs) => {
                let cap = MerkleCap::<F, PoseidonHash>(hs.iter().map(|h| HashOut { elements: h.map(F) }).collect());
                ch.observe_cap::<PoseidonHash>(&cap);
                for h in hs {
                    model_observe(&mut m, h, st, &mut tr);
                }
            }
            Op::GetChallenge => {
                let got = ch.get_challenge();
                cmp(&at(i, op), &[got], &model_squeeze(&mut m, 1, st, &mut tr))?;
            }
            Op::GetN(n) => {
                let got = ch.get_n_challenges(*n as usize);
                cmp(&at(i, op), &got, &model_squeeze(&mut m, *n as usize, st, &mut tr))?;
            }
            Op::GetHash => {
                let got = ch.get_hash();
                cmp(&at(i, op), &got.elements, &model_squeeze(&mut m, 4, st, &mut tr))?;
            }
            Op::GetExt => {
                let got: QE = ch.get_extension_challenge::<2>();
                cmp(&at(i, op), &got.0, &model_squeeze(&mut m, 2, st, &mut tr))?;
            }
            Op::GetNExt(n) => {
                let got: Vec<QE> = ch.get_n_extension_challenges::<2>(*n as usize);
                let flat: Vec<F> = got.iter().flat_map(|e| e.0).collect();
                cmp(&at(i, op), &flat, &model_squeeze(&mut m, 2 * *n as usize, st, &mut tr))?;
            }
            Op::Compact => {
                if !m.pending.is_empty() {
                    st.label("chal:compact_flushes_pending");
                }
                let got = ch.compact();
                cmp(&at(i, op), got.as_ref(), &m.compact())?;
            }
        }
    }
    // Closing probe: one more challenge, then the full sponge state (incl. capacity lanes).
    let got = ch.get_challenge();
    cmp("closing get_challenge", &[got], &[m.challenge()])?;
    let got = ch.compact();
    cmp("closing compact (full state)", got.as_ref(), &m.compact())?;
    st.evals(m.permutations);
    Ok(tr)
}

fn chal_prop(c: &ChalCase, st: &mut Stats) -> Result<(), String> {
    let tr = if c.keccak {
        st.label("chal:hasher_keccak");
        run_challenger::<KeccakHash<25>>(&c.ops, &kref::permute, st)?
    } else {
        st.label("chal:hasher_poseidon");
        run_challenger::<PoseidonHash>(&c.ops, &pref::permute, st)?
    };
    if tr.absorbs > 0 && tr.squeezes > 0 && tr.squeeze_partial > 0 {
        st.nontrivial(&("chal", format!("{:?}", c)));
    }
    st.sample(|| json!({"sub": "challenger_model", "ops": c.ops.len(), "absorbed": tr.absorbs, "squeezed": tr.squeezes}));
    Ok(())
}

// ------------------------------------------------------------------------------------------
// (c') challenger: re-chunking invariance
// ------------------------------------------------------------------------------------------

#[derive(Clone, Debug, Serialize, Deserialize)]
pub struct RechunkCase {
    /// (elements absorbed, number of challenges squeezed afterwards)
    pub segments: Vec<(Vec<u64>, u8)>,
    /// two chunkings: (kind 0..6, size 0..=20), consumed cyclically
    pub cuts_a: Vec<(u8, u8)>,
    pub cuts_b: Vec<(u8, u8)>,
}

fn rechunk_strategy() -> BoxedStrategy<RechunkCase> {
    let seg = (vec(any_repr(), 0..=30), 0u8..=10);
    let cuts = || vec((0u8..6, 0u8..=20), 1..=12);
    bx((vec(seg, 1..=6), cuts(), cuts()).prop_map(|(segments, cuts_a, cuts_b)| RechunkCase { segments, cuts_a, cuts_b }))
}

fn hash4(x: &[u64]) -> HashOut<F> {
    HashOut { elements: [F(x[0]), F(x[1]), F(x[2]), F(x[3])] }
}

fn run_chunked(c: &RechunkCase, cuts: &[(u8, u8)], st: &mut Stats) -> Vec<u64> {
    let mut ch = Challenger::<F, PoseidonHash>::new();
    let mut cur = 0usize;
    let mut out = vec![];
    for (elems, nsq) in &c.segments {
        let mut rest: &[u64] = elems;
        while !rest.is_empty() {
            let (kind, size) = cuts[cur % cuts.len()];
            cur += 1;
            let size = size as usize;
            let used = match kind {
                1 => {
                    let k = size.min(rest.len());
                    st.label("rechunk:observe_elements");
                    ch.observe_elements(&fs(&rest[..k]));
                    if k == 0 {
                        // an empty chunk absorbs nothing; make progress with a single element
                        ch.observe_element(F(rest[0]));
                        1
                    } else {
                        k
                    }
                }
                2 if rest.len() >= 2 => {
                    st.label("rechunk:observe_extension_element");
                    ch.observe_extension_element::<2>(&QuadraticExtension([F(rest[0]), F(rest[1])]));
                    2
                }
                3 if rest.len() >= 2 => {
                    let k = (1 + size % 5).min(rest.len() / 2);
                    let v: Vec<QE> = (0..k).map(|j| QuadraticExtension([F(rest[2 * j]), F(rest[2 * j + 1])])).collect();
                    st.label("rechunk:observe_extension_elements");
                    ch.observe_extension_elements::<2>(&v);
                    2 * k
                }
                4 if rest.len() >= 4 => {
                    st.label("rechunk:observe_hash");
                    ch.observe_hash::<PoseidonHash>(hash4(rest));
                    4
                }
                5 if rest.len() >= 4 => {
                    let k = (1 + size % 4).min(rest.len() / 4);
                    let cap = MerkleCap::<F, PoseidonHash>((0..k).map(|j| hash4(&rest[4 * j..])).collect());
                    st.label("rechunk:observe_cap");
                    ch.observe_cap::<PoseidonHash>(&cap);
                    4 * k
                }
                _ => {
                    st.label("rechunk:observe_element");
                    ch.observe_element(F(rest[0]));
                    1
                }
            };
            rest = &rest[used..];
        }
        // Squeeze style is part of the chunking too.
        let n = *nsq as usize;
        let (kind, _) = cuts[cur % cuts.len()];
        cur += 1;
        let got: Vec<F> = match kind % 3 {
            0 => ch.get_n_challenges(n),
            1 => (0..n).map(|_| ch.get_challenge()).collect(),
            _ => {
                let mut v = vec![];
                let mut left = n;
                while left >= 4 {
                    v.extend(ch.get_hash().elements);
                    left -= 4;
                }
                while left >= 2 {
                    v.extend(ch.get_extension_challenge::<2>().0);
                    left -= 2;
                }
                v.extend(ch.get_n_challenges(left));
                v
            }
        };
        out.extend(got.iter().map(|x| x.to_canonical_u64()));
    }
    out.push(ch.get_challenge().to_canonical_u64());
    out
}

fn rechunk_prop(c: &RechunkCase, st: &mut Stats) -> Result<(), String> {
    let a = run_chunked(c, &c.cuts_a, st);
    let b = run_chunked(c, &c.cuts_b, st);
    if a != b {
        return Err(format!("re-chunking changed the challenges: {:x?} vs {:x?}", a, b));
    }
    // and both equal the element-by-element model
    let perm = pref::permute;
    let mut m = pref::Duplex::new(&perm);
    let mut want = vec![];
    let mut partial = false;
    for (elems, nsq) in &c.segments {
        for &x in elems {
            m.observe(x);
        }
        for _ in 0..*nsq {
            partial |= !m.pending.is_empty();
            want.push(m.challenge());
        }
    }
    want.push(m.challenge());
    if a != want {
        return Err(format!("chunked challenger disagrees with the duplex model: {:x?} vs {:x?}", a, want));
    }
    let absorbed: usize = c.segments.iter().map(|s| s.0.len()).sum();
    st.label(&format!("rechunk:absorbed_mod8={}", absorbed % 8));
    if partial && absorbed > 0 {
        st.nontrivial(&("rechunk", format!("{:?}", c)));
    }
    st.evals(2);
    Ok(())
}

// ------------------------------------------------------------------------------------------
// (d) Keccak
// ------------------------------------------------------------------------------------------

#[derive(Clone, Debug, Serialize, Deserialize)]
pub struct KeccakCase {
    pub msg: Vec<u64>,
    pub l: Vec<u8>,
    pub r: Vec<u8>,
    pub state: [u64; 12],
}

/// States (found by an offline search with `oracle::keccak_ref`) whose hash chain contains a
/// 64-bit word >= p among the first twelve words, i.e. that exercise the rejection branch.
#[rustfmt::skip]
const KECCAK_REJECTION_STATES: &[[u64; 12]] = &[
    [0x9000000c55da1, 0x9e3779b97f4a7c15, 0x3c6ef372fe94f82a, 0xdaa66d2c7ddf743f, 0x78dde6e5fd29f054, 0x1715609f7c746c69,
     0xb54cda58fbbee87e, 0x538454127b096493, 0xf1bbcdcbfa53e0a8, 0x8ff34785799e5cbd, 0x2e2ac13ef8e8d8d2, 0xcc623af8783354e7],
    [0x5000002735650, 0x9e3779b97f4a7c15, 0x3c6ef372fe94f82a, 0xdaa66d2c7ddf743f, 0x78dde6e5fd29f054, 0x1715609f7c746c69,
     0xb54cda58fbbee87e, 0x538454127b096493, 0xf1bbcdcbfa53e0a8, 0x8ff34785799e5cbd, 0x2e2ac13ef8e8d8d2, 0xcc623af8783354e7],
    [0x80000024fe5d2, 0x9e3779b97f4a7c15, 0x3c6ef372fe94f82a, 0xdaa66d2c7ddf743f, 0x78dde6e5fd29f054, 0x1715609f7c746c69,
     0xb54cda58fbbee87e, 0x538454127b096493, 0xf1bbcdcbfa53e0a8, 0x8ff34785799e5cbd, 0x2e2ac13ef8e8d8d2, 0xcc623af8783354e7],
    [0x1000003a552f5, 0x9e3779b97f4a7c15, 0x3c6ef372fe94f82a, 0xdaa66d2c7ddf743f, 0x78dde6e5fd29f054, 0x1715609f7c746c69,
     0xb54cda58fbbee87e, 0x538454127b096493, 0xf1bbcdcbfa53e0a8, 0x8ff34785799e5cbd, 0x2e2ac13ef8e8d8d2, 0xcc623af8783354e7],
    [0x20000038a52f6, 0x9e3779b97f4a7c15, 0x3c6ef372fe94f82a, 0xdaa66d2c7ddf743f, 0x78dde6e5fd29f054, 0x1715609f7c746c69,
     0xb54cda58fbbee87e, 0x538454127b096493, 0xf1bbcdcbfa53e0a8, 0x8ff34785799e5cbd, 0x2e2ac13ef8e8d8d2, 0xcc623af8783354e7],
    [0x8000004dfd570, 0x9e3779b97f4a7c15, 0x3c6ef372fe94f82a, 0xdaa66d2c7ddf743f, 0x78dde6e5fd29f054, 0x1715609f7c746c69,
     0xb54cda58fbbee87e, 0x538454127b096493, 0xf1bbcdcbfa53e0a8, 0x8ff34785799e5cbd, 0x2e2ac13ef8e8d8d2, 0xcc623af8783354e7],
];

fn keccak_state() -> BoxedStrategy<[u64; 12]> {
    if KECCAK_REJECTION_STATES.is_empty() {
        return state12();
    }
    prop_oneof![
        9 => state12(),
        1 => prop::sample::select(KECCAK_REJECTION_STATES.to_vec()),
    ]
    .boxed()
}

fn keccak_strategy() -> BoxedStrategy<KeccakCase> {
    bx((message(), vec(any::<u8>(), 25), vec(any::<u8>(), 25), keccak_state())
        .prop_map(|(msg, l, r, state)| KeccakCase { msg, l, r, state }))
}

fn cmp_bytes(what: &str, got: &[u8], want: &[u8]) -> Result<(), String> {
    if got != want {
        return Err(format!("{}: got {:02x?} want {:02x?}", what, got, want));
    }
    Ok(())
}

fn keccak_prop(c: &KeccakCase, st: &mut Stats) -> Result<(), String> {
    let m = fs(&c.msg);
    let bytes = kref::field_bytes(&c.msg);
    st.label(&format!("keccak:blocks={}", bytes.len() / 136 + 1));
    if bytes.len() % 136 == 135 {
        st.label("keccak:pad_single_byte_0x81");
    }
    if state_nontrivial(&c.msg) || state_nontrivial(&c.state) {
        st.nontrivial(&("keccak", &c.msg, c.state));
    }
    type K25 = KeccakHash<25>;
    type K32 = KeccakHash<32>;
    let h = kref::keccak256(&bytes);
    cmp_bytes("KeccakHash<25>::hash_no_pad", &<K25 as Hasher<F>>::hash_no_pad(&m).0, &h[..25])?;
    cmp_bytes("KeccakHash<32>::hash_no_pad", &<K32 as Hasher<F>>::hash_no_pad(&m).0, &h)?;
    let hp = kref::keccak256(&kref::field_bytes(&pref::pad101(&c.msg)));
    cmp_bytes("KeccakHash<25>::hash_pad", &<K25 as Hasher<F>>::hash_pad(&m).0, &hp[..25])?;
    // hash_or_noop: inputs that fit into 25 bytes (<= 3 elements) are copied, zero padded.
    let want_noop: Vec<u8> = if c.msg.len() * 8 <= 25 {
        let mut v = bytes.clone();
        v.resize(25, 0);
        v
    } else {
        h[..25].to_vec()
    };
    cmp_bytes("KeccakHash<25>::hash_or_noop", &<K25 as Hasher<F>>::hash_or_noop(&m).0, &want_noop)?;
    let (l, r) = (bytes25(&c.l), bytes25(&c.r));
    let mut lr = l.to_vec();
    lr.extend_from_slice(&r);
    let h2 = kref::keccak256(&lr);
    cmp_bytes("KeccakHash<25>::two_to_one", &<K25 as Hasher<F>>::two_to_one(BytesHash(l), BytesHash(r)).0, &h2[..25])?;
    // pseudo-permutation with rejection sampling
    let (want, rejected, hashes) = kref::permute_model(&c.state);
    st.label(&format!("keccak:perm_hashes={}", hashes));
    if rejected > 0 {
        st.label("keccak:perm_rejected_word");
    }
    let mut p = KeccakPermutation::<F>::new(c.state.iter().map(|&x| F(x)));
    p.permute();
    cmp("KeccakPermutation::permute", p.as_ref(), &want)?;
    cmp("KeccakPermutation::squeeze", p.squeeze(), &want[..8])?;
    st.evals(6);
    Ok(())
}

// ------------------------------------------------------------------------------------------
// driver
// ------------------------------------------------------------------------------------------

pub fn run(ctx: &mut Ctx) {
    ctx.rule = "(a) 12-lane states from the boundary-biased representation generator (any u64 per lane, all-equal, \
                all-non-canonical, extreme and sparse shapes); non-trivial = at least one lane non-canonical or in a \
                boundary class; (b) messages of length 0..=40 biased to block boundaries; (c) op sequences of \
                length 1..=40 over the challenger; non-trivial = the sequence absorbs and squeezes and at least one \
                squeeze happens with a partially filled input buffer; distinct = distinct state / op sequence"
        .into();
    ctx.assumptions.push(
        "round constants are read from the crate's public ALL_ROUND_CONSTANTS; the MDS vectors and the four \
         published permutation test vectors are embedded in the oracle and checked at start-up"
            .into(),
    );
    ctx.assumptions.push("hash_n_to_m_no_pad is only called with at least one output (0 outputs never returns)".into());
    ctx.assumptions.push(
        "Keccak pseudo-permutation: the rejection branch (word >= p, probability 2^-32 per word) is reached only \
         through embedded pre-searched states; a word exactly equal to p is never generated"
            .into(),
    );
    // The reference must reproduce the published vectors; otherwise the harness is broken.
    for r in [pref::self_check(), kref::self_check()] {
        if let Err(e) = r {
            eprintln!("C13 HARNESS ERROR (reference model or specification constants): {}", e);
            std::process::exit(2);
        }
    }
    if <F as Poseidon>::MDS_MATRIX_CIRC != pref::MDS_CIRC || <F as Poseidon>::MDS_MATRIX_DIAG != pref::MDS_DIAG {
        ctx.violation(
            "constants",
            &json!({"circ": <F as Poseidon>::MDS_MATRIX_CIRC, "diag": <F as Poseidon>::MDS_MATRIX_DIAG}),
            "MDS_MATRIX_CIRC / MDS_MATRIX_DIAG differ from the published MDS vectors",
        );
    }

    let n = ctx.tier.pick(1_200_000, 60_000_000);
    ctx.run_sub("poseidon_permute", n, 16, perm_strategy, perm_prop);
    let n = ctx.tier.pick(250_000, 10_000_000);
    ctx.run_sub("poseidon_layers", n, 16, layer_strategy, layer_prop);
    let n = ctx.tier.pick(120_000, 5_000_000);
    ctx.run_sub("sponge", n, 16, sponge_strategy, sponge_prop);
    let n = ctx.tier.pick(25_000, 1_000_000);
    ctx.run_sub("challenger_model", n, 16, chal_strategy, chal_prop);
    let n = ctx.tier.pick(16_000, 600_000);
    ctx.run_sub("challenger_rechunk", n, 16, rechunk_strategy, rechunk_prop);
    let n = ctx.tier.pick(120_000, 5_000_000);
    ctx.run_sub("keccak", n, 16, keccak_strategy, keccak_prop);
}
