//! C13 — hashing and transcript sponge (see DESIGN.md §C13).

use crate::engine::Ctx;

pub fn run(ctx: &mut Ctx) {
    let _ = ctx;
}
