//! C08 — table lookups are provable exactly for pairs contained in the table.
//! Positive: generated tables and lookup multisets (partially filled rows, exact multiples of the
//! slot count, heavy repetition, unused entries) prove and verify, outputs equal the table value.
//! Negative: a looked-up pair / table cell / multiplicity / padding slot is changed (through the
//! prover's post-lookup witness override knob) so that the pair is no longer an entry of its
//! table; nothing may verify, under the honest and the degenerate prover strategies.

use std::collections::BTreeSet;
use std::sync::Arc;

use plonky2::field::types::{Field, PrimeField64};
use plonky2::gates::lookup::LookupGate;
use plonky2::gates::lookup_table::{LookupTable, LookupTableGate};
use plonky2::iop::generator::generate_partial_witness;
use plonky2::iop::target::Target;
use plonky2::iop::witness::{PartialWitness, PartitionWitness, WitnessWrite};
use plonky2::plonk::circuit_builder::CircuitBuilder;
use plonky2::plonk::circuit_data::CircuitData;
use plonky2::plonk::config::GenericConfig;
use plonky2::plonk::prover::{prove_with_partition_witness, set_lookup_wires};
use plonky2::util::timing::TimingTree;
use plonky2::verif_hooks::{reset_knobs, set_knobs, Knobs};
use proptest::prelude::*;
use serde::{Deserialize, Serialize};
use serde_json::json;

use crate::engine::{bx, catch, frac, hash_of, Ctx, Stats};
use crate::gen::config::{elaborate_config, raw_config, ConfigLimits, RawConfig};
use crate::gen::dsl::{elaborate, raw_program, DslOpts, RawProgram, D, F};
use crate::props::common::frac32;
use crate::with_config;

#[derive(Clone, Debug, Serialize, Deserialize, PartialEq, Eq, Hash)]
pub struct RawTable {
    pub size: u16,
    pub start: u16,
    pub step: u16,
    pub outs: Vec<u16>,
    /// number of lookups into this table, as a choice among boundary sizes
    pub count_sel: u16,
    pub count_raw: u16,
    pub entries: Vec<u16>,
}

#[derive(Clone, Debug, Serialize, Deserialize, PartialEq, Eq, Hash)]
pub struct RawNeg {
    pub kind: u8,
    pub pos: u32,
    pub val: u16,
    pub strat: u8,
    pub sb: u64,
}

#[derive(Clone, Debug, Serialize, Deserialize)]
pub struct Case {
    pub config: RawConfig,
    pub tables: Vec<RawTable>,
    pub extra: RawProgram,
    pub negs: Vec<RawNeg>,
}

fn raw_table() -> BoxedStrategy<RawTable> {
    bx((
        any::<u16>(),
        any::<u16>(),
        any::<u16>(),
        prop::collection::vec(any::<u16>(), 1..8),
        any::<u16>(),
        any::<u16>(),
        prop::collection::vec(any::<u16>(), 1..12),
    )
        .prop_map(|(size, start, step, outs, count_sel, count_raw, entries)| RawTable {
            size,
            start,
            step,
            outs,
            count_sel,
            count_raw,
            entries,
        }))
}

fn raw_neg() -> BoxedStrategy<RawNeg> {
    bx((any::<u8>(), any::<u32>(), any::<u16>(), any::<u8>(), crate::gen::field::canonical_nonzero())
        .prop_map(|(kind, pos, val, strat, sb)| RawNeg { kind, pos, val, strat, sb }))
}

fn case(n_negs: usize) -> BoxedStrategy<Case> {
    bx((raw_config(), prop::collection::vec(raw_table(), 1..=3), raw_program(4), prop::collection::vec(raw_neg(), n_negs..=n_negs))
        .prop_map(|(config, tables, extra, negs)| Case { config, tables, extra, negs }))
}

pub fn limits() -> ConfigLimits {
    ConfigLimits {
        min_queries: 1,
        max_queries: 6,
        max_queries_zk: 3,
        max_pow: 4,
        ..ConfigLimits::default()
    }
}

struct LookupCircuit<C: GenericConfig<D, F = F>> {
    data: CircuitData<F, C, D>,
    inputs: PartialWitness<F>,
    tables: Vec<Vec<(u16, u16)>>,
    /// (table, input value, expected output, output target, dead_end)
    lookups: Vec<(usize, u16, u16, Target, bool)>,
    expected_pis: Vec<F>,
    labels: Vec<String>,
}

fn build<C: GenericConfig<D, F = F>>(c: &Case) -> LookupCircuit<C> {
    let cfg = elaborate_config(&c.config, &limits());
    // lookups make the degree independent of FRI arities only without zk: use the safe strategy
    let config = cfg.safe();
    let lu_slots = config.num_routed_wires / 2;
    let lut_slots = config.num_routed_wires / 3;
    let mut labels = cfg.labels.clone();
    let mut b = CircuitBuilder::<F, D>::new(config.clone());
    let opts = DslOpts {
        lookups: false,
        ..DslOpts::default()
    };
    let el = elaborate(&c.extra, &mut b, &opts);
    let mut inputs = el.witness();
    let mut expected_pis = el.expected_pis.clone();
    let mut tables = vec![];
    let mut lookups = vec![];
    let mut seen_tables: Vec<Vec<(u16, u16)>> = vec![];
    for (ti, t) in c.tables.iter().enumerate() {
        // table size: 1 .. 2*lut_slots+3
        let size = 1 + frac(t.size, 2 * lut_slots + 3);
        let step = 1 + t.step % 5;
        let mut seen = BTreeSet::new();
        let mut table: Vec<(u16, u16)> = (0..size)
            .map(|i| (t.start.wrapping_add(step.wrapping_mul(i as u16)), t.outs[i % t.outs.len()].wrapping_add((i / t.outs.len()) as u16 * (t.count_raw | 1))))
            .filter(|p| seen.insert(p.0))
            .collect();
        if seen_tables.contains(&table) {
            // identical tables share an index in the builder; make it different
            table[0].1 = table[0].1.wrapping_add(1 + ti as u16);
        }
        seen_tables.push(table.clone());
        let lt: LookupTable = Arc::new(table.clone());
        let id = b.add_lookup_table_from_pairs(lt);
        // number of lookups: boundary-biased around the slot count
        let count = match frac(t.count_sel, 8) {
            0 => 1,
            1 => lu_slots.saturating_sub(1).max(1),
            2 => lu_slots,
            3 => lu_slots + 1,
            4 => 2 * lu_slots,
            5 => 3 * lu_slots,
            _ => 1 + frac(t.count_raw, 2 * lu_slots + 2),
        };
        labels.push(
            match count {
                x if x % lu_slots == 0 => "lookups_exact_multiple",
                x if x < lu_slots => "lookups_partial_row",
                _ => "lookups_multi_row_partial",
            }
            .to_string(),
        );
        labels.push(if table.len() > lut_slots { "table_multi_row".into() } else { "table_single_row".into() });
        for j in 0..count {
            // heavy repetition: entries cycle through a short list of indices
            let e = frac(t.entries[j % t.entries.len()], table.len());
            let (inp, out) = table[e];
            let it = b.add_virtual_target();
            inputs.set_target(it, F::from_canonical_u16(inp)).unwrap();
            let ot = b.add_lookup_from_index(it, id);
            let dead_end = j % 2 == 0;
            if !dead_end {
                b.register_public_input(ot);
                expected_pis.push(F::from_canonical_u16(out));
            }
            lookups.push((ti, inp, out, ot, dead_end));
        }
        tables.push(table);
    }
    let data = b.build::<C>();
    LookupCircuit {
        data,
        inputs,
        tables,
        lookups,
        expected_pis,
        labels,
    }
}

fn run_case<C: GenericConfig<D, F = F>>(c: &Case, st: &mut Stats) -> Result<(), String> {
    let lc = build::<C>(c);
    for l in &lc.labels {
        st.label(l);
    }
    let data = &lc.data;
    let common = &data.common;
    let chash = hash_of(&(&c.config, &c.tables, &c.extra));
    let num_wires = common.config.num_wires;
    let degree = common.degree();
    st.label(&format!("tables{}", lc.tables.len()));
    let lu_rows = lc.lookups.len();
    // ---- positive ----
    let proof = data.prove(lc.inputs.clone()).map_err(|e| format!("honest lookup circuit does not prove: {:#}", e))?;
    st.evals(1);
    let got: Vec<u64> = proof.public_inputs.iter().map(|x| x.to_canonical_u64()).collect();
    let want: Vec<u64> = lc.expected_pis.iter().map(|x| x.to_canonical_u64()).collect();
    if got != want {
        return Err(format!("lookup outputs differ from the table: got {:?} want {:?}", got, want));
    }
    data.verify(proof.clone()).map_err(|e| format!("honest lookup proof rejected: {:#}", e))?;
    let cp = data.compress(proof.clone()).map_err(|e| format!("compress: {:#}", e))?;
    data.verify_compressed(cp).map_err(|e| format!("honest compressed lookup proof rejected: {:#}", e))?;
    if lu_rows >= 2 {
        st.nontrivial(&(chash, "positive"));
    }

    // ---- negatives ----
    // honest full witness (after lookup wires were filled) to know every cell's honest value
    let mut pw0 = generate_partial_witness(lc.inputs.clone(), &data.prover_only, common).map_err(|e| format!("{:#}", e))?;
    set_lookup_wires(&data.prover_only, common, &mut pw0).map_err(|e| format!("set_lookup_wires failed: {:#}", e))?;
    let repmap = &data.prover_only.representative_map;
    let honest = PartitionWitness {
        values: pw0.values.clone(),
        representative_map: repmap,
        num_wires,
        degree,
    }
    .full_witness();
    let lu_slots = LookupGate::new_from_table(&common.config, Arc::new(vec![(0, 0)])).num_slots;
    let lut_slots = LookupTableGate::new_from_table(&common.config, Arc::new(vec![(0, 0)]), 0).num_slots;
    let qdf = common.quotient_degree_factor;
    for ng in &c.negs {
        // choose the cell to override and the value
        let mut overrides: Vec<(usize, usize, u64)> = vec![];
        let kind_name: &'static str;
        match ng.kind % 5 {
            0 | 1 => {
                // looked-up OUTPUT of a dead-end lookup -> a value that is not table[inp]
                kind_name = "looked_output";
                let dead: Vec<&(usize, u16, u16, Target, bool)> = lc.lookups.iter().filter(|l| l.4).collect();
                if dead.is_empty() {
                    continue;
                }
                let l = dead[frac32(ng.pos, dead.len())];
                let table = &lc.tables[l.0];
                // candidates: another entry's output, another table's output for that input, arbitrary
                let mut newv = match ng.val % 3 {
                    0 => table[frac(ng.val.rotate_left(3), table.len())].1,
                    1 => lc.tables[(l.0 + 1) % lc.tables.len()].iter().find(|p| p.0 == l.1).map(|p| p.1).unwrap_or(ng.val),
                    _ => ng.val,
                };
                if newv == l.2 {
                    newv = newv.wrapping_add(1);
                }
                // the class of the output target: find its wire cell(s)
                let rep = repmap[l.3.index(num_wires, degree)];
                let cell = (0..degree * num_wires).find(|&i| repmap[i] == rep && i % num_wires < common.config.num_routed_wires);
                let Some(cell) = cell else { continue };
                overrides.push((cell / num_wires, cell % num_wires, newv as u64));
            }
            2 => {
                // a table-row cell (input or output of a LUT entry)
                kind_name = "table_cell";
                let lut_index = frac32(ng.pos, lc.tables.len());
                let lw = &data.prover_only.lookup_rows[lut_index];
                let e = frac(ng.val, lc.tables[lut_index].len());
                let row = lw.first_lut_gate - e / lut_slots;
                let slot = e % lut_slots;
                let col = if ng.val & 1 == 0 { LookupTableGate::wire_ith_looked_inp(slot) } else { LookupTableGate::wire_ith_looked_out(slot) };
                let old = honest.get_wire(row, col).to_canonical_u64();
                overrides.push((row, col, (old + 1 + (ng.sb % 1000)) % 65536));
                if overrides[0].2 == old {
                    overrides[0].2 = old + 1;
                }
            }
            3 => {
                // a multiplicity
                kind_name = "multiplicity";
                let lut_index = frac32(ng.pos, lc.tables.len());
                let lw = &data.prover_only.lookup_rows[lut_index];
                let e = frac(ng.val, lc.tables[lut_index].len());
                let row = lw.first_lut_gate - e / lut_slots;
                let col = LookupTableGate::wire_ith_multiplicity(e % lut_slots);
                let old = honest.get_wire(row, col).to_canonical_u64();
                let newv = match ng.val % 3 {
                    0 => old + 1,
                    1 => old.wrapping_sub(1) % crate::gen::field::P,
                    _ => ng.sb,
                };
                overrides.push((row, col, if newv == old { old + 1 } else { newv }));
            }
            _ => {
                // a padding slot of the last LookupGate row of a table -> a pair that is not in the table
                kind_name = "padding_slot";
                let lut_index = frac32(ng.pos, lc.tables.len());
                let lw = &data.prover_only.lookup_rows[lut_index];
                let n_lookups = data.prover_only.lut_to_lookups[lut_index].len();
                let remaining = (lu_slots - (n_lookups % lu_slots)) % lu_slots;
                if remaining == 0 {
                    continue;
                }
                let slot = lu_slots - 1 - (ng.val as usize % remaining);
                let row = lw.last_lut_gate - 1;
                let col = LookupGate::wire_ith_looking_out(slot);
                let old = honest.get_wire(row, col).to_canonical_u64();
                let first_out = lc.tables[lut_index][0].1 as u64;
                let mut newv = ng.val as u64;
                if newv == old || newv == first_out {
                    newv = (first_out + 1) % 65536;
                }
                overrides.push((row, col, newv));
            }
        }
        let mut k = Knobs::default();
        k.witness_overrides = overrides.clone();
        k.lenient_quotient = !qdf.is_power_of_two();
        // degenerate strategy for the lookup argument itself: shift the Sum/LDC chain so that it ends at 0
        if ng.strat % 7 == 6 && kind_name == "looked_output" {
            k.forge_lookup_chain_offset = true;
        }
        let strat = match ng.strat % 6 {
            0 | 1 | 2 => "S0_honest_path",
            3 => {
                k.zero_zs = true;
                "S1_zero_z"
            }
            4 => {
                k.quotient_perturb = Some((ng.strat as usize % common.config.num_challenges, ng.pos as usize % common.quotient_degree(), ng.sb));
                "S2_quotient_perturbed"
            }
            _ => {
                k.scale_zs = Some(ng.sb);
                "S1b_scaled_z"
            }
        };
        let pw = match generate_partial_witness(lc.inputs.clone(), &data.prover_only, common) {
            Ok(p) => p,
            Err(e) => return Err(format!("witness generation failed: {:#}", e)),
        };
        set_knobs(k);
        let res = catch(|| prove_with_partition_witness(&data.prover_only, common, pw, &mut TimingTree::default()));
        reset_knobs();
        st.evals(1);
        st.label(kind_name);
        st.label(strat);
        if ng.strat % 7 == 6 && kind_name == "looked_output" {
            st.label("S5_forged_chain_offset");
        }
        match res {
            Err(_) => st.label("prover_panicked"),
            Ok(Err(_)) => st.label("prover_err"),
            Ok(Ok(p)) => {
                st.label("proof_emitted");
                st.nontrivial(&(chash, ng));
                if catch(|| data.verify(p.clone())).map(|r| r.is_ok()).unwrap_or(false) {
                    return Err(format!(
                        "verify ACCEPTED a proof whose lookup data was corrupted ({} override {:?}, strategy {}, config {:?})",
                        kind_name, overrides, strat, common.config
                    ));
                }
                let vc = catch(|| data.compress(p))
                    .ok()
                    .and_then(|r| r.ok())
                    .map(|cp| catch(|| data.verify_compressed(cp)).map(|r| r.is_ok()).unwrap_or(false))
                    .unwrap_or(false);
                if vc {
                    return Err(format!("verify_compressed ACCEPTED a corrupted lookup proof ({} {:?})", kind_name, overrides));
                }
            }
        }
    }
    // looked-up input that is not a table member: the API must not produce a proof
    {
        let mut b_inputs = lc.inputs.clone();
        // find the input target of the first lookup and replace its value by a non-member
        let (ti, _, _, _, _) = lc.lookups[0];
        let members: BTreeSet<u16> = lc.tables[ti].iter().map(|p| p.0).collect();
        let non_member = (0..=u16::MAX).find(|x| !members.contains(x)).unwrap();
        let inp_target = data.prover_only.lut_to_lookups[ti][0].0;
        b_inputs.target_values.insert(inp_target, F::from_canonical_u16(non_member));
        st.evals(1);
        match catch(|| data.prove(b_inputs)) {
            Ok(Ok(p)) => {
                if catch(|| data.verify(p)).map(|r| r.is_ok()).unwrap_or(false) {
                    return Err("a proof was produced AND accepted for a looked-up input that is not in the table".into());
                }
                st.label("non_member_proof_rejected");
            }
            _ => st.label("non_member_no_proof"),
        }
    }
    st.sample(|| json!({"tables": lc.tables.iter().map(|t| t.len()).collect::<Vec<_>>(), "lookups": lc.lookups.len(),
        "lu_slots": lu_slots, "lut_slots": lut_slots, "config": format!("{:?}", common.config)}));
    Ok(())
}

fn prop(c: &Case, st: &mut Stats) -> Result<(), String> {
    with_config!(c.config.keccak, run_case, c, st)
}

pub fn run(ctx: &mut Ctx) {
    ctx.level = "fault_enumeration";
    ctx.rule = "1-3 generated tables (sizes 1..2*table-slots+3, distinct 16-bit inputs, duplicate outputs allowed) x lookup counts \
                around the slot count (1, slots-1, slots, slots+1, 2*slots, 3*slots, random) with repetition and unused entries x config; \
                negatives override one looked-up output / table cell / multiplicity / padding slot after the prover filled the lookup wires \
                and run the real prover (also with zero / scaled Z and perturbed quotient); non-trivial = >= 2 lookups (positive) or a \
                proof was emitted for the corrupted data (negative); distinct = (circuit, corruption)"
        .into();
    ctx.assumptions.push("table inputs are pairwise distinct and every declared table is used (documented preconditions)".into());
    ctx.shrink_iters = 40;
    let (n, negs) = ctx.tier.pick((84, 24), (3000, 40));
    ctx.run_sub("lookup_tables", n, 14, move || case(negs), prop);
}
