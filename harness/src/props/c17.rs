//! C17 — binary encodings round-trip and restored circuits are interchangeable.

use std::collections::BTreeSet;

use plonky2::field::types::{Field, PrimeField64};
use plonky2::plonk::circuit_data::{CircuitData, CommonCircuitData, ProverCircuitData, VerifierCircuitData, VerifierOnlyCircuitData};
use plonky2::plonk::proof::{CompressedProofWithPublicInputs, ProofWithPublicInputs};
use plonky2::util::serialization::{DefaultGateSerializer, DefaultGeneratorSerializer};
use proptest::prelude::*;
use serde::{Deserialize, Serialize};
use serde_json::json;

use crate::circuit::{build_case, RawCircuit, PC};
use crate::engine::{bx, hash_of, Ctx, Stats};
use crate::gen::config::ConfigLimits;
use crate::gen::dsl::{DslOpts, D, F};
use crate::props::common::*;

#[derive(Clone, Debug, Serialize, Deserialize)]
pub struct Case {
    pub circuit: RawCircuit,
}

fn case(max_ops: usize) -> BoxedStrategy<Case> {
    bx(raw_circuit(max_ops).prop_map(|mut circuit| {
        circuit.config.keccak = false; // the default generator serializer needs an algebraic hasher
        Case { circuit }
    }))
}

pub fn limits() -> ConfigLimits {
    ConfigLimits {
        min_queries: 1,
        max_queries: 8,
        max_queries_zk: 3,
        max_pow: 4,
        allow_keccak: false,
        ..ConfigLimits::default()
    }
}

pub fn opts() -> DslOpts {
    DslOpts {
        serialisable_only: true,
        ..DslOpts::default()
    }
}

type C = PC;

pub fn roundtrip_circuit(
    data: &CircuitData<F, C, D>,
    inputs: plonky2::iop::witness::PartialWitness<F>,
    expected_pis: Option<&[F]>,
    st: &mut Stats,
) -> Result<(), String> {
    let gs = DefaultGateSerializer;
    let ws = DefaultGeneratorSerializer::<C, D>::default();
    let common = &data.common;
    // registry coverage
    for g in &common.gates {
        let id = g.0.id();
        st.label(&format!("gate:{}", id.split(|c: char| c == ' ' || c == '{' || c == '<' || c == '(').next().unwrap_or("")));
    }
    let mut gen_ids = BTreeSet::new();
    for g in &data.prover_only.generators {
        let id = g.0.id();
        gen_ids.insert(id.split(|c: char| c == ' ' || c == '{' || c == '<' || c == '(').next().unwrap_or("").to_string());
    }
    for id in &gen_ids {
        st.label(&format!("generator:{}", id));
    }

    // ---- proofs ----
    let proof = data.prove(inputs.clone()).map_err(|e| format!("prove failed: {:#}", e))?;
    data.verify(proof.clone()).map_err(|e| format!("honest proof rejected: {:#}", e))?;
    let pb = proof.to_bytes();
    let p2 = ProofWithPublicInputs::<F, C, D>::from_bytes(pb.clone(), common).map_err(|e| format!("proof from_bytes failed: {:#}", e))?;
    if p2 != proof {
        return Err("proof does not round-trip through bytes".into());
    }
    if p2.to_bytes() != pb {
        return Err("proof re-encoding is not byte-identical".into());
    }
    let cp = data.compress(proof.clone()).map_err(|e| format!("{:#}", e))?;
    let cb = cp.to_bytes();
    let cp2 = CompressedProofWithPublicInputs::<F, C, D>::from_bytes(cb.clone(), common).map_err(|e| format!("compressed from_bytes failed: {:#}", e))?;
    if cp2 != cp {
        return Err("compressed proof does not round-trip through bytes".into());
    }
    if cp2.to_bytes() != cb {
        return Err("compressed proof re-encoding is not byte-identical".into());
    }
    st.evals(4);

    // ---- circuit data ----
    let bytes = data.to_bytes(&gs, &ws).map_err(|e| format!("CircuitData::to_bytes failed: {:?}", e))?;
    let restored = CircuitData::<F, C, D>::from_bytes(&bytes, &gs, &ws).map_err(|e| format!("CircuitData::from_bytes failed: {:?}", e))?;
    if restored != *data {
        return Err("restored CircuitData != original".into());
    }
    let bytes2 = restored.to_bytes(&gs, &ws).map_err(|e| format!("{:?}", e))?;
    if bytes2 != bytes {
        return Err("CircuitData re-encoding is not byte-identical".into());
    }
    if restored.verifier_only.circuit_digest != data.verifier_only.circuit_digest {
        return Err("restored circuit has a different digest".into());
    }
    // interchangeable: restored prover -> original verifier, and vice versa
    let p_restored = restored.prove(inputs.clone()).map_err(|e| format!("restored circuit cannot prove: {:#}", e))?;
    data.verify(p_restored.clone()).map_err(|e| format!("original verifier rejects the restored prover's proof: {:#}", e))?;
    restored.verify(proof.clone()).map_err(|e| format!("restored verifier rejects the original prover's proof: {:#}", e))?;
    if let Some(want) = expected_pis {
        let got: Vec<u64> = p_restored.public_inputs.iter().map(|x| x.to_canonical_u64()).collect();
        let want: Vec<u64> = want.iter().map(|x| x.to_canonical_u64()).collect();
        if got != want {
            return Err(format!("restored prover's public inputs differ from the reference: {:?} vs {:?}", got, want));
        }
    }
    st.evals(5);

    // ---- parts ----
    let vd = data.verifier_data();
    let vb = vd.to_bytes(&gs).map_err(|e| format!("{:?}", e))?;
    let vd2 = VerifierCircuitData::<F, C, D>::from_bytes(vb.clone(), &gs).map_err(|e| format!("VerifierCircuitData::from_bytes failed: {:?}", e))?;
    if vd2 != vd {
        return Err("VerifierCircuitData does not round-trip".into());
    }
    vd2.verify(proof.clone()).map_err(|e| format!("restored verifier data rejects the proof: {:#}", e))?;
    let cbytes = common.to_bytes(&gs).map_err(|e| format!("{:?}", e))?;
    let c2 = CommonCircuitData::<F, D>::from_bytes(cbytes.clone(), &gs).map_err(|e| format!("CommonCircuitData::from_bytes failed: {:?}", e))?;
    if c2 != *common {
        return Err("CommonCircuitData does not round-trip".into());
    }
    if c2.to_bytes(&gs).map_err(|e| format!("{:?}", e))? != cbytes {
        return Err("CommonCircuitData re-encoding is not byte-identical".into());
    }
    let vob = data.verifier_only.to_bytes().map_err(|e| format!("{:?}", e))?;
    let vo2 = VerifierOnlyCircuitData::<C, D>::from_bytes(vob).map_err(|e| format!("VerifierOnlyCircuitData::from_bytes failed: {:?}", e))?;
    if vo2 != data.verifier_only {
        return Err("VerifierOnlyCircuitData does not round-trip".into());
    }
    // prover data
    let pdb = {
        let pd = ProverCircuitData {
            prover_only: CircuitData::<F, C, D>::from_bytes(&bytes, &gs, &ws).unwrap().prover_only,
            common: common.clone(),
        };
        let b = pd.to_bytes(&gs, &ws).map_err(|e| format!("{:?}", e))?;
        let pd2 = ProverCircuitData::<F, C, D>::from_bytes(&b, &gs, &ws).map_err(|e| format!("ProverCircuitData::from_bytes failed: {:?}", e))?;
        let p3 = pd2.prove(inputs.clone()).map_err(|e| format!("restored ProverCircuitData cannot prove: {:#}", e))?;
        data.verify(p3).map_err(|e| format!("proof of restored ProverCircuitData rejected: {:#}", e))?;
        b
    };
    st.evals(6);
    if common.gates.len() >= 3 && gen_ids.len() >= 3 {
        st.nontrivial(&hash_of(&bytes));
    }
    st.sample(|| json!({"circuit_bytes": bytes.len(), "prover_bytes": pdb.len(), "proof_bytes": pb.len(), "gates": common.gates.len(), "generator_kinds": gen_ids.len()}));
    Ok(())
}

fn prop(c: &Case, st: &mut Stats) -> Result<(), String> {
    let built = build_case::<C>(&c.circuit, &opts(), &limits());
    for l in &built.cfg.labels {
        st.label(l);
    }
    roundtrip_circuit(&built.data, built.elab.witness(), Some(&built.elab.expected_pis), st)
}

// ------------------------------------------------------------------------------------------
// recursion circuits (PoseidonMds gate/generator, dummy-proof generator, ...)
// ------------------------------------------------------------------------------------------

fn prop_recursion(c: &Case, st: &mut Stats) -> Result<(), String> {
    use plonky2::iop::witness::{PartialWitness, WitnessWrite};
    use plonky2::plonk::circuit_builder::CircuitBuilder;
    use plonky2::plonk::circuit_data::CircuitConfig;
    let mut raw = c.circuit.clone();
    raw.config.zk = false;
    let lim = ConfigLimits {
        max_queries: 5,
        allow_zk: false,
        ..limits()
    };
    let o = DslOpts {
        lookups: false,
        ..opts()
    };
    let pr = prove_case::<C>(&raw, &o, &lim, st)?;
    let inner = &pr.built.data;
    // (1) plain recursive verifier
    let outer = crate::props::c06::build_outer::<C>(inner);
    let mut pw = PartialWitness::new();
    pw.set_proof_with_pis_target(&outer.pt, &pr.proof).map_err(|e| format!("{:#}", e))?;
    pw.set_verifier_data_target(&outer.vdt, &inner.verifier_only).map_err(|e| format!("{:#}", e))?;
    st.label("recursive_verifier_circuit");
    roundtrip_circuit(&outer.data, pw, Some(&pr.proof.public_inputs), st)?;
    // (2) conditional verification against a generated dummy proof (DummyProofGenerator); the inner
    // shape is a no-op circuit with public inputs, which the library's dummy-circuit helper can reproduce
    let mut ib = CircuitBuilder::<F, D>::new(CircuitConfig::standard_recursion_config());
    let n_noops = 3 + (c.circuit.program.ops.len() % 40);
    for _ in 0..n_noops {
        ib.add_gate(plonky2::gates::noop::NoopGate, vec![]);
    }
    let pis: Vec<_> = (0..1 + c.circuit.program.inputs.len() % 5).map(|_| ib.add_virtual_public_input()).collect();
    let simple = ib.build::<C>();
    let mut ipw = PartialWitness::new();
    for (i, t) in pis.iter().enumerate() {
        ipw.set_target(*t, F::from_canonical_u64(c.circuit.program.inputs[i % c.circuit.program.inputs.len()] % crate::gen::field::P)).map_err(|e| format!("{:#}", e))?;
    }
    let sproof = simple.prove(ipw).map_err(|e| format!("{:#}", e))?;
    let mut b = CircuitBuilder::<F, D>::new(CircuitConfig::standard_recursion_config());
    let pt = b.add_virtual_proof_with_pis(&simple.common);
    let vdt = b.add_virtual_verifier_data(simple.common.config.fri_config.cap_height);
    let cond = b.add_virtual_bool_target_safe();
    match crate::engine::catch(|| b.conditionally_verify_proof_or_dummy::<C>(cond, &pt, &vdt, &simple.common)) {
        Ok(Ok(())) => {
            b.register_public_inputs(&pt.public_inputs);
            let data = b.build::<C>();
            let mut pw = PartialWitness::new();
            pw.set_bool_target(cond, true).map_err(|e| format!("{:#}", e))?;
            pw.set_proof_with_pis_target(&pt, &sproof).map_err(|e| format!("{:#}", e))?;
            pw.set_verifier_data_target(&vdt, &simple.verifier_only).map_err(|e| format!("{:#}", e))?;
            st.label("conditional_or_dummy_circuit");
            roundtrip_circuit(&data, pw, Some(&sproof.public_inputs), st)?;
        }
        Ok(Err(e)) => return Err(format!("conditionally_verify_proof_or_dummy failed for a no-op inner circuit: {:#}", e)),
        Err(p) => {
            st.label("dummy_shape_not_reproducible");
            let _ = p;
        }
    }
    Ok(())
}

// ------------------------------------------------------------------------------------------
// STARK proofs (serde) and STARK proof targets (buffer encoding)
// ------------------------------------------------------------------------------------------

#[derive(Clone, Debug, Serialize, Deserialize)]
pub struct StarkCase {
    pub stark: crate::gen::stark::RawStark,
}

fn stark_roundtrip<const COLS: usize, const PIS: usize>(el: &crate::gen::stark::ElabStark, st: &mut Stats) -> Result<(), String> {
    use crate::gen::stark::*;
    use plonky2::util::serialization::Buffer;
    use starky::proof::{StarkProofTarget, StarkProofWithPublicInputs};
    let stark = GenStark::<COLS, PIS> { def: std::sync::Arc::new(el.def.clone()) };
    let proof: StarkProofWithPublicInputs<F, C, D> = starky::prover::prove::<F, C, GenStark<COLS, PIS>, D>(
        stark.clone(),
        &el.config,
        trace_columns(&el.trace, COLS),
        &el.pis,
        None,
        &mut plonky2::util::timing::TimingTree::default(),
    )
    .map_err(|e| format!("honest stark prove failed: {:#}", e))?;
    let text = serde_json::to_string(&proof).map_err(|e| e.to_string())?;
    let back: StarkProofWithPublicInputs<F, C, D> = serde_json::from_str(&text).map_err(|e| format!("STARK proof does not decode: {}", e))?;
    if serde_json::to_string(&back).unwrap() != text {
        return Err("STARK proof re-encoding differs".into());
    }
    starky::verifier::verify_stark_proof(stark.clone(), back, &el.config, None).map_err(|e| format!("decoded STARK proof rejected: {:#}", e))?;
    st.evals(2);
    // proof targets: buffer round trip
    let mut b = plonky2::plonk::circuit_builder::CircuitBuilder::<F, D>::new(plonky2::plonk::circuit_data::CircuitConfig::standard_recursion_config());
    let pt = starky::recursive_verifier::add_virtual_stark_proof(&mut b, &stark, &el.config, el.log_n, 0, 0);
    let mut buf = Vec::new();
    pt.to_buffer(&mut buf).map_err(|e| format!("StarkProofTarget::to_buffer: {:?}", e))?;
    let mut rd = Buffer::new(&buf);
    let pt2 = StarkProofTarget::<D>::from_buffer(&mut rd).map_err(|e| format!("StarkProofTarget::from_buffer: {:?}", e))?;
    if pt2 != pt {
        return Err("StarkProofTarget does not round-trip".into());
    }
    let mut buf2 = Vec::new();
    pt2.to_buffer(&mut buf2).unwrap();
    if buf2 != buf {
        return Err("StarkProofTarget re-encoding is not byte-identical".into());
    }
    st.evals(1);
    st.nontrivial(&hash_of(&text));
    Ok(())
}

fn prop_stark(c: &StarkCase, st: &mut Stats) -> Result<(), String> {
    let lim = crate::gen::stark::StarkLimits {
        max_log_n: 5,
        min_queries: 1,
        max_queries: 6,
        max_pow: 3,
        min_degree: 1,
        ..Default::default()
    };
    let el = crate::gen::stark::elaborate_stark(&c.stark, &lim);
    crate::with_stark_shape!(el.shape, stark_roundtrip, &el, st)
}

pub fn run(ctx: &mut Ctx) {
    ctx.rule = "generated circuit restricted to gates/generators of the default serializer registries (incl. lookups, blinding) x its proofs; \
                non-trivial = the circuit uses >= 3 gate types and >= 3 generator types; distinct = distinct circuit encoding; \
                histogram lists every gate and generator kind that occurred (registry coverage)"
        .into();
    ctx.assumptions.push("Poseidon config only: the default generator serializer requires an algebraic hasher".into());
    ctx.shrink_iters = 60;
    let n = ctx.tier.pick(168, 4000);
    let max_ops = ctx.tier.pick(30, 80);
    ctx.run_sub("generated_circuits", n, 14, move || case(max_ops), prop);
    let nr = ctx.tier.pick(6, 200);
    ctx.run_sub("recursion_circuits", nr, 14, move || case(10), prop_recursion);
    let ns = ctx.tier.pick(280, 8000);
    ctx.run_sub("stark_proofs", ns, 14, || bx(crate::gen::stark::raw_stark().prop_map(|stark| StarkCase { stark })), prop_stark);
}
