//! C17 — binary encodings round-trip and restored circuits are interchangeable.

use std::collections::BTreeSet;

use plonky2::field::types::PrimeField64;
use plonky2::plonk::circuit_data::{CircuitData, CommonCircuitData, ProverCircuitData, VerifierCircuitData, VerifierOnlyCircuitData};
use plonky2::plonk::proof::{CompressedProofWithPublicInputs, ProofWithPublicInputs};
use plonky2::util::serialization::{DefaultGateSerializer, DefaultGeneratorSerializer};
use proptest::prelude::*;
use serde::{Deserialize, Serialize};
use serde_json::json;

use crate::circuit::{build_case, RawCircuit, PC};
use crate::engine::{bx, hash_of, Ctx, Stats};
use crate::gen::config::ConfigLimits;
use crate::gen::dsl::{DslOpts, D, F};
use crate::props::common::*;

#[derive(Clone, Debug, Serialize, Deserialize)]
pub struct Case {
    pub circuit: RawCircuit,
}

fn case(max_ops: usize) -> BoxedStrategy<Case> {
    bx(raw_circuit(max_ops).prop_map(|mut circuit| {
        circuit.config.keccak = false; // the default generator serializer needs an algebraic hasher
        Case { circuit }
    }))
}

pub fn limits() -> ConfigLimits {
    ConfigLimits {
        min_queries: 1,
        max_queries: 8,
        max_queries_zk: 3,
        max_pow: 4,
        allow_keccak: false,
        ..ConfigLimits::default()
    }
}

pub fn opts() -> DslOpts {
    DslOpts {
        serialisable_only: true,
        ..DslOpts::default()
    }
}

type C = PC;

pub fn roundtrip_circuit(
    data: &CircuitData<F, C, D>,
    inputs: plonky2::iop::witness::PartialWitness<F>,
    expected_pis: Option<&[F]>,
    st: &mut Stats,
) -> Result<(), String> {
    let gs = DefaultGateSerializer;
    let ws = DefaultGeneratorSerializer::<C, D>::default();
    let common = &data.common;
    // registry coverage
    for g in &common.gates {
        let id = g.0.id();
        st.label(&format!("gate:{}", id.split(|c: char| c == ' ' || c == '{' || c == '<' || c == '(').next().unwrap_or("")));
    }
    let mut gen_ids = BTreeSet::new();
    for g in &data.prover_only.generators {
        let id = g.0.id();
        gen_ids.insert(id.split(|c: char| c == ' ' || c == '{' || c == '<' || c == '(').next().unwrap_or("").to_string());
    }
    for id in &gen_ids {
        st.label(&format!("generator:{}", id));
    }

    // ---- proofs ----
    let proof = data.prove(inputs.clone()).map_err(|e| format!("prove failed: {:#}", e))?;
    data.verify(proof.clone()).map_err(|e| format!("honest proof rejected: {:#}", e))?;
    let pb = proof.to_bytes();
    let p2 = ProofWithPublicInputs::<F, C, D>::from_bytes(pb.clone(), common).map_err(|e| format!("proof from_bytes failed: {:#}", e))?;
    if p2 != proof {
        return Err("proof does not round-trip through bytes".into());
    }
    if p2.to_bytes() != pb {
        return Err("proof re-encoding is not byte-identical".into());
    }
    let cp = data.compress(proof.clone()).map_err(|e| format!("{:#}", e))?;
    let cb = cp.to_bytes();
    let cp2 = CompressedProofWithPublicInputs::<F, C, D>::from_bytes(cb.clone(), common).map_err(|e| format!("compressed from_bytes failed: {:#}", e))?;
    if cp2 != cp {
        return Err("compressed proof does not round-trip through bytes".into());
    }
    if cp2.to_bytes() != cb {
        return Err("compressed proof re-encoding is not byte-identical".into());
    }
    st.evals(4);

    // ---- circuit data ----
    let bytes = data.to_bytes(&gs, &ws).map_err(|e| format!("CircuitData::to_bytes failed: {:?}", e))?;
    let restored = CircuitData::<F, C, D>::from_bytes(&bytes, &gs, &ws).map_err(|e| format!("CircuitData::from_bytes failed: {:?}", e))?;
    if restored != *data {
        return Err("restored CircuitData != original".into());
    }
    let bytes2 = restored.to_bytes(&gs, &ws).map_err(|e| format!("{:?}", e))?;
    if bytes2 != bytes {
        return Err("CircuitData re-encoding is not byte-identical".into());
    }
    if restored.verifier_only.circuit_digest != data.verifier_only.circuit_digest {
        return Err("restored circuit has a different digest".into());
    }
    // interchangeable: restored prover -> original verifier, and vice versa
    let p_restored = restored.prove(inputs.clone()).map_err(|e| format!("restored circuit cannot prove: {:#}", e))?;
    data.verify(p_restored.clone()).map_err(|e| format!("original verifier rejects the restored prover's proof: {:#}", e))?;
    restored.verify(proof.clone()).map_err(|e| format!("restored verifier rejects the original prover's proof: {:#}", e))?;
    if let Some(want) = expected_pis {
        let got: Vec<u64> = p_restored.public_inputs.iter().map(|x| x.to_canonical_u64()).collect();
        let want: Vec<u64> = want.iter().map(|x| x.to_canonical_u64()).collect();
        if got != want {
            return Err(format!("restored prover's public inputs differ from the reference: {:?} vs {:?}", got, want));
        }
    }
    st.evals(5);

    // ---- parts ----
    let vd = data.verifier_data();
    let vb = vd.to_bytes(&gs).map_err(|e| format!("{:?}", e))?;
    let vd2 = VerifierCircuitData::<F, C, D>::from_bytes(vb.clone(), &gs).map_err(|e| format!("VerifierCircuitData::from_bytes failed: {:?}", e))?;
    if vd2 != vd {
        return Err("VerifierCircuitData does not round-trip".into());
    }
    vd2.verify(proof.clone()).map_err(|e| format!("restored verifier data rejects the proof: {:#}", e))?;
    let cbytes = common.to_bytes(&gs).map_err(|e| format!("{:?}", e))?;
    let c2 = CommonCircuitData::<F, D>::from_bytes(cbytes.clone(), &gs).map_err(|e| format!("CommonCircuitData::from_bytes failed: {:?}", e))?;
    if c2 != *common {
        return Err("CommonCircuitData does not round-trip".into());
    }
    if c2.to_bytes(&gs).map_err(|e| format!("{:?}", e))? != cbytes {
        return Err("CommonCircuitData re-encoding is not byte-identical".into());
    }
    let vob = data.verifier_only.to_bytes().map_err(|e| format!("{:?}", e))?;
    let vo2 = VerifierOnlyCircuitData::<C, D>::from_bytes(vob).map_err(|e| format!("VerifierOnlyCircuitData::from_bytes failed: {:?}", e))?;
    if vo2 != data.verifier_only {
        return Err("VerifierOnlyCircuitData does not round-trip".into());
    }
    // prover data
    let pdb = {
        let pd = ProverCircuitData {
            prover_only: CircuitData::<F, C, D>::from_bytes(&bytes, &gs, &ws).unwrap().prover_only,
            common: common.clone(),
        };
        let b = pd.to_bytes(&gs, &ws).map_err(|e| format!("{:?}", e))?;
        let pd2 = ProverCircuitData::<F, C, D>::from_bytes(&b, &gs, &ws).map_err(|e| format!("ProverCircuitData::from_bytes failed: {:?}", e))?;
        let p3 = pd2.prove(inputs.clone()).map_err(|e| format!("restored ProverCircuitData cannot prove: {:#}", e))?;
        data.verify(p3).map_err(|e| format!("proof of restored ProverCircuitData rejected: {:#}", e))?;
        b
    };
    st.evals(6);
    if common.gates.len() >= 3 && gen_ids.len() >= 3 {
        st.nontrivial(&hash_of(&bytes));
    }
    st.sample(|| json!({"circuit_bytes": bytes.len(), "prover_bytes": pdb.len(), "proof_bytes": pb.len(), "gates": common.gates.len(), "generator_kinds": gen_ids.len()}));
    Ok(())
}

fn prop(c: &Case, st: &mut Stats) -> Result<(), String> {
    let built = build_case::<C>(&c.circuit, &opts(), &limits());
    for l in &built.cfg.labels {
        st.label(l);
    }
    roundtrip_circuit(&built.data, built.elab.witness(), Some(&built.elab.expected_pis), st)
}

pub fn run(ctx: &mut Ctx) {
    ctx.rule = "generated circuit restricted to gates/generators of the default serializer registries (incl. lookups, blinding) x its proofs; \
                non-trivial = the circuit uses >= 3 gate types and >= 3 generator types; distinct = distinct circuit encoding; \
                histogram lists every gate and generator kind that occurred (registry coverage)"
        .into();
    ctx.assumptions.push("Poseidon config only: the default generator serializer requires an algebraic hasher".into());
    ctx.shrink_iters = 60;
    let n = ctx.tier.pick(168, 4000);
    let max_ops = ctx.tier.pick(30, 80);
    ctx.run_sub("generated_circuits", n, 14, move || case(max_ops), prop);
}
