//! C05 — FRI opening proofs attest only true evaluations of low-degree polynomials
//! (fault enumeration at the FRI API level, see DESIGN.md §C05).
//!
//! The harness plays both roles of the interactive protocol made non-interactive: it commits the
//! oracles, replays the transcript on a fresh `Challenger` for the verifier, and computes the
//! *claimed* openings itself by Horner's rule over the u128 reference field (`oracle::poly_ref`),
//! never through the library's `eval`. Deviating provers are built from the public pieces
//! (`fri_proof`, literal `PolynomialBatch` values, the `pow_witness` knob); every verdict that is
//! asserted is either deterministic or predicted exactly from the challenges by the harness.

use std::collections::BTreeSet;

use plonky2::batch_fri::oracle::BatchFriOracle;
use plonky2::batch_fri::verifier::verify_batch_fri_proof;
use plonky2::field::extension::quadratic::QuadraticExtension;
use plonky2::field::polynomial::{PolynomialCoeffs, PolynomialValues};
use plonky2::field::types::{Field, PrimeField64};
use plonky2::fri::oracle::PolynomialBatch;
use plonky2::field::extension::{flatten, unflatten};
use plonky2::fri::proof::{FriChallenges, FriInitialTreeProof, FriProof, FriQueryRound, FriQueryStep};
use plonky2::fri::prover::fri_proof;
use plonky2::fri::reduction_strategies::FriReductionStrategy;
use plonky2::fri::structure::{
    FriBatchInfo, FriInstanceInfo, FriOpeningBatch, FriOpenings, FriOracleInfo, FriPolynomialInfo,
};
use plonky2::fri::verifier::verify_fri_proof;
use plonky2::fri::{FriConfig, FriParams};
use plonky2::hash::merkle_tree::{MerkleCap, MerkleTree};
use plonky2::iop::challenger::Challenger;
use plonky2::plonk::config::GenericConfig;
use plonky2::util::reducing::ReducingFactor;
use plonky2::util::timing::TimingTree;
use plonky2::util::{reverse_index_bits_in_place, transpose};
use plonky2::verif_hooks::{reset_knobs, set_knobs, Knobs};
use proptest::prelude::*;
use serde::{Deserialize, Serialize};
use serde_json::json;

use crate::engine::{bx, catch, frac, hash_of, Ctx, Stats, Tier};
use crate::gen::dsl::{D, F};
use crate::gen::field::{canonical, P};
use crate::gen::mutate::*;
use crate::oracle::poly_ref::{bitrev, horner, pow as ref_pow, root_g, Fe, G, G2, MULT_GEN};
use crate::props::common::{frac32, raw_edit, RawEdit};
use crate::with_config;

type FE = QuadraticExtension<F>;
type Hs<C> = <C as GenericConfig<D>>::Hasher;
type Proof<C> = FriProof<F, Hs<C>, D>;
type Cap<C> = MerkleCap<F, Hs<C>>;
type Chal<C> = Challenger<F, Hs<C>>;
/// claimed / true openings: instance -> opening batch -> value (canonical residues)
type Openings = Vec<Vec<Vec<[u64; 2]>>>;

// ------------------------------------------------------------------------------------------
// Small conversions and the reference side
// ------------------------------------------------------------------------------------------

fn fb(x: u64) -> F {
    F::from_canonical_u64(x % P)
}

fn fe(x: [u64; 2]) -> FE {
    QuadraticExtension([fb(x[0]), fb(x[1])])
}

fn raw(x: FE) -> [u64; 2] {
    [x.0[0].to_canonical_u64(), x.0[1].to_canonical_u64()]
}

fn g2(x: FE) -> G2 {
    G2::new(raw(x))
}

/// Reference opening: Horner's rule in GF(p^2) over u128 arithmetic.
fn ref_open(coeffs: &[u64], z: [u64; 2]) -> [u64; 2] {
    let c: Vec<G2> = coeffs.iter().map(|&c| G2::new([c, 0])).collect();
    horner(&c, G2::new(z)).raw()
}

fn sq_n<E: Fe>(mut x: E, n: usize) -> E {
    for _ in 0..n {
        x = x.mul(x);
    }
    x
}

/// An opening point is unusable iff it lies in the two-adic subgroup of order 2^lde_bits (which
/// contains the trace subgroup) or in the LDE coset g*H (the verifier divides by `x - point`).
fn point_bad(p: [u64; 2], lde_bits: usize) -> bool {
    let t = sq_n(G2::new(p), lde_bits);
    let gg = sq_n(G(MULT_GEN), lde_bits);
    t == G2::one() || t == G2([gg, G(0)])
}

fn repair_point(mut p: [u64; 2], lde_bits: usize) -> ([u64; 2], bool) {
    let mut repaired = false;
    while point_bad(p, lde_bits) {
        p[0] = (p[0] + 1) % P;
        repaired = true;
    }
    (p, repaired)
}

fn mk_openings(o: &Openings) -> Vec<FriOpenings<F, D>> {
    o.iter()
        .map(|inst| FriOpenings {
            batches: inst.iter().map(|b| FriOpeningBatch { values: b.iter().map(|&v| fe(v)).collect() }).collect(),
        })
        .collect()
}

fn clone_challenges(c: &FriChallenges<F, D>) -> FriChallenges<F, D> {
    FriChallenges {
        fri_alpha: c.fri_alpha,
        fri_betas: c.fri_betas.clone(),
        fri_pow_response: c.fri_pow_response,
        fri_query_indices: c.fri_query_indices.clone(),
    }
}

/// The proof-of-work rule, re-derived: the response, as a canonical integer below the 64-bit
/// prime p, must have at least `pow_bits` leading zero bits in its 64-bit binary form
/// (the field order has exactly 64 bits, so no extra bits are owed).
fn pow_sufficient(response_canonical: u64, pow_bits: u32) -> bool {
    pow_bits == 0 || (pow_bits < 64 && response_canonical < (1u64 << (64 - pow_bits))) || (pow_bits >= 64 && response_canonical == 0)
}

#[derive(Debug)]
enum Verdict {
    Accepted,
    Rejected(String),
    Panicked(String),
}

impl Verdict {
    fn accepted(&self) -> bool {
        matches!(self, Verdict::Accepted)
    }
    fn short(&self) -> &'static str {
        match self {
            Verdict::Accepted => "accepted",
            Verdict::Rejected(_) => "rejected",
            Verdict::Panicked(_) => "rejected_by_panic",
        }
    }
    fn text(&self) -> String {
        match self {
            Verdict::Accepted => "accepted".into(),
            Verdict::Rejected(e) => format!("rejected: {}", e),
            Verdict::Panicked(e) => format!("panicked: {}", e),
        }
    }
}

struct KnobGuard;
impl Drop for KnobGuard {
    fn drop(&mut self) {
        reset_knobs();
    }
}

// ------------------------------------------------------------------------------------------
// Raw (generated) data
// ------------------------------------------------------------------------------------------

#[derive(Clone, Debug, Serialize, Deserialize, PartialEq, Eq, Hash)]
pub struct RawFri {
    pub rate_bits: usize,
    pub cap_height: usize,
    /// 0 = Fixed(list), 1 = ConstantArityBits(arity, final_bits), 2 = MinSize(opt)
    pub strat_kind: u8,
    pub fixed: Vec<u8>,
    pub arity: u8,
    pub final_bits: u8,
    /// 0 = None, k = Some(k)
    pub min_opt: u8,
    pub pow_bits: u32,
    pub queries: usize,
    pub hiding: bool,
    /// transcript padding used by recursion (`final_poly_coeff_len`, `max_num_query_steps`):
    /// 0..=3 none, 4 = final length padded, 5 = both padded
    pub pad: u8,
}

fn raw_fri() -> BoxedStrategy<RawFri> {
    bx((
        (
            1usize..=3,
            0usize..=3,
            0u8..3,
            prop_oneof![1 => prop::collection::vec(1u8..=4, 0..=1), 5 => prop::collection::vec(1u8..=4, 1..=5)],
            1u8..=4,
            prop_oneof![3 => 0u8..=2, 1 => 0u8..=7],
        ),
        (0u8..=4, 0u32..=8, 1usize..=12, prop::bool::weighted(0.3), 0u8..=5),
    )
        .prop_map(|((rate_bits, cap_height, strat_kind, fixed, arity, final_bits), (min_opt, pow_bits, queries, hiding, pad))| RawFri {
            rate_bits,
            cap_height,
            strat_kind,
            fixed,
            arity,
            final_bits,
            min_opt,
            pow_bits,
            queries,
            hiding,
            pad,
        }))
}

/// Repairing elaboration of the FRI configuration for polynomials of `d` degree bits. The repairs
/// keep every Merkle tree at least as high as its cap and the final polynomial non-empty, which
/// is what `CircuitBuilder::build` guarantees for its own configurations.
fn elab_fri(r: &RawFri, d: usize) -> FriParams {
    let rate = r.rate_bits;
    let (cap, strat) = match r.strat_kind {
        0 => {
            let cap = r.cap_height.min(d + rate);
            let budget = d.min(d + rate - cap);
            let mut list = vec![];
            let mut sum = 0;
            for &a in &r.fixed {
                let a = (a as usize).min(budget - sum);
                if a == 0 {
                    break;
                }
                list.push(a);
                sum += a;
            }
            (cap, FriReductionStrategy::Fixed(list))
        }
        1 => {
            let a = (r.arity as usize).clamp(1, 4);
            let f = (r.final_bits as usize).max(a - 1);
            (r.cap_height.min(d + rate), FriReductionStrategy::ConstantArityBits(a, f))
        }
        _ => {
            let opt = if r.min_opt == 0 { None } else { Some(r.min_opt as usize) };
            (r.cap_height.min(rate), FriReductionStrategy::MinSize(opt))
        }
    };
    FriConfig {
        rate_bits: rate,
        cap_height: cap,
        proof_of_work_bits: r.pow_bits,
        reduction_strategy: strat,
        num_query_rounds: r.queries,
    }
    .fri_params(d, r.hiding)
}

/// The preconditions the harness promises for every parameter set it feeds to the library.
fn check_params(p: &FriParams) -> Result<(), String> {
    let total: usize = p.reduction_arity_bits.iter().sum();
    let lde = p.degree_bits + p.config.rate_bits;
    if total > p.degree_bits || p.config.cap_height > lde || (total > 0 && total + p.config.cap_height > lde) {
        return Err(format!("harness: parameter repair failed: {:?}", p));
    }
    Ok(())
}

fn strat_label(p: &FriParams) -> &'static str {
    match p.config.reduction_strategy {
        FriReductionStrategy::Fixed(_) => "strategy:fixed",
        FriReductionStrategy::ConstantArityBits(..) => "strategy:constant_arity",
        FriReductionStrategy::MinSize(_) => "strategy:min_size",
    }
}

fn pad_of(r: &RawFri, p: &FriParams) -> (Option<usize>, Option<usize>) {
    match r.pad {
        4 => (Some(p.final_poly_len() + 1 + (r.arity as usize % 3)), None),
        5 => (Some(p.final_poly_len() + (r.arity as usize % 2)), Some(p.reduction_arity_bits.len() + (r.final_bits as usize % 3))),
        _ => (None, None),
    }
}

#[derive(Clone, Debug, Serialize, Deserialize, PartialEq, Eq, Hash)]
pub struct RawOracle {
    pub polys: Vec<Vec<u64>>,
    pub blinding: bool,
}

#[derive(Clone, Debug, Serialize, Deserialize, PartialEq, Eq, Hash)]
pub struct RawBatch {
    pub point: [u64; 2],
    /// 0 generated extension point, 1 drawn from the transcript, 2 base-field point,
    /// 3 point of the subgroup / LDE coset (then repaired)
    pub mode: u8,
    pub mask: u32,
    pub rev: bool,
}

fn raw_batch() -> BoxedStrategy<RawBatch> {
    bx((
        [canonical(), canonical()],
        prop_oneof![5 => Just(0u8), 3 => Just(1u8), 1 => Just(2u8), 1 => Just(3u8)],
        any::<u32>(),
        prop::bool::weighted(0.2),
    )
        .prop_map(|(point, mode, mask, rev)| RawBatch { point, mode, mask, rev }))
}

fn poly_strat(n: usize) -> BoxedStrategy<Vec<u64>> {
    bx(prop_oneof![
        6 => prop::collection::vec(canonical(), n..=n),
        1 => (prop::collection::vec(canonical(), n..=n), any::<u16>()).prop_map(move |(mut v, k)| {
            let keep = frac(k, n);
            for x in v.iter_mut().skip(keep) {
                *x = 0;
            }
            v
        }),
        1 => (canonical(), any::<u16>()).prop_map(move |(c, k)| {
            let mut v = vec![0u64; n];
            v[frac(k, n)] = c;
            v
        }),
    ])
}

/// Raw material for the deviations (selectors and canonical values).
#[derive(Clone, Debug, Serialize, Deserialize, PartialEq, Eq, Hash)]
pub struct RawDev {
    pub sel: Vec<u16>,
    pub vals: Vec<u64>,
}

fn raw_dev() -> BoxedStrategy<RawDev> {
    bx((prop::collection::vec(any::<u16>(), 12..=12), prop::collection::vec(canonical(), 12..=12)).prop_map(|(sel, vals)| RawDev { sel, vals }))
}

fn nonzero(v: u64) -> u64 {
    if v % P == 0 {
        1
    } else {
        v % P
    }
}

// ------------------------------------------------------------------------------------------
// The flow shared by the single-degree and the batched variant
// ------------------------------------------------------------------------------------------

struct Flow<'a, C: GenericConfig<D, F = F>> {
    single: bool,
    degree_bits: Vec<usize>,
    instances: Vec<FriInstanceInfo<F, D>>,
    params: FriParams,
    caps: Vec<Cap<C>>,
    pad: (Option<usize>, Option<usize>),
    /// A fresh challenger that replays everything that precedes the openings.
    replay: Box<dyn Fn() -> Chal<C> + 'a>,
    /// The honest prover, given the challenger that has observed the openings.
    prove: Box<dyn Fn(&mut Chal<C>) -> Proof<C> + 'a>,
    keccak: bool,
    shape_hash: u64,
    /// oracle -> polynomial index (as used by `FriPolynomialInfo`) -> generated coefficients
    raw_polys: Vec<Vec<&'a Vec<u64>>>,
}

impl<'a, C: GenericConfig<D, F = F>> Flow<'a, C> {
    /// Reference value of the combined quotient of instance `ii` at the point selected by query
    /// index `x_index` (index into the largest LDE domain), for the given claimed openings:
    /// `sum <- sum * alpha^{#polys_i} + (sum_j alpha^j f_ij(x) - sum_j alpha^j v_ij) / (x - z_i)`
    /// over the batches for which an opening batch is present. u128 arithmetic only.
    fn ref_combine_at(&self, ii: usize, claimed: &[Vec<[u64; 2]>], alpha: G2, x_index: usize) -> G2 {
        let rate = self.params.config.rate_bits;
        let lde0 = self.degree_bits[0] + rate;
        let lde = self.degree_bits[ii] + rate;
        let idx = x_index >> (lde0 - lde);
        let x = G(MULT_GEN).mul(ref_pow(root_g(lde), bitrev(idx, lde) as u64));
        let xe = G2([x, G(0)]);
        let mut sum = G2::zero();
        for (b, vals) in self.instances[ii].batches.iter().zip(claimed) {
            let mut re = G2::zero();
            let mut ap = G2::one();
            for p in &b.polynomials {
                let cf: Vec<G> = self.raw_polys[p.oracle_index][p.polynomial_index].iter().map(|&c| G::new(c)).collect();
                let fx = horner(&cf, x);
                re = re.add(ap.mul(G2([fx, G(0)])));
                ap = ap.mul(alpha);
            }
            // `ap` is now alpha^{#polys}: the shift applied to the running sum
            let mut ro = G2::zero();
            let mut aq = G2::one();
            for &v in vals {
                ro = ro.add(aq.mul(G2::new(v)));
                aq = aq.mul(alpha);
            }
            let z = g2(b.point);
            sum = sum.mul(ap).add(re.sub(ro).mul(xe.sub(z).inv()));
        }
        sum
    }

    fn reductions(&self) -> usize {
        self.params.reduction_arity_bits.len()
    }

    fn after_openings(&self, op: &[FriOpenings<F, D>]) -> Chal<C> {
        let mut ch = (self.replay)();
        for o in op {
            ch.observe_openings(o);
        }
        ch
    }

    fn prove_with(&self, op: &[FriOpenings<F, D>]) -> Proof<C> {
        let mut ch = self.after_openings(op);
        (self.prove)(&mut ch)
    }

    fn challenges(&self, op: &[FriOpenings<F, D>], proof: &Proof<C>) -> FriChallenges<F, D> {
        let mut ch = self.after_openings(op);
        ch.fri_challenges::<C, D>(
            &proof.commit_phase_merkle_caps,
            &proof.final_poly,
            proof.pow_witness,
            self.degree_bits[0],
            &self.params.config,
            self.pad.0,
            self.pad.1,
        )
    }

    fn verify(&self, op: &[FriOpenings<F, D>], ch: &FriChallenges<F, D>, caps: &[Cap<C>], proof: &Proof<C>) -> Verdict {
        let r = if self.single {
            catch(|| verify_fri_proof::<F, C, D>(&self.instances[0], &op[0], ch, caps, proof, &self.params))
        } else {
            catch(|| verify_batch_fri_proof::<F, C, D>(&self.degree_bits, &self.instances, op, ch, caps, proof, &self.params))
        };
        match r {
            Ok(Ok(())) => Verdict::Accepted,
            Ok(Err(e)) => Verdict::Rejected(format!("{:#}", e)),
            Err(p) => Verdict::Panicked(p),
        }
    }

    fn describe(&self) -> String {
        format!(
            "degree_bits={:?} rate={} cap={} arities={:?} pow={} queries={} hiding={} oracles={:?} batches={:?} pad={:?} keccak={}",
            self.degree_bits,
            self.params.config.rate_bits,
            self.params.config.cap_height,
            self.params.reduction_arity_bits,
            self.params.config.proof_of_work_bits,
            self.params.config.num_query_rounds,
            self.params.hiding,
            self.instances.iter().map(|i| i.oracles.iter().map(|o| (o.num_polys, o.blinding)).collect::<Vec<_>>()).collect::<Vec<_>>(),
            self.instances.iter().map(|i| i.batches.iter().map(|b| b.polynomials.len()).collect::<Vec<_>>()).collect::<Vec<_>>(),
            self.pad,
            self.keccak
        )
    }
}

/// Cap entries read by some query, computed from the challenge indices alone: an index `x` of a
/// tree with `2^h` leaves and cap height `c` ends in cap entry `x >> (h - c)`.
struct Selected {
    initial: BTreeSet<usize>,
    commit: Vec<BTreeSet<usize>>,
}

fn selected(params: &FriParams, indices: &[usize]) -> Selected {
    let lde = params.lde_bits();
    let cap = params.config.cap_height;
    let mut s = Selected { initial: BTreeSet::new(), commit: vec![BTreeSet::new(); params.reduction_arity_bits.len()] };
    for &x in indices {
        s.initial.insert(x >> (lde - cap));
        let mut acc = 0;
        for (i, &a) in params.reduction_arity_bits.iter().enumerate() {
            acc += a;
            let coset = x >> acc;
            let height = lde - acc;
            s.commit[i].insert(coset >> (height - cap));
        }
    }
    s
}

/// Value edit of a numeric leaf modulo `modulus` (u128 arithmetic); the new value is canonical and
/// differs from the old residue. Returns false if the leaf does not exist.
fn apply_value_edit(tree: &mut serde_json::Value, path: &Path, e: ValueEdit, modulus: u64) -> bool {
    let Some(leaf) = get_mut(tree, path) else { return false };
    let Some(old) = leaf.as_u64() else { return false };
    let m = modulus as u128;
    let oldr = old as u128 % m;
    let mut new = match e {
        ValueEdit::Plus1 => (oldr + 1) % m,
        ValueEdit::Minus1 => (oldr + m - 1) % m,
        ValueEdit::Zero => 0,
        ValueEdit::Set(x) => x as u128 % m,
    };
    if new == oldr {
        new = (oldr + 1) % m;
    }
    *leaf = serde_json::Value::from(new as u64);
    true
}

enum Where {
    Pow,
    CommitCap(usize, usize),
    Other,
}

fn locate(path: &Path) -> Where {
    match path.first() {
        Some(Seg::Key(k)) if k == "pow_witness" => Where::Pow,
        Some(Seg::Key(k)) if k == "commit_phase_merkle_caps" => match (path.get(1), path.get(2)) {
            (Some(Seg::Idx(i)), Some(Seg::Idx(j))) => Where::CommitCap(*i, *j),
            _ => Where::Other,
        },
        _ => Where::Other,
    }
}

/// Honest run plus the deviations that need nothing but the flow: (a) wrong opening value,
/// (d) proof of work, (e) element and shape edits under fixed challenges.
fn common_devs<C: GenericConfig<D, F = F>>(
    fl: &Flow<C>,
    truth: &Openings,
    dev: &RawDev,
    edits: &[RawEdit],
    exhaustive: bool,
    st: &mut Stats,
) -> Result<(Proof<C>, FriChallenges<F, D>), String> {
    let params = &fl.params;
    check_params(params)?;
    let pow_bits = params.config.proof_of_work_bits;
    st.label(strat_label(params));
    st.label(&format!("reductions:{}", fl.reductions()));
    st.label(if params.hiding { "hiding:yes" } else { "hiding:no" });
    st.label(&format!("queries:{}", if params.config.num_query_rounds <= 2 { "1-2" } else if params.config.num_query_rounds <= 6 { "3-6" } else { "7-12" }));
    let nontrivial = fl.reductions() >= 1;

    // ---- honest: accepted ----
    let op = mk_openings(truth);
    let proof = fl.prove_with(&op);
    let ch = fl.challenges(&op, &proof);
    let v = fl.verify(&op, &ch, &fl.caps, &proof);
    if !v.accepted() {
        return Err(format!("honest opening proof not accepted ({}) [{}]", v.text(), fl.describe()));
    }
    st.label("dev:honest");
    // independent look at what the prover committed to: the value the first reduction layer (or, without
    // reductions, the final polynomial) holds at each queried point is the reference combination
    {
        let alpha = g2(ch.fri_alpha);
        for (q, &x_index) in ch.fri_query_indices.iter().enumerate() {
            let want = fl.ref_combine_at(0, &truth[0], alpha, x_index);
            let got = match params.reduction_arity_bits.first() {
                Some(&a0) => g2(proof.query_round_proofs[q].steps[0].evals[x_index & ((1 << a0) - 1)]),
                None => {
                    let x = G(MULT_GEN).mul(ref_pow(root_g(params.lde_bits()), bitrev(x_index, params.lde_bits()) as u64));
                    let cf: Vec<G2> = proof.final_poly.coeffs.iter().map(|&c| g2(c)).collect();
                    horner(&cf, G2([x, G(0)]))
                }
            };
            if want != got {
                return Err(format!(
                    "honest prover's committed value at query index {} is {:?}, reference combination of the committed polynomials and true openings is {:?} [{}]",
                    x_index, got.raw(), want.raw(), fl.describe()
                ));
            }
        }
        st.label("honest_first_layer_matches_reference");
    }
    if !pow_sufficient(ch.fri_pow_response.to_canonical_u64(), pow_bits) {
        return Err(format!("honest proof accepted with an insufficient proof-of-work response {} (pow_bits={})", ch.fri_pow_response.to_canonical_u64(), pow_bits));
    }

    // ---- (a) one claimed opening differs from the reference value ----
    {
        let ii = frac(dev.sel[0], truth.len());
        let bi = frac(dev.sel[1], truth[ii].len());
        let ei = frac(dev.sel[2], truth[ii][bi].len());
        let co = (dev.sel[3] & 1) as usize;
        let mut claimed = truth.clone();
        let old = claimed[ii][bi][ei][co];
        let new = match dev.sel[3] >> 1 & 3 {
            0 => (old + 1) % P,
            1 => ((old as u128 + P as u128 - 1) % P as u128) as u64,
            _ => {
                if dev.vals[0] % P == old {
                    (old + 1) % P
                } else {
                    dev.vals[0] % P
                }
            }
        };
        claimed[ii][bi][ei][co] = new;
        let cop = mk_openings(&claimed);
        // (a1) the prover is run on the transcript that contains the claimed value
        let p1 = fl.prove_with(&cop);
        let c1 = fl.challenges(&cop, &p1);
        let v1 = fl.verify(&cop, &c1, &fl.caps, &p1);
        st.evals(1);
        st.label("dev:a_wrong_opening");
        st.label(&format!("a_instance:{}", ii));
        st.nontrivial(&(fl.shape_hash, "a1", ii, bi, ei, co));
        if v1.accepted() {
            return Err(format!(
                "wrong opening ACCEPTED: instance {} batch {} element {} coord {}: claimed {} true {} [{}]",
                ii, bi, ei, co, new, old, fl.describe()
            ));
        }
        // (a2) honest proof, honest challenges held fixed, only the claimed value differs
        let v2 = fl.verify(&cop, &ch, &fl.caps, &proof);
        st.evals(1);
        st.label("dev:a_wrong_opening_fixed_challenges");
        st.nontrivial(&(fl.shape_hash, "a2", ii, bi, ei, co));
        if v2.accepted() {
            return Err(format!(
                "wrong opening ACCEPTED under fixed challenges: instance {} batch {} element {} coord {}: claimed {} true {} [{}]",
                ii, bi, ei, co, new, old, fl.describe()
            ));
        }
    }

    // ---- (a3)/(a4) the claimed openings lack a value / a whole batch (honest proof, fixed challenges) ----
    {
        let ii = frac(dev.sel[10], truth.len());
        let bi = frac(dev.sel[11], truth[ii].len());
        let last = *truth[ii][bi].last().unwrap();
        if last != [0, 0] {
            // a missing trailing value is read as a claimed value of zero
            let mut claimed = truth.clone();
            claimed[ii][bi].pop();
            let v = fl.verify(&mk_openings(&claimed), &ch, &fl.caps, &proof);
            st.evals(1);
            st.label("dev:a_opening_value_missing");
            st.nontrivial(&(fl.shape_hash, "a3", ii, bi));
            if v.accepted() {
                return Err(format!("claimed openings without the (non-zero) last value of instance {} batch {} ACCEPTED [{}]", ii, bi, fl.describe()));
            }
        }
        if truth[ii].len() >= 2 {
            // no claim is made for the missing batch; the verifier must still notice that the committed
            // combination contains it, unless that batch contributes nothing at every queried point
            let mut claimed = truth.clone();
            claimed[ii].pop();
            let alpha = g2(ch.fri_alpha);
            let differs = ch.fri_query_indices.iter().any(|&x| fl.ref_combine_at(ii, &claimed[ii], alpha, x) != fl.ref_combine_at(ii, &truth[ii], alpha, x));
            let v = fl.verify(&mk_openings(&claimed), &ch, &fl.caps, &proof);
            st.evals(1);
            if differs {
                st.label("dev:a_opening_batch_missing");
                st.nontrivial(&(fl.shape_hash, "a4", ii));
                if v.accepted() {
                    return Err(format!("claimed openings without the last batch of instance {} ACCEPTED [{}]", ii, fl.describe()));
                }
            } else {
                st.label(&format!("a_opening_batch_missing_no_contribution_{}", v.short()));
            }
        }
    }

    // ---- (d1) proof-of-work rule on the response, all other challenges fixed ----
    {
        let mut lzs: Vec<u32> = vec![0, pow_bits.saturating_sub(1), pow_bits, pow_bits + 1, 63, 64];
        lzs.sort_unstable();
        lzs.dedup();
        for (k, lz) in lzs.into_iter().enumerate() {
            let noise = dev.vals[1 + k % 4];
            let mut r = if lz >= 64 { 0 } else { (1u64 << (63 - lz)) | (noise & ((1u64 << (63 - lz)) - 1)) };
            if r >= P {
                r = P - 1;
            }
            // residue r, optionally in its non-canonical representation r + p
            let repr = if dev.sel[4] & 1 == 1 && r < (1u64 << 32) - 1 { r + P } else { r };
            let mut c2 = clone_challenges(&ch);
            c2.fri_pow_response = plonky2::field::goldilocks_field::GoldilocksField(repr);
            let expect = pow_sufficient(r, pow_bits);
            let v = fl.verify(&op, &c2, &fl.caps, &proof);
            st.evals(1);
            st.label(if expect { "dev:d_response_sufficient" } else { "dev:d_response_insufficient" });
            if repr != r {
                st.label("d_noncanonical_response");
            }
            st.nontrivial(&(fl.shape_hash, "d1", lz));
            if v.accepted() != expect {
                return Err(format!(
                    "proof-of-work rule: response {} (repr {}, {} leading zeros) with pow_bits={} must be {} but verifier said: {} [{}]",
                    r, repr, r.leading_zeros(), pow_bits, if expect { "sufficient" } else { "insufficient" }, v.text(), fl.describe()
                ));
            }
        }
    }
    // ---- (d2) the prover is given a generated witness and continues honestly ----
    for k in 0..2 {
        let w = dev.vals[5 + k] % P;
        let p2 = {
            let _g = KnobGuard;
            set_knobs(Knobs { pow_witness: Some(w), ..Knobs::default() });
            fl.prove_with(&op)
        };
        if p2.pow_witness.to_canonical_u64() != w {
            return Err("harness: pow_witness knob not effective".into());
        }
        let c2 = fl.challenges(&op, &p2);
        let expect = pow_sufficient(c2.fri_pow_response.to_canonical_u64(), pow_bits);
        let v = fl.verify(&op, &c2, &fl.caps, &p2);
        st.evals(1);
        st.label(if expect { "dev:d_grinding_sufficient" } else { "dev:d_grinding_insufficient" });
        st.nontrivial(&(fl.shape_hash, "d2", w));
        if v.accepted() != expect {
            return Err(format!(
                "grinding: witness {} gives response {} ({} leading zeros, pow_bits={}), expected {} but verifier said: {} [{}]",
                w, c2.fri_pow_response.to_canonical_u64(), c2.fri_pow_response.to_canonical_u64().leading_zeros(), pow_bits,
                if expect { "accept" } else { "reject" }, v.text(), fl.describe()
            ));
        }
    }
    // ---- (d3) witness replaced in the honest proof, challenges recomputed honestly ----
    {
        let mut p3 = proof.clone();
        let w = dev.vals[7] % P;
        if w != proof.pow_witness.to_canonical_u64() {
            p3.pow_witness = fb(w);
            let c3 = fl.challenges(&op, &p3);
            let suff = pow_sufficient(c3.fri_pow_response.to_canonical_u64(), pow_bits);
            let v = fl.verify(&op, &c3, &fl.caps, &p3);
            st.evals(1);
            st.label(if suff { "dev:d_replaced_witness_sufficient_recorded" } else { "dev:d_replaced_witness_insufficient" });
            if !suff {
                st.nontrivial(&(fl.shape_hash, "d3", w));
                if v.accepted() {
                    return Err(format!("replaced pow witness {} with insufficient response {} ACCEPTED [{}]", w, c3.fri_pow_response.to_canonical_u64(), fl.describe()));
                }
            } else {
                st.label(&format!("d_replaced_sufficient_{}", v.short()));
            }
        }
    }

    // ---- (e) element edits and shape edits, honest challenges re-used ----
    let sel = selected(params, &ch.fri_query_indices);
    let mut tree = to_tree(&proof);
    {
        let p0: Proof<C> = from_tree(&tree).map_err(|e| format!("proof does not survive its serde tree: {}", e))?;
        let v = fl.verify(&op, &ch, &fl.caps, &p0);
        if !v.accepted() {
            return Err(format!("proof rejected after serde tree round trip: {}", v.text()));
        }
    }
    let leaves = numeric_leaves(&tree);
    st.label(&format!("leaves_log2:{}", (leaves.len() as f64).log2() as usize));
    let mut plan: Vec<(usize, ValueEdit)> = vec![];
    if exhaustive && leaves.len() <= 5000 {
        st.label("e_exhaustive");
        for i in 0..leaves.len() {
            let r = &edits[i % edits.len()];
            plan.push((i, if (i + r.kind as usize) % 2 == 0 { ValueEdit::Plus1 } else { ValueEdit::Set(r.val) }));
        }
    } else {
        for r in edits {
            let i = frac32(r.pos, leaves.len());
            let e = match r.kind % 4 {
                0 => ValueEdit::Plus1,
                1 => ValueEdit::Minus1,
                2 => ValueEdit::Zero,
                _ => ValueEdit::Set(r.val),
            };
            plan.push((i, e));
        }
    }
    for (i, e) in plan {
        let path = &leaves[i];
        let class = class_of(path);
        let modulus = leaf_modulus(path, fl.keccak);
        let old = get(&tree, path).cloned().unwrap();
        if !apply_value_edit(&mut tree, path, e, modulus) {
            continue;
        }
        let res: Result<Proof<C>, String> = from_tree(&tree);
        *get_mut(&mut tree, path).unwrap() = old;
        st.evals(1);
        let p = match res {
            Ok(p) => p,
            Err(_) => {
                st.label("e:not_constructible");
                continue;
            }
        };
        let v = fl.verify(&op, &ch, &fl.caps, &p);
        match locate(path) {
            Where::Pow => {
                st.label(&format!("e_exempt:pow_witness_{}", v.short()));
                continue;
            }
            Where::CommitCap(t, j) if !sel.commit.get(t).map(|s| s.contains(&j)).unwrap_or(false) => {
                st.label(&format!("e_exempt:unselected_commit_cap_{}", v.short()));
                continue;
            }
            _ => {}
        }
        st.label(&format!("e:{}", class));
        if nontrivial {
            st.nontrivial(&(fl.shape_hash, "e", i, e.name()));
        }
        match v {
            Verdict::Accepted => {
                return Err(format!(
                    "edited FRI proof ACCEPTED under fixed challenges: {} at {} edit {:?} (query indices {:?}) [{}]",
                    class, path_string(path), e, ch.fri_query_indices, fl.describe()
                ));
            }
            Verdict::Rejected(_) => {}
            Verdict::Panicked(_) => st.label("e:rejected_by_panic"),
        }
    }
    // initial caps (not part of the FriProof, but part of what the verifier reads)
    {
        let mut ctree = to_tree(&fl.caps);
        let cleaves = numeric_leaves(&ctree);
        let modulus = if fl.keccak { 256 } else { P };
        let n = if exhaustive { cleaves.len() } else { cleaves.len().min(6) };
        for k in 0..n {
            let i = if exhaustive { k } else { frac32(edits[k % edits.len()].pos.rotate_left(7), cleaves.len()) };
            let path = &cleaves[i];
            let old = get(&ctree, path).cloned().unwrap();
            if !apply_value_edit(&mut ctree, path, ValueEdit::Set(edits[k % edits.len()].val), modulus) {
                continue;
            }
            let res: Result<Vec<Cap<C>>, String> = from_tree(&ctree);
            *get_mut(&mut ctree, path).unwrap() = old;
            let Ok(caps2) = res else { continue };
            let v = fl.verify(&op, &ch, &caps2, &proof);
            st.evals(1);
            let j = match path.get(1) {
                Some(Seg::Idx(j)) => *j,
                _ => usize::MAX,
            };
            if !sel.initial.contains(&j) {
                st.label(&format!("e_exempt:unselected_initial_cap_{}", v.short()));
                continue;
            }
            st.label("e:initial_caps");
            st.nontrivial(&(fl.shape_hash, "ecap", i));
            if v.accepted() {
                return Err(format!("edited initial cap ACCEPTED under fixed challenges: {} (query indices {:?}) [{}]", path_string(path), ch.fri_query_indices, fl.describe()));
            }
        }
    }
    // shape edits
    {
        let conts = containers(&tree);
        let mut plan: Vec<(usize, ShapeEdit)> = vec![];
        if exhaustive && conts.len() <= 2500 {
            for i in 0..conts.len() {
                for e in ShapeEdit::ALL {
                    plan.push((i, e));
                }
            }
        } else {
            for r in edits.iter().take(edits.len() / 3 + 1) {
                plan.push((frac32(r.pos.rotate_left(13), conts.len()), ShapeEdit::ALL[(r.kind as usize >> 2) % 4]));
            }
            // the top-level lists are always tried
            for (i, (p, _, _)) in conts.iter().enumerate() {
                if p.len() <= 2 {
                    plan.push((i, ShapeEdit::DropLast));
                    plan.push((i, ShapeEdit::DupLast));
                }
            }
        }
        for (i, e) in plan {
            let (path, _, _) = &conts[i];
            let class = class_of(path);
            let old = get(&tree, path).cloned().unwrap();
            if !edit_shape(&mut tree, path, e) {
                continue;
            }
            let res: Result<Proof<C>, String> = from_tree(&tree);
            *get_mut(&mut tree, path).unwrap() = old;
            st.evals(1);
            let p = match res {
                Ok(p) => p,
                Err(_) => {
                    st.label("shape:not_constructible");
                    continue;
                }
            };
            let v = fl.verify(&op, &ch, &fl.caps, &p);
            if class == "commit_phase_merkle_caps" && e == ShapeEdit::DupLast {
                // a surplus trailing cap is never indexed by the verifier: only shape validation can reject it
                st.label("shape:surplus_commit_cap");
            }
            st.label(&format!("shape:{}", if class.is_empty() { "root" } else { class.as_str() }));
            if nontrivial {
                st.nontrivial(&(fl.shape_hash, "shape", i, e.name()));
            }
            match v {
                Verdict::Accepted => {
                    return Err(format!(
                        "shape-edited FRI proof ACCEPTED under fixed challenges: {} at {} edit {} [{}]",
                        class, path_string(path), e.name(), fl.describe()
                    ));
                }
                Verdict::Rejected(_) => {}
                Verdict::Panicked(_) => st.label("shape:rejected_by_panic"),
            }
        }
    }
    Ok((proof, ch))
}

// ------------------------------------------------------------------------------------------
// Single-degree shapes
// ------------------------------------------------------------------------------------------

#[derive(Clone, Debug, Serialize, Deserialize, PartialEq, Eq, Hash)]
pub struct Shape {
    pub keccak: bool,
    pub d: usize,
    pub oracles: Vec<RawOracle>,
    pub batches: Vec<RawBatch>,
    pub fri: RawFri,
}

fn shape_strat(max_d: usize) -> BoxedStrategy<Shape> {
    bx(prop_oneof![1 => 1usize..=2, 4 => 3usize..=max_d].prop_flat_map(|d| {
        let n = 1usize << d;
        (
            prop::bool::weighted(0.25),
            prop::collection::vec((prop::collection::vec(poly_strat(n), 1..=6), any::<bool>()), 1..=4),
            prop::collection::vec(raw_batch(), 1..=3),
            raw_fri(),
        )
            .prop_map(move |(keccak, oracles, batches, fri)| Shape {
                keccak,
                d,
                oracles: oracles.into_iter().map(|(polys, blinding)| RawOracle { polys, blinding }).collect(),
                batches,
                fri,
            })
    }))
}

/// Which polynomials a batch opens: a non-empty subset of `all`, in oracle order or reversed.
fn batch_polys(b: &RawBatch, all: &[(usize, usize)]) -> Vec<FriPolynomialInfo> {
    let mut v: Vec<(usize, usize)> = all.iter().enumerate().filter(|(k, _)| b.mask >> (k % 32) & 1 == 1).map(|(_, &x)| x).collect();
    if v.is_empty() {
        v.push(all[frac32(b.mask, all.len())]);
    }
    if b.rev {
        v.reverse();
    }
    v.into_iter().map(|(oracle_index, polynomial_index)| FriPolynomialInfo { oracle_index, polynomial_index }).collect()
}

/// The point of one opening batch: generated, structured or drawn from the transcript; repaired
/// so that it is outside the subgroup and the LDE coset.
fn batch_point<C: GenericConfig<D, F = F>>(b: &RawBatch, ch: &mut Chal<C>, lde_bits: usize) -> ([u64; 2], bool) {
    let p = match b.mode {
        1 => raw(ch.get_extension_challenge::<D>()),
        2 => [b.point[0], 0],
        3 => {
            let w = ref_pow(root_g(lde_bits), b.point[0] % (1u64 << lde_bits));
            let w = if b.point[1] & 1 == 1 { w.mul(G(MULT_GEN)) } else { w };
            [w.0, 0]
        }
        _ => b.point,
    };
    repair_point(p, lde_bits)
}

/// The combined polynomial `sum_i alpha^{k_i} (F_i(X) - F_i(z_i)) / (X - z_i)` exactly as the
/// honest prover forms it (this is the deviating prover's own arithmetic, not an oracle).
fn combined(batches: &[FriBatchInfo<F, D>], polys: &[Vec<PolynomialCoeffs<F>>], alpha: FE) -> PolynomialCoeffs<FE> {
    let mut alpha = ReducingFactor::new(alpha);
    let mut final_poly = PolynomialCoeffs::empty();
    for FriBatchInfo { point, polynomials } in batches {
        let polys_coeff = polynomials.iter().map(|p| &polys[p.oracle_index][p.polynomial_index]);
        let composition_poly = alpha.reduce_polys_base::<F, D>(polys_coeff);
        let mut quotient = composition_poly.divide_by_linear(*point);
        quotient.coeffs.push(FE::ZERO);
        alpha.shift_poly(&mut final_poly);
        final_poly += quotient;
    }
    final_poly
}

/// The harness' own FRI prover for one combined polynomial (commit phase, grinding, query phase):
/// the protocol of `fri_proof`, written out again so that a deviating prover can commit a chosen
/// layer to other values, or send another final polynomial, while every Merkle path and the
/// transcript stay valid. `layer = Some(j)`: the values committed in reduction layer `j` differ at
/// every position from the fold of layer `j-1`; `final_coeff = Some(k)`: coefficient `k` of the
/// final polynomial differs.
fn adv_fri_proof<C: GenericConfig<D, F = F>>(
    initial: &[&MerkleTree<F, Hs<C>>],
    mut coeffs: PolynomialCoeffs<FE>,
    mut values: PolynomialValues<FE>,
    ch: &mut Chal<C>,
    params: &FriParams,
    pad: (Option<usize>, Option<usize>),
    layer: Option<usize>,
    final_coeff: Option<usize>,
    delta: FE,
) -> Proof<C> {
    let n = values.len();
    let cap_height = params.config.cap_height;
    let mut trees: Vec<MerkleTree<F, Hs<C>>> = vec![];
    let mut shift = F::MULTIPLICATIVE_GROUP_GENERATOR;
    for (j, &a) in params.reduction_arity_bits.iter().enumerate() {
        let arity = 1usize << a;
        if layer == Some(j) {
            for (i, v) in values.values.iter_mut().enumerate() {
                *v += delta * FE::from_canonical_usize(1 + i % 3);
            }
        }
        reverse_index_bits_in_place(&mut values.values);
        let leaves: Vec<Vec<F>> = values.values.chunks(arity).map(|c| flatten::<F, D>(c)).collect();
        let tree = MerkleTree::<F, Hs<C>>::new(leaves, cap_height);
        ch.observe_cap(&tree.cap);
        trees.push(tree);
        let beta = ch.get_extension_challenge::<D>();
        coeffs = PolynomialCoeffs::new(
            coeffs
                .coeffs
                .chunks_exact(arity)
                .map(|c| {
                    let mut acc = FE::ZERO;
                    for &x in c.iter().rev() {
                        acc = acc * beta + x;
                    }
                    acc
                })
                .collect(),
        );
        shift = shift.exp_u64(arity as u64);
        values = coeffs.coset_fft(shift.into());
    }
    if let Some(step_count) = pad.1 {
        let zero_cap = vec![F::ZERO; (1 << cap_height) * 4];
        for _ in params.reduction_arity_bits.len()..step_count {
            ch.observe_elements(&zero_cap);
            ch.get_extension_challenge::<D>();
        }
    }
    let keep = coeffs.len() >> params.config.rate_bits;
    coeffs.coeffs.truncate(keep);
    if let Some(k) = final_coeff {
        coeffs.coeffs[k % keep] += delta;
    }
    ch.observe_extension_elements::<D>(&coeffs.coeffs);
    if let Some(len) = pad.0 {
        for _ in coeffs.coeffs.len()..len {
            ch.observe_extension_element::<D>(&FE::ZERO);
        }
    }
    // grinding: smallest witness whose response is sufficient
    let mut w = 0u64;
    let pow_witness = loop {
        let mut c2 = ch.clone();
        c2.observe_element(fb(w));
        if pow_sufficient(c2.get_challenge().to_canonical_u64(), params.config.proof_of_work_bits) {
            break fb(w);
        }
        w += 1;
    };
    ch.observe_element(pow_witness);
    let _ = ch.get_challenge();
    let query_round_proofs = ch
        .get_n_challenges(params.config.num_query_rounds)
        .into_iter()
        .map(|r| {
            let mut x = r.to_canonical_u64() as usize % n;
            let evals_proofs = initial.iter().map(|t| (t.get(x).to_vec(), t.prove(x))).collect();
            let mut steps = vec![];
            for (t, &a) in trees.iter().zip(&params.reduction_arity_bits) {
                x >>= a;
                steps.push(FriQueryStep { evals: unflatten::<F, D>(t.get(x)), merkle_proof: t.prove(x) });
            }
            FriQueryRound { initial_trees_proof: FriInitialTreeProof { evals_proofs }, steps }
        })
        .collect();
    FriProof { commit_phase_merkle_caps: trees.iter().map(|t| t.cap.clone()).collect(), query_round_proofs, final_poly: coeffs, pow_witness }
}

#[derive(Clone, Debug, Serialize, Deserialize)]
pub struct Case {
    pub shape: Shape,
    pub dev: RawDev,
    pub edits: Vec<RawEdit>,
    pub exhaustive: bool,
}

fn case_strat(max_d: usize, n_edits: usize, exhaustive: bool) -> BoxedStrategy<Case> {
    bx((shape_strat(max_d), raw_dev(), prop::collection::vec(raw_edit(), n_edits..=n_edits)).prop_map(move |(shape, dev, edits)| Case { shape, dev, edits, exhaustive }))
}

struct SingleSetup<C: GenericConfig<D, F = F>> {
    params: FriParams,
    oracles: Vec<PolynomialBatch<F, C, D>>,
    infos: Vec<FriOracleInfo>,
    batch_lists: Vec<Vec<FriPolynomialInfo>>,
}

fn single_setup<C: GenericConfig<D, F = F>>(s: &Shape, polys: &[Vec<PolynomialCoeffs<F>>], st: &mut Stats) -> SingleSetup<C> {
    let params = elab_fri(&s.fri, s.d);
    let mut timing = TimingTree::default();
    let oracles: Vec<PolynomialBatch<F, C, D>> = s
        .oracles
        .iter()
        .zip(polys)
        .map(|(o, p)| {
            PolynomialBatch::from_coeffs(p.clone(), params.config.rate_bits, params.hiding && o.blinding, params.config.cap_height, &mut timing, None)
        })
        .collect();
    let infos: Vec<FriOracleInfo> = s.oracles.iter().map(|o| FriOracleInfo { num_polys: o.polys.len(), blinding: o.blinding }).collect();
    let all: Vec<(usize, usize)> = s.oracles.iter().enumerate().flat_map(|(oi, o)| (0..o.polys.len()).map(move |pi| (oi, pi))).collect();
    let batch_lists: Vec<Vec<FriPolynomialInfo>> = s.batches.iter().map(|b| batch_polys(b, &all)).collect();
    st.label(&format!("oracles:{}", s.oracles.len()));
    st.label(&format!("opening_batches:{}", s.batches.len()));
    if params.hiding && s.oracles.iter().any(|o| o.blinding) {
        st.label("salted_oracle");
    }
    SingleSetup { params, oracles, infos, batch_lists }
}

fn to_coeffs(v: &[u64]) -> PolynomialCoeffs<F> {
    PolynomialCoeffs::new(v.iter().map(|&x| fb(x)).collect())
}

fn single_case<C: GenericConfig<D, F = F>>(c: &Case, st: &mut Stats) -> Result<(), String> {
    let s = &c.shape;
    let dev = &c.dev;
    let polys: Vec<Vec<PolynomialCoeffs<F>>> = s.oracles.iter().map(|o| o.polys.iter().map(|p| to_coeffs(p)).collect()).collect();
    let su = single_setup::<C>(s, &polys, st);
    let params = su.params.clone();
    let lde_bits = params.lde_bits();
    let caps: Vec<Cap<C>> = su.oracles.iter().map(|o| o.merkle_tree.cap.clone()).collect();
    // transcript prefix: parameters, caps, then the opening points
    let prefix = |points: &mut Vec<[u64; 2]>, repaired: &mut usize| -> Chal<C> {
        let mut ch = Chal::<C>::new();
        params.observe(&mut ch);
        for cap in &caps {
            ch.observe_cap(cap);
        }
        for b in &s.batches {
            let (p, r) = batch_point::<C>(b, &mut ch, lde_bits);
            points.push(p);
            *repaired += r as usize;
        }
        ch
    };
    let mut points = vec![];
    let mut repaired = 0;
    let _ = prefix(&mut points, &mut repaired);
    st.label_n("point_repaired", repaired as u64);
    for b in &s.batches {
        st.label(&format!("point_mode:{}", b.mode));
    }
    let instance = FriInstanceInfo {
        oracles: su.infos.clone(),
        batches: points.iter().zip(&su.batch_lists).map(|(&p, l)| FriBatchInfo { point: fe(p), polynomials: l.clone() }).collect(),
    };
    // reference openings
    let truth: Openings = vec![points
        .iter()
        .zip(&su.batch_lists)
        .map(|(&z, l)| l.iter().map(|pi| ref_open(&s.oracles[pi.oracle_index].polys[pi.polynomial_index], z)).collect())
        .collect()];
    let pad = pad_of(&s.fri, &params);
    if pad.0.is_some() {
        st.label("transcript_padding");
    }
    let oracle_refs: Vec<&PolynomialBatch<F, C, D>> = su.oracles.iter().collect();
    let points_ref = &points;
    let fl: Flow<C> = Flow {
        single: true,
        degree_bits: vec![s.d],
        instances: vec![instance.clone()],
        params: params.clone(),
        caps: caps.clone(),
        pad,
        replay: Box::new(|| {
            let mut pts = vec![];
            let mut rep = 0;
            let ch = prefix(&mut pts, &mut rep);
            assert_eq!(&pts, points_ref, "harness: transcript replay drew other points");
            ch
        }),
        prove: Box::new(|ch| {
            let mut timing = TimingTree::default();
            PolynomialBatch::<F, C, D>::prove_openings(&instance, &oracle_refs, ch, &params, pad.0, pad.1, &mut timing)
        }),
        keccak: s.keccak,
        shape_hash: hash_of(s),
        raw_polys: s.oracles.iter().map(|o| o.polys.iter().collect()).collect(),
    };
    let (proof, _ch) = common_devs(&fl, &truth, dev, &c.edits, c.exhaustive, st)?;

    // ---- (b) first layer / folded coefficients inconsistent (needs a reduction layer) ----
    if fl.reductions() >= 1 {
        let op = mk_openings(&truth);
        let trees: Vec<&MerkleTree<F, Hs<C>>> = su.oracles.iter().map(|o| &o.merkle_tree).collect();
        let start = || -> (Chal<C>, PolynomialCoeffs<FE>, PolynomialValues<FE>) {
            let mut ch = fl.after_openings(&op);
            let alpha = ch.get_extension_challenge::<D>();
            let comb = combined(&instance.batches, &polys, alpha);
            let lde_coeffs = comb.lde(params.config.rate_bits);
            let lde_values = lde_coeffs.coset_fft(F::coset_shift().into());
            (ch, lde_coeffs, lde_values)
        };
        let run = |ch: &mut Chal<C>, co: PolynomialCoeffs<FE>, va: PolynomialValues<FE>| -> (Proof<C>, FriChallenges<F, D>, Verdict) {
            let mut timing = TimingTree::default();
            let p = fri_proof::<F, C, D>(&trees, co, va, ch, &params, pad.0, pad.1, &mut timing);
            let c = fl.challenges(&op, &p);
            let v = fl.verify(&op, &c, &fl.caps, &p);
            (p, c, v)
        };
        // (b0) the replica with honest inputs reproduces the prover's commitments
        {
            let (mut ch, co, va) = start();
            let (p, _, v) = run(&mut ch, co, va);
            if p.commit_phase_merkle_caps != proof.commit_phase_merkle_caps || p.final_poly != proof.final_poly {
                return Err(format!("harness replica of prove_openings disagrees with the prover's commitments [{}]", fl.describe()));
            }
            if !v.accepted() {
                return Err(format!("honest fri_proof over the combined polynomial not accepted: {} [{}]", v.text(), fl.describe()));
            }
        }
        let delta = fe([nonzero(dev.vals[8]), dev.vals[9]]);
        let n = 1usize << lde_bits;
        let a0 = params.reduction_arity_bits[0];
        // (b1) every committed first-layer value differs from the combined polynomial's evaluation
        {
            let (mut ch, co, mut va) = start();
            for (i, v) in va.values.iter_mut().enumerate() {
                *v += delta * FE::from_canonical_usize(1 + i % 3);
            }
            let (_, _, v) = run(&mut ch, co, va);
            st.evals(1);
            st.label("dev:b_first_layer_all_positions");
            st.nontrivial(&(fl.shape_hash, "b1"));
            if v.accepted() {
                return Err(format!("first layer committed to other values (all positions) ACCEPTED [{}]", fl.describe()));
            }
        }
        // (b2) a few positions differ: rejected iff some query's first-layer coset holds one
        {
            let (mut ch, co, mut va) = start();
            let k = 1 + (dev.sel[5] as usize % 3);
            let mut touched = BTreeSet::new();
            for j in 0..k {
                let i = frac(dev.sel[6 + j], n);
                va.values[i] += delta;
                if touched.contains(&i) {
                    va.values[i] += delta; // keep the perturbation non-zero when the same index is drawn twice (char != 2, 3)
                }
                touched.insert(i);
            }
            let cosets: BTreeSet<usize> = touched.iter().map(|&i| bitrev(i, lde_bits) >> a0).collect();
            let (_, c, v) = run(&mut ch, co, va);
            let hit = c.fri_query_indices.iter().any(|&x| cosets.contains(&(x >> a0)));
            st.evals(1);
            st.label(if hit { "dev:b_first_layer_few_positions_queried" } else { "dev:b_first_layer_few_positions_unqueried_recorded" });
            if hit {
                st.nontrivial(&(fl.shape_hash, "b2", touched.iter().next().copied()));
                if v.accepted() {
                    return Err(format!(
                        "first layer differs at natural indices {:?} (cosets {:?}), queried by {:?}, but ACCEPTED [{}]",
                        touched, cosets, c.fri_query_indices, fl.describe()
                    ));
                }
            } else {
                st.label(&format!("b_unqueried_{}", v.short()));
            }
        }
        // (b3) honest first layer, folded coefficients of another polynomial (one low monomial added)
        {
            let (mut ch, mut co, va) = start();
            let k = frac(dev.sel[9], 1usize << s.d);
            co.coeffs[k] += delta;
            let (_, _, v) = run(&mut ch, co, va);
            st.evals(1);
            st.label("dev:b_folded_other_coefficients");
            st.nontrivial(&(fl.shape_hash, "b3", k));
            if v.accepted() {
                return Err(format!("layers folded from other coefficients (monomial {} added) ACCEPTED [{}]", k, fl.describe()));
            }
        }
        // (b4)/(b5) the harness' own prover: valid Merkle paths and transcript, but one deeper layer is
        // committed to other values / another final polynomial is sent
        {
            let adv = |layer: Option<usize>, final_coeff: Option<usize>| -> (Proof<C>, Verdict) {
                let (mut ch, co, va) = start();
                let p = adv_fri_proof::<C>(&trees, co, va, &mut ch, &params, pad, layer, final_coeff, delta);
                let c = fl.challenges(&op, &p);
                let v = fl.verify(&op, &c, &fl.caps, &p);
                (p, v)
            };
            let (p, v) = adv(None, None);
            if p.commit_phase_merkle_caps != proof.commit_phase_merkle_caps || p.final_poly != proof.final_poly {
                return Err(format!("harness prover disagrees with the library prover's commitments [{}]", fl.describe()));
            }
            if !v.accepted() {
                return Err(format!("honest proof by the harness' own prover not accepted: {} [{}]", v.text(), fl.describe()));
            }
            st.label("dev:honest_harness_prover");
            let r = fl.reductions();
            if r >= 2 {
                let j = 1 + frac(dev.sel[10], r - 1);
                let (_, v) = adv(Some(j), None);
                st.evals(1);
                st.label("dev:b_deeper_layer_other_values");
                st.label(&format!("b_deeper_layer:{}_of_{}", j, r));
                st.nontrivial(&(fl.shape_hash, "b4", j));
                if v.accepted() {
                    return Err(format!("reduction layer {} committed to values that are not the fold of layer {} ACCEPTED [{}]", j, j - 1, fl.describe()));
                }
            }
            let k = frac(dev.sel[11], params.final_poly_len());
            let (_, v) = adv(None, Some(k));
            st.evals(1);
            st.label("dev:b_other_final_polynomial");
            st.nontrivial(&(fl.shape_hash, "b5", k));
            if v.accepted() {
                return Err(format!("final polynomial with coefficient {} changed (transcript-consistent) ACCEPTED [{}]", k, fl.describe()));
            }
        }
    } else {
        st.label("b_skipped_no_reduction");
    }
    st.sample(|| json!({"shape": fl.describe(), "points": points, "leaves": numeric_leaves(&to_tree(&proof)).len()}));
    Ok(())
}

fn single_prop(c: &Case, st: &mut Stats) -> Result<(), String> {
    with_config!(c.shape.keccak, single_case, c, st)
}

// ------------------------------------------------------------------------------------------
// (c) functions of degree >= 2^d folded honestly
// ------------------------------------------------------------------------------------------

#[derive(Clone, Debug, Serialize, Deserialize)]
pub struct HighCase {
    pub shape: Shape,
    /// general mode: (selector of an opened polynomial, selector of a high coefficient, value)
    pub high: Vec<(u16, u16, u64)>,
    /// crafted mode (single polynomial, single batch, base-field point): the committed function
    /// is `P'(X) (X - z) + c` where the high part of `P'` vanishes on the preimages of a chosen
    /// set of final-domain points
    pub crafted: bool,
    pub vanish_frac: u16,
    pub vanish_picks: Vec<u16>,
    pub scalar: u64,
    pub constant: u64,
}

fn high_strat(max_d: usize) -> BoxedStrategy<HighCase> {
    bx((
        shape_strat(max_d),
        prop::collection::vec((any::<u16>(), any::<u16>(), canonical()), 1..=4),
        prop::bool::weighted(0.4),
        any::<u16>(),
        prop::collection::vec(any::<u16>(), 64..=64),
        canonical(),
        canonical(),
    )
        .prop_map(|(shape, high, crafted, vanish_frac, vanish_picks, scalar, constant)| HighCase { shape, high, crafted, vanish_frac, vanish_picks, scalar, constant }))
}

/// Textbook polynomial product over the reference field.
fn ref_mul(a: &[G], b: &[G]) -> Vec<G> {
    let mut out = vec![G(0); a.len() + b.len() - 1];
    for (i, &x) in a.iter().enumerate() {
        for (j, &y) in b.iter().enumerate() {
            out[i + j] = out[i + j].add(x.mul(y));
        }
    }
    out
}

/// A literal `PolynomialBatch` over arbitrary committed functions given by `2^(d+rate)`
/// coefficients each (no low-degree extension step): what a prover that ignores the degree bound
/// would commit to.
fn literal_oracle<C: GenericConfig<D, F = F>>(polys: &[Vec<u64>], d: usize, rate_bits: usize, cap_height: usize, salted: bool) -> PolynomialBatch<F, C, D> {
    let coeffs: Vec<PolynomialCoeffs<F>> = polys.iter().map(|p| to_coeffs(p)).collect();
    let n = 1usize << (d + rate_bits);
    let mut cols: Vec<Vec<F>> = coeffs.iter().map(|p| p.coset_fft(F::coset_shift()).values).collect();
    if salted {
        for c in 0..4u64 {
            cols.push((0..n as u64).map(|i| fb(i * 0x9E37_79B9 + c * 77 + 5)).collect());
        }
    }
    let mut leaves = transpose(&cols);
    reverse_index_bits_in_place(&mut leaves);
    PolynomialBatch { polynomials: coeffs, merkle_tree: MerkleTree::new(leaves, cap_height), degree_log: d, rate_bits, blinding: salted }
}

fn high_case<C: GenericConfig<D, F = F>>(c: &HighCase, st: &mut Stats) -> Result<(), String> {
    let mut s = c.shape.clone();
    let d = s.d;
    if c.crafted {
        // one polynomial, one batch, base-field point; sizes kept small (the construction is quadratic)
        s.oracles.truncate(1);
        s.oracles[0].polys.truncate(1);
        s.batches.truncate(1);
        s.batches[0].mode = 2;
    }
    let params = elab_fri(&s.fri, d);
    check_params(&params)?;
    let rate = params.config.rate_bits;
    let lde_bits = d + rate;
    let n = 1usize << lde_bits;
    let low_n = 1usize << d;
    let total: usize = params.reduction_arity_bits.iter().sum();
    let final_len = 1usize << (d - total);
    let final_domain_bits = lde_bits - total;
    st.label(strat_label(&params));
    st.label(&format!("reductions:{}", params.reduction_arity_bits.len()));
    st.label(if params.hiding { "hiding:yes" } else { "hiding:no" });

    // the committed functions: 2^(d+rate) coefficients each
    let mut full: Vec<Vec<Vec<u64>>> = s.oracles.iter().map(|o| o.polys.iter().map(|p| { let mut v = p.clone(); v.resize(n, 0); v }).collect()).collect();
    let all: Vec<(usize, usize)> = s.oracles.iter().enumerate().flat_map(|(oi, o)| (0..o.polys.len()).map(move |pi| (oi, pi))).collect();
    let batch_lists: Vec<Vec<FriPolynomialInfo>> = s.batches.iter().map(|b| batch_polys(b, &all)).collect();
    let opened: Vec<(usize, usize)> = batch_lists.iter().flatten().map(|p| (p.oracle_index, p.polynomial_index)).collect();

    // sanity of the literal builder: on the low-degree functions it reproduces from_coeffs' cap
    {
        let o = &s.oracles[0];
        let lit = literal_oracle::<C>(&full[0], d, rate, params.config.cap_height, false);
        let mut timing = TimingTree::default();
        let lib = PolynomialBatch::<F, C, D>::from_coeffs(o.polys.iter().map(|p| to_coeffs(p)).collect(), rate, false, params.config.cap_height, &mut timing, None);
        if lit.merkle_tree.cap != lib.merkle_tree.cap {
            return Err("harness: literal oracle builder disagrees with from_coeffs on low-degree input".into());
        }
    }

    let mut vanish_idx: BTreeSet<usize> = BTreeSet::new();
    let mut crafted_point = [0u64; 2];
    if c.crafted {
        // z: repaired base-field point (no transcript dependence)
        let (z, _) = repair_point([s.batches[0].point[0], 0], lde_bits);
        crafted_point = z;
        // final-domain points y_t = (g w^bitrev(t))^(2^total) for a chosen index set; each index t of the final
        // domain (bit-reversed order, as the verifier's x_index >> total) stands for a whole preimage coset
        let nf = 1usize << final_domain_bits;
        let max_m = (n - 2 - low_n) >> total; // deg(high part) = 2^d + m 2^total <= n - 2
        let m = frac(c.vanish_frac, max_m + 1);
        let start = frac(c.vanish_picks[0], nf);
        let stride = (c.vanish_picks[1] as usize) | 1; // odd stride: a permutation of the final domain
        for k in 0..m {
            vanish_idx.insert((start + k * stride) % nf);
        }
        let g = G(MULT_GEN);
        let w = root_g(lde_bits);
        // V(Y) = prod_t (Y - y_t), y_t = (g w^rev(t))^(2^total): bitrev(t << total, lde_bits) = rev(t, final_domain_bits)
        let mut v = vec![G(1)];
        for &t in &vanish_idx {
            let xq = g.mul(ref_pow(w, bitrev(t << total, lde_bits) as u64));
            let y = sq_n(xq, total);
            v = ref_mul(&v, &[y.neg(), G(1)]);
        }
        // P' = low + scalar * X^(2^d) * V(X^(2^total))
        let mut pp = vec![G(0); n];
        for (k, &cf) in s.oracles[0].polys[0].iter().enumerate() {
            pp[k] = G(cf % P);
        }
        let sc = G(nonzero(c.scalar));
        for (k, &vk) in v.iter().enumerate() {
            pp[low_n + (k << total)] = sc.mul(vk);
        }
        // f = P' (X - z) + c  (degree <= n - 1 because deg P' <= n - 2)
        let f = ref_mul(&pp[..n - 1], &[G(z[0]).neg(), G(1)]);
        let mut f: Vec<u64> = f.iter().map(|x| x.0).collect();
        f[0] = G(f[0]).add(G(c.constant % P)).0;
        f.resize(n, 0);
        full[0][0] = f;
        st.label("c_mode:crafted");
        st.label(&format!("c_vanish_cosets:{}", if vanish_idx.is_empty() { "0" } else if vanish_idx.len() <= 4 { "1-4" } else { "5+" }));
    } else {
        for &(ps, ks, val) in &c.high {
            let (oi, pi) = opened[frac(ps, opened.len())];
            let k = low_n + frac(ks, n - low_n);
            full[oi][pi][k] = nonzero(val);
        }
        st.label("c_mode:generated_high_coefficients");
    }

    let salted: Vec<bool> = s.oracles.iter().map(|o| params.hiding && o.blinding).collect();
    let oracles: Vec<PolynomialBatch<F, C, D>> = full.iter().zip(&salted).map(|(p, &sa)| literal_oracle::<C>(p, d, rate, params.config.cap_height, sa)).collect();
    let caps: Vec<Cap<C>> = oracles.iter().map(|o| o.merkle_tree.cap.clone()).collect();
    let infos: Vec<FriOracleInfo> = s.oracles.iter().map(|o| FriOracleInfo { num_polys: o.polys.len(), blinding: o.blinding }).collect();
    let prefix = |points: &mut Vec<[u64; 2]>| -> Chal<C> {
        let mut ch = Chal::<C>::new();
        params.observe(&mut ch);
        for cap in &caps {
            ch.observe_cap(cap);
        }
        for b in &s.batches {
            let (p, _) = if c.crafted { (crafted_point, false) } else { batch_point::<C>(b, &mut ch, lde_bits) };
            points.push(p);
        }
        ch
    };
    let mut points = vec![];
    let ch0 = prefix(&mut points);
    let instance = FriInstanceInfo {
        oracles: infos,
        batches: points.iter().zip(&batch_lists).map(|(&p, l)| FriBatchInfo { point: fe(p), polynomials: l.clone() }).collect(),
    };
    // the claimed openings are the true evaluations of the committed (high-degree) functions
    let truth: Openings = vec![points.iter().zip(&batch_lists).map(|(&z, l)| l.iter().map(|pi| ref_open(&full[pi.oracle_index][pi.polynomial_index], z)).collect()).collect()];
    let op = mk_openings(&truth);
    let mut ch = ch0;
    ch.observe_openings(&op[0]);
    let alpha = ch.get_extension_challenge::<D>();
    let poly_coeffs: Vec<Vec<PolynomialCoeffs<F>>> = oracles.iter().map(|o| o.polynomials.clone()).collect();
    let comb = combined(&instance.batches, &poly_coeffs, alpha);
    if comb.len() != n {
        return Err(format!("harness: combined polynomial has {} coefficients, expected {}", comb.len(), n));
    }
    let values = comb.coset_fft(F::coset_shift().into());
    let trees: Vec<&MerkleTree<F, Hs<C>>> = oracles.iter().map(|o| &o.merkle_tree).collect();
    let mut timing = TimingTree::default();
    let comb_ref: Vec<G2> = comb.coeffs.iter().map(|&x| g2(x)).collect();
    let proof = fri_proof::<F, C, D>(&trees, comb, values, &mut ch, &params, None, None, &mut timing);
    // verifier side: fresh challenger
    let mut pts2 = vec![];
    let mut vch = prefix(&mut pts2);
    if pts2 != points {
        return Err("harness: transcript replay drew other points".into());
    }
    vch.observe_openings(&op[0]);
    let chal = vch.fri_challenges::<C, D>(&proof.commit_phase_merkle_caps, &proof.final_poly, proof.pow_witness, d, &params.config, None, None);
    let verdict = match catch(|| verify_fri_proof::<F, C, D>(&instance, &op[0], &chal, &caps, &proof, &params)) {
        Ok(Ok(())) => Verdict::Accepted,
        Ok(Err(e)) => Verdict::Rejected(format!("{:#}", e)),
        Err(p) => Verdict::Panicked(p),
    };

    // ---- exact prediction: reference fold of the combined polynomial, truncated part D, D(y_q) ----
    let mut cur = comb_ref;
    for (&a, &beta) in params.reduction_arity_bits.iter().zip(&chal.fri_betas) {
        let ar = 1usize << a;
        let b = g2(beta);
        cur = cur
            .chunks(ar)
            .map(|ch| {
                let mut acc = G2::zero();
                let mut bp = G2::one();
                for &cf in ch {
                    acc = acc.add(cf.mul(bp));
                    bp = bp.mul(b);
                }
                acc
            })
            .collect();
    }
    let mut dropped = cur.clone();
    for x in dropped.iter_mut().take(final_len) {
        *x = G2::zero();
    }
    let high_nonzero = dropped.iter().any(|x| !x.is_zero());
    let g = G(MULT_GEN);
    let w = root_g(lde_bits);
    let mut detecting = 0usize;
    let mut in_vanish = 0usize;
    for &x_index in &chal.fri_query_indices {
        let x = g.mul(ref_pow(w, bitrev(x_index, lde_bits) as u64));
        let y = sq_n(x, total);
        let dv = horner(&dropped, G2([y, G(0)]));
        if !dv.is_zero() {
            detecting += 1;
        }
        if vanish_idx.contains(&(x_index >> total)) {
            in_vanish += 1;
            if !dv.is_zero() {
                return Err(format!("harness: crafted high part does not vanish at final-domain index {}", x_index >> total));
            }
        }
    }
    st.evals(1);
    let nontrivial = !params.reduction_arity_bits.is_empty();
    if !high_nonzero {
        st.label("c_high_part_folded_to_zero_recorded");
        return Ok(());
    }
    if detecting > 0 {
        st.label("dev:c_high_degree_detected_by_some_query");
        if nontrivial {
            st.nontrivial(&(hash_of(&c.shape), "c", c.crafted, vanish_idx.len(), detecting));
        } else {
            st.label("c_no_reduction_layer");
        }
        if verdict.accepted() {
            return Err(format!(
                "function of degree >= 2^{} ACCEPTED although {} of {} queries hit a point where the truncated part is non-zero (crafted={}, query indices {:?}, arities {:?}, rate {}, cap {}, hiding {}, keccak {})",
                d, detecting, chal.fri_query_indices.len(), c.crafted, chal.fri_query_indices, params.reduction_arity_bits, rate, params.config.cap_height, params.hiding, s.keccak
            ));
        }
    } else {
        // every query landed where the truncated part vanishes: FRI's soundness error, outcome recorded
        st.label(&format!("c_all_queries_in_vanishing_set_{}", verdict.short()));
        let _ = in_vanish;
    }
    st.sample(|| json!({"d": d, "rate": rate, "arities": params.reduction_arity_bits, "crafted": c.crafted, "vanishing_cosets": vanish_idx.len(), "queries": chal.fri_query_indices.len(), "detecting": detecting}));
    Ok(())
}

fn high_prop(c: &HighCase, st: &mut Stats) -> Result<(), String> {
    with_config!(c.shape.keccak, high_case, c, st)
}

// ------------------------------------------------------------------------------------------
// Batched variant (polynomials of different degrees)
// ------------------------------------------------------------------------------------------

#[derive(Clone, Debug, Serialize, Deserialize, PartialEq, Eq, Hash)]
pub struct BatchShape {
    pub keccak: bool,
    /// distinct degree bits, descending
    pub degrees: Vec<usize>,
    /// oracle -> degree group -> polynomials (coefficients, 2^degree each)
    pub oracles: Vec<Vec<Vec<Vec<u64>>>>,
    /// instance (degree group) -> opening batches
    pub batches: Vec<Vec<RawBatch>>,
    pub rate_bits: usize,
    pub cap_height: usize,
    pub pow_bits: u32,
    pub queries: usize,
    /// how each gap between consecutive degrees is split into arities, then trailing reductions
    pub splits: Vec<u8>,
    pub trailing: Vec<u8>,
    pub constant_arity: bool,
    pub final_bits: u8,
}

#[derive(Clone, Debug, Serialize, Deserialize)]
pub struct BatchCase {
    pub shape: BatchShape,
    pub dev: RawDev,
    pub edits: Vec<RawEdit>,
    pub exhaustive: bool,
}

fn batch_strat(n_edits: usize, exhaustive: bool) -> BoxedStrategy<BatchCase> {
    let degs = prop::collection::btree_set(1usize..=7, 1..=3).prop_map(|s| s.into_iter().rev().collect::<Vec<usize>>());
    let shape = degs.prop_flat_map(|degrees| {
        let groups: Vec<BoxedStrategy<Vec<Vec<u64>>>> = degrees.iter().map(|&d| bx(prop::collection::vec(poly_strat(1usize << d), 1..=2))).collect();
        let k = degrees.len();
        (
            (Just(degrees), prop::bool::weighted(0.25), prop::collection::vec(groups, 1..=2)),
            prop::collection::vec(prop::collection::vec(raw_batch(), 1..=2), k..=k),
            (1usize..=3, 0usize..=3, 0u32..=8, 1usize..=10),
            (prop::collection::vec(any::<u8>(), 3..=3), prop::collection::vec(1u8..=3, 0..=3), prop::bool::weighted(0.25), 0u8..=7),
        )
            .prop_map(|((degrees, keccak, oracles), batches, (rate_bits, cap_height, pow_bits, queries), (splits, trailing, constant_arity, final_bits))| BatchShape {
                keccak,
                degrees,
                oracles,
                batches,
                rate_bits,
                cap_height,
                pow_bits,
                queries,
                splits,
                trailing,
                constant_arity,
                final_bits,
            })
    });
    bx((shape, raw_dev(), prop::collection::vec(raw_edit(), n_edits..=n_edits)).prop_map(move |(shape, dev, edits)| BatchCase { shape, dev, edits, exhaustive }))
}

/// Parameters for the batched variant. Preconditions read from `batch_fri_proof` and
/// `BatchMerkleTree::new`: strictly decreasing degrees, each smaller degree reached exactly by
/// the cumulative arity, cap height at most the smallest LDE height, no salts.
fn elab_batch_params(s: &BatchShape) -> FriParams {
    let rate = s.rate_bits;
    let d0 = s.degrees[0];
    let dl = *s.degrees.last().unwrap();
    let cap = s.cap_height.min(dl + rate);
    let strat = if s.constant_arity {
        FriReductionStrategy::ConstantArityBits(1, (s.final_bits as usize).min(dl))
    } else {
        let mut list = vec![];
        for (k, w) in s.degrees.windows(2).enumerate() {
            let gap = w[0] - w[1];
            let first = 1 + (s.splits[k % s.splits.len()] as usize) % gap.min(4);
            let mut rest = gap - first;
            list.push(first);
            while rest > 0 {
                let a = rest.min(3);
                list.push(a);
                rest -= a;
            }
        }
        let budget = dl.min(dl + rate - cap);
        let mut sum = 0;
        for &a in &s.trailing {
            let a = (a as usize).min(budget - sum);
            if a == 0 {
                break;
            }
            list.push(a);
            sum += a;
        }
        FriReductionStrategy::Fixed(list)
    };
    FriConfig { rate_bits: rate, cap_height: cap, proof_of_work_bits: s.pow_bits, reduction_strategy: strat, num_query_rounds: s.queries }.fri_params(d0, false)
}

fn batch_case<C: GenericConfig<D, F = F>>(c: &BatchCase, st: &mut Stats) -> Result<(), String> {
    let s = &c.shape;
    let params = elab_batch_params(s);
    let k = s.degrees.len();
    let lde_bits = params.lde_bits();
    st.label(&format!("batch_degrees:{}", k));
    // every smaller degree must be met by the cumulative arity (harness precondition check)
    {
        let mut cur = s.degrees[0];
        let mut idx = 1;
        for a in &params.reduction_arity_bits {
            cur -= a;
            if idx < k && cur == s.degrees[idx] {
                idx += 1;
            }
        }
        if idx != k {
            return Err(format!("harness: batch arities {:?} do not meet degrees {:?}", params.reduction_arity_bits, s.degrees));
        }
    }
    // flat polynomial lists per oracle, sorted by degree (descending), and their raw coefficients
    let flat: Vec<Vec<&Vec<u64>>> = s.oracles.iter().map(|o| o.iter().flatten().collect()).collect();
    let mut timing = TimingTree::default();
    let oracles: Vec<BatchFriOracle<F, C, D>> = flat
        .iter()
        .map(|polys| {
            let coeffs: Vec<PolynomialCoeffs<F>> = polys.iter().map(|p| to_coeffs(p)).collect();
            let tables = vec![None; coeffs.len()];
            BatchFriOracle::from_coeffs(coeffs, params.config.rate_bits, false, params.config.cap_height, &mut timing, &tables)
        })
        .collect();
    let caps: Vec<Cap<C>> = oracles.iter().map(|o| o.batch_merkle_tree.cap.clone()).collect();
    // instance i: the polynomials of degree group i in every oracle
    let offsets: Vec<Vec<usize>> = s
        .oracles
        .iter()
        .map(|o| {
            let mut acc = 0;
            o.iter()
                .map(|g| {
                    let a = acc;
                    acc += g.len();
                    a
                })
                .collect()
        })
        .collect();
    let lists: Vec<Vec<Vec<FriPolynomialInfo>>> = (0..k)
        .map(|i| {
            let all: Vec<(usize, usize)> = s.oracles.iter().enumerate().flat_map(|(oi, o)| { let off = offsets[oi][i]; (0..o[i].len()).map(move |pi| (oi, off + pi)) }).collect();
            s.batches[i].iter().map(|b| batch_polys(b, &all)).collect()
        })
        .collect();
    let prefix = |points: &mut Vec<Vec<[u64; 2]>>| -> Chal<C> {
        let mut ch = Chal::<C>::new();
        params.observe(&mut ch);
        for cap in &caps {
            ch.observe_cap(cap);
        }
        for i in 0..k {
            let mut v = vec![];
            for b in &s.batches[i] {
                v.push(batch_point::<C>(b, &mut ch, lde_bits).0);
            }
            points.push(v);
        }
        ch
    };
    let mut points = vec![];
    let _ = prefix(&mut points);
    let instances: Vec<FriInstanceInfo<F, D>> = (0..k)
        .map(|i| FriInstanceInfo {
            oracles: s.oracles.iter().map(|o| FriOracleInfo { num_polys: o[i].len(), blinding: false }).collect(),
            batches: points[i].iter().zip(&lists[i]).map(|(&p, l)| FriBatchInfo { point: fe(p), polynomials: l.clone() }).collect(),
        })
        .collect();
    let truth: Openings = (0..k)
        .map(|i| points[i].iter().zip(&lists[i]).map(|(&z, l)| l.iter().map(|pi| ref_open(flat[pi.oracle_index][pi.polynomial_index], z)).collect()).collect())
        .collect();
    let oracle_refs: Vec<&BatchFriOracle<F, C, D>> = oracles.iter().collect();
    let points_ref = &points;
    let fl: Flow<C> = Flow {
        single: false,
        degree_bits: s.degrees.clone(),
        instances: instances.clone(),
        params: params.clone(),
        caps: caps.clone(),
        pad: (None, None),
        replay: Box::new(|| {
            let mut pts = vec![];
            let ch = prefix(&mut pts);
            assert_eq!(&pts, points_ref, "harness: transcript replay drew other points");
            ch
        }),
        prove: Box::new(|ch| {
            let mut timing = TimingTree::default();
            BatchFriOracle::<F, C, D>::prove_openings(&s.degrees, &instances, &oracle_refs, ch, &params, &mut timing)
        }),
        keccak: s.keccak,
        shape_hash: hash_of(s),
        raw_polys: flat.clone(),
    };
    let (proof, _) = common_devs(&fl, &truth, &c.dev, &c.edits, c.exhaustive, st)?;
    st.sample(|| json!({"shape": fl.describe(), "leaves": numeric_leaves(&to_tree(&proof)).len()}));
    Ok(())
}

fn batch_prop(c: &BatchCase, st: &mut Stats) -> Result<(), String> {
    with_config!(c.shape.keccak, batch_case, c, st)
}

// ------------------------------------------------------------------------------------------
// Entry point
// ------------------------------------------------------------------------------------------

pub fn run(ctx: &mut Ctx) {
    ctx.level = "fault_enumeration";
    ctx.rule = "FRI-level case = 1-4 oracles x 1-6 polynomials of degree < 2^d (d in 1..=7, boundary-biased canonical coefficients, \
                per-oracle blinding) x 1-3 opening batches (extension / base-field / transcript-drawn points repaired to lie outside the \
                two-adic subgroup and the LDE coset; each opens a non-empty subset) x FriConfig (rate 1-3, cap 0-3, Fixed | ConstantArityBits | \
                MinSize repaired to the library's preconditions, pow 0-8, 1-12 queries, hiding, optional transcript padding) x Poseidon|Keccak; \
                the batched variant has 1-3 distinct degrees in 1-2 BatchFriOracles. Claimed openings come from the harness' own Horner rule over u128 arithmetic. \
                Per case: honest run (must be accepted, and the values it commits to at the queried points must equal the reference combination) and deviations (a) one opening value changed (transcript-consistent and with fixed challenges; also a missing value / missing batch in the claimed openings), \
                (b) first layer committed to other values at all / a few positions (the latter asserted iff a query's coset holds a changed position) and \
                layers folded from other coefficients, a deeper layer committed to other values / another final polynomial by the harness' own prover \
                (valid Merkle paths and transcript), (c) committed functions of degree >= 2^d with true openings, folded honestly (generated high coefficients, \
                or a high part crafted to vanish on whole preimage cosets: asserted iff the harness' reference fold says some query sees a non-zero truncated part), \
                (d) proof of work: response boundary sweep under fixed challenges, generated witnesses through the prover knob, replaced witness, \
                (e) value edit of elements of the FriProof serde tree and of the initial caps and shape edits of its lists, honest FriChallenges re-used. \
                Non-trivial: >= 1 reduction layer for (b),(c),(e); distinct = (shape, deviation, position/edit)."
        .into();
    ctx.assumptions.push("(e): pow_witness and cap entries that no query index selects are unread under fixed challenges (bound through the transcript, C04); outcome recorded only".into());
    ctx.assumptions.push("(c): an adversarially chosen function of degree < 2^(d+rate) passes one query with probability up to 1 - 2^-rate - 2^-(d+rate-total) (its truncated part can vanish on all but 2^(d-total)+1 final-domain points); rejection is therefore asserted only when the harness' reference fold shows a query that sees a non-zero truncated part (then the rejection is deterministic), otherwise the outcome is recorded".into());
    ctx.assumptions.push("(b) few positions: asserted only when a query's first-layer coset contains a changed position (computed from the challenge indices)".into());
    ctx.assumptions.push("batched variant: no salts (batch_fri_verify_initial_proof does not skip salt columns), each smaller degree is met exactly by the cumulative arity, cap height <= smallest LDE height".into());
    ctx.assumptions.push("Merkle collisions and the events alpha = 0 / beta a root of a fixed low-degree polynomial (probability < 2^-100) are ignored".into());
    ctx.assumptions.push("salts and the honest prover's grinding result come from the library's own randomness / parallel search and are not replayed bit-exactly".into());
    ctx.shrink_iters = 60;
    let thorough = ctx.tier == Tier::Thorough;
    let (n_single, n_edits) = ctx.tier.pick((1200, 150), (10_000, 150));
    let n_high = ctx.tier.pick(4000, 100_000);
    let n_batch = ctx.tier.pick(600, 5000);
    ctx.run_sub("single_degree", n_single, 16, move || case_strat(7, n_edits, thorough), single_prop);
    ctx.run_sub("high_degree", n_high, 16, || high_strat(6), high_prop);
    ctx.run_sub("batched", n_batch, 16, move || batch_strat(n_edits, thorough), batch_prop);
}
