//! C05 — FRI opening proofs (see DESIGN.md §C05).

use crate::engine::Ctx;

pub fn run(ctx: &mut Ctx) {
    let _ = ctx;
}
