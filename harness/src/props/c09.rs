//! C09 — STARK proofs are accepted exactly for traces that satisfy the constraints.

use plonky2::field::types::Field;
use plonky2::plonk::config::GenericConfig;
use plonky2::util::timing::TimingTree;
use plonky2::verif_hooks::{reset_knobs, set_knobs, Knobs};
use proptest::prelude::*;
use serde::{Deserialize, Serialize};
use serde_json::{json, Value};
use starky::proof::StarkProofWithPublicInputs;
use starky::prover::prove;
use starky::verifier::verify_stark_proof;
use std::sync::Arc;

use crate::circuit::{KC, PC};
use crate::engine::{bx, catch, hash_of, Ctx, Stats};
use crate::gen::dsl::{D, F};
use crate::gen::field::P;
use crate::gen::mutate::*;
use crate::gen::stark::*;
use crate::props::common::{frac32, raw_edit, RawEdit, MARGIN};
use crate::with_stark_shape;

#[derive(Clone, Debug, Serialize, Deserialize, PartialEq, Eq, Hash)]
pub struct RawCorr {
    pub row_class: u8,
    pub row: u32,
    pub col: u16,
    pub val: u64,
    pub kind: u8,
}

#[derive(Clone, Debug, Serialize, Deserialize)]
pub struct Case {
    pub stark: RawStark,
    pub keccak: bool,
    pub corrs: Vec<RawCorr>,
    pub edits: Vec<RawEdit>,
}

fn raw_corr() -> BoxedStrategy<RawCorr> {
    bx((any::<u8>(), any::<u32>(), any::<u16>(), crate::gen::field::canonical(), any::<u8>())
        .prop_map(|(row_class, row, col, val, kind)| RawCorr { row_class, row, col, val, kind }))
}

fn case(n_corr: usize, n_edits: usize) -> BoxedStrategy<Case> {
    bx((raw_stark(), prop::bool::weighted(0.25), prop::collection::vec(raw_corr(), n_corr..=n_corr), prop::collection::vec(raw_edit(), n_edits..=n_edits))
        .prop_map(|(stark, keccak, corrs, edits)| Case { stark, keccak, corrs, edits }))
}

pub fn limits() -> StarkLimits {
    StarkLimits {
        max_log_n: 7,
        min_queries: 8,
        max_queries: 48,
        max_pow: 6,
        ..StarkLimits::default()
    }
}

fn run_shape<const COLS: usize, const PIS: usize>(c: &Case, el: &ElabStark, st: &mut Stats) -> Result<(), String> {
    if c.keccak {
        run_cfg::<KC, COLS, PIS>(c, el, st)
    } else {
        run_cfg::<PC, COLS, PIS>(c, el, st)
    }
}

fn prove_trace<C: GenericConfig<D, F = F>, const COLS: usize, const PIS: usize>(
    stark: &GenStark<COLS, PIS>,
    el: &ElabStark,
    trace: &[Vec<F>],
    pis: &[F],
    lenient: bool,
) -> Result<anyhow::Result<StarkProofWithPublicInputs<F, C, D>>, String> {
    let cols = trace_columns(trace, COLS);
    let mut k = Knobs::default();
    k.lenient_quotient = lenient;
    set_knobs(k);
    let r = catch(|| prove::<F, C, GenStark<COLS, PIS>, D>(stark.clone(), &el.config, cols, pis, None, &mut TimingTree::default()));
    reset_knobs();
    r
}

fn run_cfg<C: GenericConfig<D, F = F>, const COLS: usize, const PIS: usize>(c: &Case, el: &ElabStark, st: &mut Stats) -> Result<(), String> {
    let stark = GenStark::<COLS, PIS> { def: Arc::new(el.def.clone()) };
    let chash = hash_of(&c.stark);
    for l in &el.labels {
        st.label(l);
    }
    st.label(if c.keccak { "keccak" } else { "poseidon" });
    let n = el.trace.len();
    let n_trans = el.def.constraints.iter().filter(|x| x.kind == Kind::Transition).count();
    let n_bound = el.def.constraints.iter().filter(|x| matches!(x.kind, Kind::First | Kind::Last)).count();
    // oracle sanity
    let v0 = violations(&el.def, &el.trace, &el.pis);
    if !v0.is_empty() {
        return Err(format!("generator bug: the simulated trace violates {:?}", v0));
    }
    // ---- positive ----
    st.evals(1);
    let proof = prove_trace::<C, COLS, PIS>(&stark, el, &el.trace, &el.pis, false)
        .map_err(|p| format!("prover PANICKED on a satisfying trace: {} [{:?}]", p, el.labels))?
        .map_err(|e| format!("prover failed on a satisfying trace: {:#} [{:?}]", e, el.labels))?;
    catch(|| verify_stark_proof(stark.clone(), proof.clone(), &el.config, None))
        .map_err(|p| format!("verifier PANICKED on an honest proof: {} [{:?}]", p, el.labels))?
        .map_err(|e| format!("honest STARK proof rejected: {:#} [{:?}]", e, el.labels))?;
    if n_trans >= 1 && n_bound >= 1 {
        st.nontrivial(&(chash, "positive"));
    }
    // ---- corrupted traces ----
    for corr in &c.corrs {
        let mut trace = el.trace.clone();
        let mut pis = el.pis.clone();
        let row = match corr.row_class % 5 {
            0 => 0,
            1 => n - 1,
            2 => n - 2,
            _ => frac32(corr.row, n),
        };
        let newv = F::from_canonical_u64(corr.val % P);
        let what: &'static str;
        if corr.kind % 5 == 0 && PIS > 0 {
            let k = corr.col as usize % PIS;
            pis[k] = if pis[k] == newv { newv + F::ONE } else { newv };
            what = "public_input";
        } else {
            let col = corr.col as usize % COLS;
            trace[row][col] = if trace[row][col] == newv { newv + F::ONE } else { newv };
            what = match corr.row_class % 5 {
                0 => "cell_first_row",
                1 => "cell_last_row",
                2 => "cell_second_last_row",
                _ => "cell_interior",
            };
        }
        let viol = violations(&el.def, &trace, &pis);
        st.evals(1);
        let res = prove_trace::<C, COLS, PIS>(&stark, el, &trace, &pis, true);
        if viol.is_empty() {
            // the change violates nothing (free column, wrap-around only, ...): must still be provable
            st.label("benign_corruption");
            let p = res
                .map_err(|p| format!("prover PANICKED on a trace that still satisfies all constraints: {}", p))?
                .map_err(|e| format!("prover failed on a trace that still satisfies all constraints: {:#}", e))?;
            catch(|| verify_stark_proof(stark.clone(), p, &el.config, None))
                .map_err(|p| format!("verifier panicked: {}", p))?
                .map_err(|e| format!("proof for a satisfying (modified) trace rejected: {:#} [{} row {}]", e, what, row))?;
            continue;
        }
        st.label(what);
        match res {
            Err(_) => st.label("prover_panicked"),
            Ok(Err(_)) => st.label("prover_err"),
            Ok(Ok(p)) => {
                st.label("proof_emitted");
                st.nontrivial(&(chash, corr));
                let ok = catch(|| verify_stark_proof(stark.clone(), p, &el.config, None)).map(|r| r.is_ok()).unwrap_or(false);
                if ok {
                    return Err(format!(
                        "STARK verifier ACCEPTED a proof for a violating trace: {} row {} violates {:?} [{:?}]",
                        what, row, viol, el.labels
                    ));
                }
            }
        }
    }
    // honest proof with altered public inputs
    if PIS > 0 && n_bound > 0 {
        let mut p2 = proof.clone();
        p2.public_inputs[0] += F::ONE;
        st.evals(1);
        let viol = violations(&el.def, &el.trace, &p2.public_inputs);
        let ok = catch(|| verify_stark_proof(stark.clone(), p2, &el.config, None)).map(|r| r.is_ok()).unwrap_or(false);
        if ok && !viol.is_empty() {
            return Err("honest proof ACCEPTED with altered public inputs".into());
        }
    }
    // ---- proof edits ----
    let fc = &el.config.fri_config;
    // A STARK has no preprocessed oracle with pairwise distinct leaves, so a re-randomised query index
    // can hit a leaf equal to the original one: for a non-constant trace polynomial of degree < n each
    // value occurs at most n times among the n * 2^rate_bits points, i.e. with probability <= 2^-rate_bits
    // per query (a constant trace gives identical leaves everywhere and nothing can be asserted).
    let nonconstant = (0..COLS).any(|j| el.trace.iter().any(|r| r[j] != el.trace[0][j]));
    let margin = fc.rate_bits * fc.num_query_rounds + fc.proof_of_work_bits as usize;
    let asserted = margin >= 40 && nonconstant;
    let _ = MARGIN;
    st.label(if asserted { "margin_ok" } else { "low_margin_unasserted" });
    let mut tree: Value = to_tree(&proof);
    let leaves = numeric_leaves(&tree);
    for r in &c.edits {
        let i = frac32(r.pos, leaves.len());
        let path = &leaves[i];
        let class = class_of(path);
        let e = match r.kind % 3 {
            0 => ValueEdit::Plus1,
            1 => ValueEdit::Zero,
            _ => ValueEdit::Set(r.val),
        };
        let old = get(&tree, path).cloned().unwrap();
        edit_value(&mut tree, path, e, leaf_modulus(path, c.keccak));
        let p2: Result<StarkProofWithPublicInputs<F, C, D>, _> = Deserialize::deserialize(&tree);
        *get_mut(&mut tree, path).unwrap() = old;
        let Ok(p2) = p2 else { continue };
        st.evals(1);
        st.label(&format!("edit:{}", class));
        // an edit of a public input that no constraint reads is not a change of the statement the constraints see
        if class.starts_with("public_inputs") && violations(&el.def, &el.trace, &p2.public_inputs).is_empty() {
            st.label("edit_unconstrained_pi");
            continue;
        }
        st.nontrivial(&(chash, "edit", i, e.name()));
        let ok = catch(|| verify_stark_proof(stark.clone(), p2, &el.config, None)).map(|r| r.is_ok()).unwrap_or(false);
        if ok {
            if asserted {
                if std::env::var("PV_TRACE").is_ok() {
                    eprintln!("[trace] config {:?} log_n {} labels {:?} roles {:?} constraints {:?}", el.config, el.log_n, el.labels, el.roles, el.def.constraints);
                    eprintln!("[trace] caps: trace {} quotient {:?}", proof.proof.trace_cap.len(), proof.proof.quotient_polys_cap.as_ref().map(|c| c.len()));
                }
                return Err(format!("edited STARK proof ACCEPTED: {} at {} (margin {})", class, path_string(path), margin));
            }
            st.label("accepted_low_margin");
        }
    }
    st.sample(|| json!({"labels": el.labels, "roles": el.roles, "constraints": el.def.constraints.len(), "config": format!("{:?}", el.config)}));
    Ok(())
}

fn prop(c: &Case, st: &mut Stats) -> Result<(), String> {
    let el = elaborate_stark(&c.stark, &limits());
    with_stark_shape!(el.shape, run_shape, c, &el, st)
}

pub fn run(ctx: &mut Ctx) {
    ctx.level = "fault_enumeration";
    ctx.rule = "run-time STARK definition (1-16 columns: state / derived / boolean / free columns, declared degree 0..9, 0-4 public inputs \
                tied to first/last-row cells) with a simulated satisfying trace (4..128 rows) x StarkConfig; then single-cell corruptions in the \
                first / last / second-to-last / interior rows or of a public input, judged by the harness's row-by-row evaluator (a change that \
                violates nothing must still verify), and value edits of proof elements; non-trivial = definition has >= 1 transition and >= 1 \
                boundary constraint (positive) or the prover emitted a proof for a violating trace / an element was edited (negative)"
        .into();
    ctx.assumptions.push("proof-element edits are asserted rejected only for non-constant traces with rate_bits*queries+pow_bits >= 40 (a re-randomised index hits an equal leaf with probability <= 2^-rate_bits)".into());
    ctx.assumptions.push("the lenient quotient-truncation knob is on for corrupted traces so that non-power-of-two quotient factors also reach the verifier".into());
    ctx.shrink_iters = 40;
    let (n, nc, ne) = ctx.tier.pick((1400, 12, 30), (40_000, 24, 60));
    ctx.run_sub("generated_starks", n, 14, move || case(nc, ne), prop);
}
