//! Helpers shared by the proof-based properties.

use plonky2::plonk::config::GenericConfig;
use plonky2::plonk::proof::ProofWithPublicInputs;
use proptest::prelude::*;
use serde::{Deserialize, Serialize};

use crate::circuit::{build_case, Built, RawCircuit};
use crate::engine::{bx, Stats};
use crate::gen::config::{margin_bits, raw_config, ConfigLimits};
use crate::gen::dsl::{raw_program, DslOpts, D, F};

pub struct Proven<C: GenericConfig<D, F = F>> {
    pub built: Built<C>,
    pub proof: ProofWithPublicInputs<F, C, D>,
    /// lde_bits * queries + pow bits
    pub margin: usize,
}

pub fn raw_circuit(max_ops: usize) -> BoxedStrategy<RawCircuit> {
    bx((raw_config(), raw_program(max_ops)).prop_map(|(config, program)| RawCircuit { config, program }))
}

/// Build, prove and verify an honest case. An honest failure is reported as Err (it is a
/// violation of the positive half of the property under test).
pub fn prove_case<C: GenericConfig<D, F = F>>(
    raw: &RawCircuit,
    opts: &DslOpts,
    lim: &ConfigLimits,
    st: &mut Stats,
) -> Result<Proven<C>, String> {
    let built = build_case::<C>(raw, opts, lim);
    for l in &built.cfg.labels {
        st.label(l);
    }
    let pw = built.elab.witness();
    let proof = built
        .data
        .prove(pw)
        .map_err(|e| format!("honest prove failed: {:#} [{}]", e, built.elab.description()))?;
    built
        .data
        .verify(proof.clone())
        .map_err(|e| format!("honest proof rejected: {:#} [{}]", e, built.elab.description()))?;
    let margin = margin_bits(&built.config, built.data.common.degree_bits());
    Ok(Proven { built, proof, margin })
}

/// Raw description of one edit position/value; elaborated against the actual leaf list.
#[derive(Clone, Debug, Serialize, Deserialize, PartialEq, Eq, Hash)]
pub struct RawEdit {
    pub pos: u32,
    pub kind: u8,
    pub val: u64,
}

pub fn raw_edit() -> BoxedStrategy<RawEdit> {
    bx((any::<u32>(), any::<u8>(), crate::gen::field::canonical()).prop_map(|(pos, kind, val)| RawEdit { pos, kind, val }))
}

pub fn frac32(raw: u32, n: usize) -> usize {
    ((raw as u64 * n as u64) >> 32) as usize
}

/// Soundness margin (bits) above which Fiat–Shamir-dependent rejections are asserted.
pub const MARGIN: usize = 48;

#[macro_export]
macro_rules! with_config {
    ($keccak:expr, $f:ident, $($args:expr),*) => {
        if $keccak {
            $f::<$crate::circuit::KC>($($args),*)
        } else {
            $f::<$crate::circuit::PC>($($args),*)
        }
    };
}
