//! C16 — proof compression is lossless and verification-equivalent, including when several
//! queries share an index or a coset.

use plonky2::plonk::config::{GenericConfig, Hasher};
use plonky2::plonk::proof::{CompressedProofWithPublicInputs, ProofWithPublicInputs};
use proptest::prelude::*;
use serde::{Deserialize, Serialize};
use serde_json::json;

use crate::circuit::RawCircuit;
use crate::engine::{bx, catch, hash_of, Ctx, Stats};
use crate::gen::config::ConfigLimits;
use crate::gen::dsl::{DslOpts, D, F};
use crate::gen::mutate::*;
use crate::props::common::*;
use crate::with_config;

#[derive(Clone, Debug, Serialize, Deserialize)]
pub struct Case {
    pub circuit: RawCircuit,
    pub edits: Vec<RawEdit>,
}

fn case(max_ops: usize, n_edits: usize) -> BoxedStrategy<Case> {
    bx((raw_circuit(max_ops), prop::collection::vec(raw_edit(), n_edits..=n_edits)).prop_map(|(circuit, edits)| Case { circuit, edits }))
}

pub fn limits() -> ConfigLimits {
    // small domains with many queries: repeated indices and shared cosets are the norm
    ConfigLimits {
        min_queries: 1,
        max_queries: 40,
        max_queries_zk: 12,
        max_pow: 4,
        ..ConfigLimits::default()
    }
}

fn check<C: GenericConfig<D, F = F>>(c: &Case, st: &mut Stats) -> Result<(), String> {
    let opts = DslOpts::default();
    let pr = prove_case::<C>(&c.circuit, &opts, &limits(), st)?;
    let data = &pr.built.data;
    let common = &data.common;
    // query-index collision structure, computed from the public challenge API
    let pih = C::InnerHasher::hash_no_pad(&pr.proof.public_inputs);
    let ch = pr
        .proof
        .get_challenges(pih, &data.verifier_only.circuit_digest, common)
        .map_err(|e| format!("get_challenges failed on an accepted proof: {:#}", e))?;
    let idx = &ch.fri_challenges.fri_query_indices;
    let mut sorted = idx.clone();
    sorted.sort();
    let repeated = sorted.windows(2).any(|w| w[0] == w[1]);
    let mut coset_share_depth: Option<usize> = None;
    {
        let mut cur: Vec<usize> = idx.clone();
        for (d, &a) in common.fri_params.reduction_arity_bits.iter().enumerate() {
            let mut cs: Vec<(usize, usize)> = cur.iter().map(|&x| (x >> a, x)).collect();
            cs.sort();
            cs.dedup();
            if cs.windows(2).any(|w| w[0].0 == w[1].0) && coset_share_depth.is_none() {
                coset_share_depth = Some(d);
            }
            cur = cur.iter().map(|&x| x >> a).collect();
        }
    }
    if repeated {
        st.label("repeated_index");
    }
    match coset_share_depth {
        Some(d) => st.label(&format!("shared_coset_depth{}", d.min(3))),
        None => st.label("no_shared_coset"),
    }
    st.label(&format!("reductions{}", common.fri_params.reduction_arity_bits.len().min(4)));
    if repeated || coset_share_depth.is_some() {
        st.nontrivial(&hash_of(&c.circuit));
    }

    // ---- lossless ----
    let comp = data
        .compress(pr.proof.clone())
        .map_err(|e| format!("compress failed on an accepted proof: {:#}", e))?;
    let dec = catch(|| data.decompress(comp.clone()))
        .map_err(|p| format!("decompress panicked on an honest compressed proof: {}", p))?
        .map_err(|e| format!("decompress failed on an honest compressed proof: {:#} (indices {:?})", e, idx))?;
    if dec != pr.proof {
        return Err(format!("decompress(compress(p)) != p (query indices {:?})", idx));
    }
    catch(|| data.verify_compressed(comp.clone()))
        .map_err(|p| format!("verify_compressed panicked on an honest compressed proof: {}", p))?
        .map_err(|e| format!("verify_compressed rejected an honest compressed proof: {:#} (indices {:?})", e, idx))?;
    let recomp = data.compress(dec).map_err(|e| format!("re-compress failed: {:#}", e))?;
    if recomp != comp {
        return Err("compress(decompress(c)) != c".into());
    }
    // byte encodings agree too (compressed encoding keyed by indices)
    let cb = comp.to_bytes();
    let back = CompressedProofWithPublicInputs::<F, C, D>::from_bytes(cb.clone(), common)
        .map_err(|e| format!("compressed from_bytes failed on honest encoding: {:#}", e))?;
    if back != comp {
        return Err("compressed proof does not round-trip through bytes".into());
    }
    st.evals(4);

    // ---- verification equivalence on edited inputs ----
    let mut ctree = to_tree(&comp);
    let cleaves = numeric_leaves(&ctree);
    let mut ptree = to_tree(&pr.proof);
    let pleaves = numeric_leaves(&ptree);
    let keccak = pr.built.cfg.keccak;
    for (n, r) in c.edits.iter().enumerate() {
        let e = match r.kind % 3 {
            0 => ValueEdit::Plus1,
            1 => ValueEdit::Zero,
            _ => ValueEdit::Set(r.val),
        };
        let cstar: Option<CompressedProofWithPublicInputs<F, C, D>> = if n % 2 == 0 {
            // edit the compressed proof
            let path = &cleaves[frac32(r.pos, cleaves.len())];
            let cls = class_of(path);
            let m = if cls.ends_with("indices[]") { u64::MAX } else { leaf_modulus(path, keccak) };
            let old = get(&ctree, path).cloned().unwrap();
            edit_value(&mut ctree, path, e, m);
            let v = Deserialize::deserialize(&ctree).ok();
            *get_mut(&mut ctree, path).unwrap() = old;
            st.label("edit_compressed");
            v
        } else {
            // edit the plain proof, then compress it
            let path = &pleaves[frac32(r.pos, pleaves.len())];
            let old = get(&ptree, path).cloned().unwrap();
            edit_value(&mut ptree, path, e, leaf_modulus(path, keccak));
            let pstar: Option<ProofWithPublicInputs<F, C, D>> = Deserialize::deserialize(&ptree).ok();
            *get_mut(&mut ptree, path).unwrap() = old;
            st.label("edit_plain_then_compress");
            pstar.and_then(|p| catch(|| data.compress(p)).ok().and_then(|r| r.ok()))
        };
        let Some(cstar) = cstar else {
            st.label("edit_not_constructible");
            continue;
        };
        st.evals(1);
        let vc = catch(|| data.verify_compressed(cstar.clone())).map(|r| r.is_ok()).unwrap_or(false);
        let vd = match catch(|| data.decompress(cstar.clone())) {
            Ok(Ok(p)) => catch(|| data.verify(p)).map(|r| r.is_ok()).unwrap_or(false),
            _ => false,
        };
        if vc != vd {
            return Err(format!(
                "verify_compressed = {} but verify(decompress) = {} for an edited compressed proof (edit #{})",
                vc, vd, n
            ));
        }
        st.label(if vc { "edited_both_accept" } else { "edited_both_reject" });
    }
    st.sample(|| json!({"query_indices": idx, "arity_bits": common.fri_params.reduction_arity_bits,
        "lde_bits": common.fri_params.lde_bits(), "repeated": repeated, "coset_share_depth": coset_share_depth}));
    Ok(())
}

fn prop(c: &Case, st: &mut Stats) -> Result<(), String> {
    with_config!(c.circuit.config.keccak, check, c, st)
}

pub fn run(ctx: &mut Ctx) {
    ctx.rule = "accepted proof of a generated circuit on a small domain with 1..40 queries; non-trivial = the query multiset \
                has a repeated index or two different indices in one coset at some reduction layer (computed from the public challenges); \
                distinct = distinct circuit case"
        .into();
    ctx.assumptions.push("equivalence on edited inputs is stated on the same information: verify_compressed(c*) == verify(decompress(c*))".into());
    ctx.shrink_iters = 40;
    let (n, e) = ctx.tier.pick((400, 8), (20_000, 16));
    let max_ops = ctx.tier.pick(8, 25);
    ctx.run_sub("roundtrip_equiv", n, 14, move || case(max_ops, e), prop);
}
