//! C07 — every value a gate computes is pinned by that gate's constraints; the base-field, packed,
//! extension-field and in-circuit evaluators of a gate agree, return exactly `num_constraints()`
//! values and stay within the declared degree (see DESIGN.md §C07).
//!
//! Sub-checks
//!   honest_row            a row filled in by the gate's own generators satisfies every constraint
//!   pinned                every generator-written wire x 3 replacement values => some constraint != 0
//!   pair_pinned           after replacing one generator-written value, no second generator-written
//!                         value can be adjusted so that the row satisfies all constraints again
//!                         (a hit is an explicit second satisfying completion of the same inputs)
//!   jointly_pinned        the Jacobian of the constraints w.r.t. the generator-written wires has
//!                         full column rank at the honest row (no direction in which several written
//!                         values move together with all constraints zero to first order)
//!   (sweep)               before the generated sub-checks: every parameter value of every gate, one
//!                         fixed row each, through all sub-checks; also yields the per-gate table
//!                         of generator-written / pinned wires (evidence key generator_written_wires)
//!   evaluators_base      eval_unfiltered == eval_unfiltered_base_batch (batch 1, 3, 32, 33) ==
//!                         eval_unfiltered_base_one (where the gate implements it), on arbitrary rows
//!   evaluators_circuit    eval_unfiltered == values read back from a witness generated for
//!                         eval_unfiltered_circuit, on arbitrary extension-field rows
//!   degree                constraint polynomials of random low-degree wire polynomials have degree
//!                         <= degree() * (n - 1)
//!
//! The oracle side is written here from the documented meaning of the API (row layout of
//! `EvaluationVarsBaseBatch`, "generators fill the row", "constraints vanish on an honest row");
//! no gate formula is re-used to judge itself except through *another* evaluator of the same gate.

use std::collections::{BTreeMap, BTreeSet};

use plonky2::field::polynomial::PolynomialValues;
use plonky2::field::types::{Field, PrimeField64};
use plonky2::gates::arithmetic_base::ArithmeticGate;
use plonky2::gates::arithmetic_extension::ArithmeticExtensionGate;
use plonky2::gates::base_sum::BaseSumGate;
use plonky2::gates::constant::ConstantGate;
use plonky2::gates::coset_interpolation::CosetInterpolationGate;
use plonky2::gates::exponentiation::ExponentiationGate;
use plonky2::gates::gate::GateRef;
use plonky2::gates::multiplication_extension::MulExtensionGate;
use plonky2::gates::noop::NoopGate;
use plonky2::gates::poseidon::PoseidonGate;
use plonky2::gates::poseidon_mds::PoseidonMdsGate;
use plonky2::gates::public_input::PublicInputGate;
use plonky2::gates::random_access::RandomAccessGate;
use plonky2::gates::reducing::ReducingGate;
use plonky2::gates::reducing_extension::ReducingExtensionGate;
use plonky2::gates::util::StridedConstraintConsumer;
use plonky2::hash::hash_types::HashOut;
use plonky2::iop::generator::{
    generate_partial_witness, ConstantGenerator, GeneratedValues, SimpleGenerator, WitnessGeneratorRef,
};
use plonky2::iop::target::Target;
use plonky2::iop::wire::Wire;
use plonky2::iop::witness::{PartialWitness, PartitionWitness, Witness, WitnessWrite};
use plonky2::plonk::circuit_builder::CircuitBuilder;
use plonky2::plonk::circuit_data::CircuitConfig;
use plonky2::plonk::config::PoseidonGoldilocksConfig;
use plonky2::plonk::vars::{EvaluationTargets, EvaluationVars, EvaluationVarsBaseBatch};
use proptest::prelude::*;
use serde::{Deserialize, Serialize};
use serde_json::json;

use crate::engine::{bx, frac, Ctx, Stats};
use crate::gen::dsl::{ext_from_arr, ext_from_base, ext_to_arr, D, F, FE};
use crate::gen::field::{any_repr, canonical, canonical_nonzero, class_of, P};

type G = GateRef<F, D>;

// ------------------------------------------------------------------------------------------
// Gate selector + parameters
// ------------------------------------------------------------------------------------------

#[derive(Clone, Debug, Serialize, Deserialize, PartialEq, Eq, Hash)]
pub enum Spec {
    Arithmetic { num_ops: usize },
    ArithmeticExt { num_ops: usize },
    MulExt { num_ops: usize },
    BaseSum { base: usize, num_limbs: usize },
    Constant { num_consts: usize },
    /// `max_degree == 0` means `CosetInterpolationGate::new(bits)`.
    Coset { bits: usize, max_degree: usize },
    Exp { bits: usize },
    Poseidon,
    PoseidonMds,
    PublicInput,
    /// Built with `new_from_config` on a config with these three numbers.
    RandomAccess { bits: usize, num_wires: usize, num_routed_wires: usize, num_constants: usize },
    Reducing { n: usize },
    ReducingExt { n: usize },
    Noop,
}

fn ra_gate(bits: usize, nw: usize, nr: usize, nc: usize) -> RandomAccessGate<F, D> {
    let config = CircuitConfig {
        num_wires: nw,
        num_routed_wires: nr,
        num_constants: nc,
        ..CircuitConfig::standard_recursion_config()
    };
    RandomAccessGate::<F, D>::new_from_config(&config, bits)
}

impl Spec {
    fn kind(&self) -> &'static str {
        match self {
            Spec::Arithmetic { .. } => "ArithmeticGate",
            Spec::ArithmeticExt { .. } => "ArithmeticExtensionGate",
            Spec::MulExt { .. } => "MulExtensionGate",
            Spec::BaseSum { base, .. } => match base {
                2 => "BaseSumGate<2>",
                3 => "BaseSumGate<3>",
                4 => "BaseSumGate<4>",
                _ => "BaseSumGate<16>",
            },
            Spec::Constant { .. } => "ConstantGate",
            Spec::Coset { .. } => "CosetInterpolationGate",
            Spec::Exp { .. } => "ExponentiationGate",
            Spec::Poseidon => "PoseidonGate",
            Spec::PoseidonMds => "PoseidonMdsGate",
            Spec::PublicInput => "PublicInputGate",
            Spec::RandomAccess { .. } => "RandomAccessGate",
            Spec::Reducing { .. } => "ReducingGate",
            Spec::ReducingExt { .. } => "ReducingExtensionGate",
            Spec::Noop => "NoopGate",
        }
    }

    fn gate(&self) -> G {
        match *self {
            Spec::Arithmetic { num_ops } => GateRef::new(ArithmeticGate { num_ops }),
            Spec::ArithmeticExt { num_ops } => GateRef::new(ArithmeticExtensionGate::<D> { num_ops }),
            Spec::MulExt { num_ops } => GateRef::new(MulExtensionGate::<D> { num_ops }),
            Spec::BaseSum { base, num_limbs } => match base {
                2 => GateRef::new(BaseSumGate::<2>::new(num_limbs)),
                3 => GateRef::new(BaseSumGate::<3>::new(num_limbs)),
                4 => GateRef::new(BaseSumGate::<4>::new(num_limbs)),
                16 => GateRef::new(BaseSumGate::<16>::new(num_limbs)),
                b => panic!("harness: unsupported base {}", b),
            },
            Spec::Constant { num_consts } => GateRef::new(ConstantGate::new(num_consts)),
            Spec::Coset { bits, max_degree } => {
                if max_degree == 0 {
                    GateRef::new(CosetInterpolationGate::<F, D>::new(bits))
                } else {
                    GateRef::new(plonky2::verif_hooks::coset_interpolation_gate_with_max_degree::<F, D>(bits, max_degree))
                }
            }
            Spec::Exp { bits } => GateRef::new(ExponentiationGate::<F, D>::new(bits)),
            Spec::Poseidon => GateRef::new(PoseidonGate::<F, D>::new()),
            Spec::PoseidonMds => GateRef::new(PoseidonMdsGate::<F, D>::new()),
            Spec::PublicInput => GateRef::new(PublicInputGate),
            Spec::RandomAccess { bits, num_wires, num_routed_wires, num_constants } => {
                GateRef::new(ra_gate(bits, num_wires, num_routed_wires, num_constants))
            }
            Spec::Reducing { n } => GateRef::new(ReducingGate::<D>::new(n)),
            Spec::ReducingExt { n } => GateRef::new(ReducingExtensionGate::<D>::new(n)),
            Spec::Noop => GateRef::new(NoopGate),
        }
    }

    /// Does the gate implement `eval_unfiltered_base_one` (the others panic with
    /// "use eval_unfiltered_base_packed instead", as documented in gate.rs: not needed when
    /// `eval_unfiltered_base_batch` is overridden).
    fn has_base_one(&self) -> bool {
        matches!(
            self,
            Spec::ArithmeticExt { .. }
                | Spec::MulExt { .. }
                | Spec::Coset { .. }
                | Spec::Poseidon
                | Spec::PoseidonMds
                | Spec::Reducing { .. }
                | Spec::ReducingExt { .. }
                | Spec::Noop
        )
    }

    /// Generator preconditions of input wires, read from the generators' code and the gadgets
    /// that place these gates (split_le_base / exp / interpolate_coset / random_access / permute_swapped).
    fn role(&self, wire: usize) -> Role {
        match *self {
            // BaseSplitGenerator: "Integer too large to fit in given number of limbs".
            Spec::BaseSum { base, num_limbs } if wire == 0 => Role::Below((base as u64).pow(num_limbs as u32)),
            // InterpolationGenerator inverts the coset shift.
            Spec::Coset { .. } if wire == 0 => Role::NonZero,
            // ExponentiationGenerator: power bits are bits.
            Spec::Exp { bits } if (1..=bits).contains(&wire) => Role::Bit,
            // PoseidonGenerator: swap is 0 or 1.
            Spec::Poseidon if wire == 24 => Role::Bit,
            // RandomAccessGenerator: access index < vec size.
            Spec::RandomAccess { bits, num_wires, num_routed_wires, num_constants } => {
                let g = ra_gate(bits, num_wires, num_routed_wires, num_constants);
                let per = 2 + (1usize << bits);
                if wire % per == 0 && wire / per < g.num_copies {
                    Role::Below(1u64 << bits)
                } else {
                    Role::Any
                }
            }
            _ => Role::Any,
        }
    }
}

#[derive(Clone, Copy, Debug, PartialEq, Eq)]
enum Role {
    Any,
    Bit,
    NonZero,
    Below(u64),
}

/// Largest `num_limbs` with `B^num_limbs < p` (the sum must be a canonical integer).
fn max_limbs(base: usize) -> usize {
    match base {
        2 => 63,
        3 => 40,
        4 => 31,
        _ => 15,
    }
}

fn ra_spec() -> BoxedStrategy<Spec> {
    (1usize..=6, any::<u16>(), 0usize..=5, 0usize..=4, 0usize..=4)
        .prop_map(|(bits, copies_raw, extra_r, extra_w, nconst)| {
            let max_copies = match bits {
                1..=3 => 6,
                4 => 4,
                5 => 3,
                _ => 2,
            };
            let copies = 1 + frac(copies_raw, max_copies);
            let vs = 1usize << bits;
            let nr = (2 + vs) * copies + extra_r;
            let nw = nr.max((2 + vs + bits) * copies + extra_w);
            Spec::RandomAccess { bits, num_wires: nw, num_routed_wires: nr, num_constants: nconst }
        })
        .boxed()
}

fn coset_spec() -> BoxedStrategy<Spec> {
    (1usize..=5, any::<u16>(), 0u8..8)
        .prop_map(|(bits, md_raw, mode)| {
            let n = 1usize << bits;
            let max_degree = match mode {
                0 | 1 => 0,                               // ::new
                2 | 3 => 2 + frac(md_raw, 4),             // small bounds: many intermediates
                _ => 2 + frac(md_raw, n + 1),             // 2..=n+2
            };
            Spec::Coset { bits, max_degree }
        })
        .boxed()
}

/// `honest`: restrict to parameters for which the generators' preconditions can be met.
fn spec_strategy(honest: bool) -> BoxedStrategy<Spec> {
    let base_sum = (prop_oneof![Just(2usize), Just(3usize), Just(4usize), Just(16usize)], any::<u16>())
        .prop_map(move |(base, raw)| {
            let max = if honest { max_limbs(base) } else { 63 };
            Spec::BaseSum { base, num_limbs: 1 + frac(raw, max) }
        });
    prop_oneof![
        3 => (1usize..=20).prop_map(|num_ops| Spec::Arithmetic { num_ops }),
        2 => (1usize..=10).prop_map(|num_ops| Spec::ArithmeticExt { num_ops }),
        2 => (1usize..=13).prop_map(|num_ops| Spec::MulExt { num_ops }),
        6 => base_sum,
        1 => (1usize..=4).prop_map(|num_consts| Spec::Constant { num_consts }),
        5 => coset_spec(),
        4 => (1usize..=60).prop_map(|bits| Spec::Exp { bits }),
        2 => Just(Spec::Poseidon),
        1 => Just(Spec::PoseidonMds),
        1 => Just(Spec::PublicInput),
        5 => ra_spec(),
        3 => (1usize..=30).prop_map(|n| Spec::Reducing { n }),
        3 => (1usize..=30).prop_map(|n| Spec::ReducingExt { n }),
        1 => Just(Spec::Noop),
    ]
    .boxed()
}

/// Every parameter value of every gate, in a fixed order (deterministic sweep).
fn all_specs() -> Vec<Spec> {
    let mut v = vec![];
    v.extend((1..=20).map(|num_ops| Spec::Arithmetic { num_ops }));
    v.extend((1..=10).map(|num_ops| Spec::ArithmeticExt { num_ops }));
    v.extend((1..=13).map(|num_ops| Spec::MulExt { num_ops }));
    for base in [2usize, 3, 4, 16] {
        v.extend((1..=max_limbs(base)).map(|num_limbs| Spec::BaseSum { base, num_limbs }));
    }
    v.extend((1..=4).map(|num_consts| Spec::Constant { num_consts }));
    for bits in 1..=5usize {
        v.push(Spec::Coset { bits, max_degree: 0 });
        for max_degree in 2..=(1usize << bits) + 1 {
            v.push(Spec::Coset { bits, max_degree });
        }
    }
    v.extend((1..=60).map(|bits| Spec::Exp { bits }));
    v.push(Spec::Poseidon);
    v.push(Spec::PoseidonMds);
    v.push(Spec::PublicInput);
    for bits in 1..=6usize {
        let vs = 1usize << bits;
        for copies in [1usize, 2, 3] {
            for (extra_r, extra_w, nconst) in [(0usize, 0usize, 0usize), (3, 0, 2), (1, 4, 4), (5, 2, 1)] {
                let nr = (2 + vs) * copies + extra_r;
                let nw = nr.max((2 + vs + bits) * copies + extra_w);
                v.push(Spec::RandomAccess { bits, num_wires: nw, num_routed_wires: nr, num_constants: nconst });
            }
        }
    }
    v.extend((1..=30).map(|n| Spec::Reducing { n }));
    v.extend((1..=30).map(|n| Spec::ReducingExt { n }));
    v.push(Spec::Noop);
    v
}

// ------------------------------------------------------------------------------------------
// Small helpers
// ------------------------------------------------------------------------------------------

fn f(x: u64) -> F {
    // Any 64-bit representation is a valid in-memory GoldilocksField.
    plonky2::field::goldilocks_field::GoldilocksField(x)
}

fn fe(x: [u64; 2]) -> FE {
    ext_from_arr([f(x[0]), f(x[1])])
}

fn canon(x: FE) -> [u64; 2] {
    let a = ext_to_arr(x);
    [a[0].to_canonical_u64(), a[1].to_canonical_u64()]
}

fn pih_of(raw: &[u64; 4]) -> HashOut<F> {
    HashOut { elements: [f(raw[0]), f(raw[1]), f(raw[2]), f(raw[3])] }
}

fn eval_ext(gate: &G, consts: &[FE], wires: &[FE], pih: &HashOut<F>) -> Vec<FE> {
    gate.0.eval_unfiltered(EvaluationVars { local_constants: consts, local_wires: wires, public_inputs_hash: pih })
}

fn lift(v: &[F]) -> Vec<FE> {
    v.iter().map(|&x| ext_from_base(x)).collect()
}

fn param_bucket(s: &Spec) -> String {
    let p = match *s {
        Spec::Arithmetic { num_ops } | Spec::ArithmeticExt { num_ops } | Spec::MulExt { num_ops } => num_ops,
        Spec::BaseSum { num_limbs, .. } => num_limbs,
        Spec::Constant { num_consts } => num_consts,
        Spec::Coset { bits, .. } => bits,
        Spec::Exp { bits } => bits,
        Spec::RandomAccess { bits, .. } => bits,
        Spec::Reducing { n } | Spec::ReducingExt { n } => n,
        _ => 0,
    };
    let b = match p {
        0 => "-",
        1 => "1",
        2..=4 => "2-4",
        5..=15 => "5-15",
        16..=40 => "16-40",
        _ => "41+",
    };
    format!("gate:{}:param={}", s.kind(), b)
}

// ------------------------------------------------------------------------------------------
// Honest rows: the gate's own generators fill the row
// ------------------------------------------------------------------------------------------

#[derive(Clone, Debug, Serialize, Deserialize)]
pub struct RowCase {
    pub spec: Spec,
    /// one (raw value, selector) per wire; used at the wires that turn out to be inputs
    pub inputs: Vec<(u64, u8)>,
    pub consts: Vec<u64>,
    pub pih: [u64; 4],
    /// one generated canonical replacement value per wire (used by `pinned`)
    pub repl: Vec<u64>,
}

fn row_case() -> BoxedStrategy<RowCase> {
    bx(spec_strategy(true).prop_flat_map(|spec| {
        let g = spec.gate();
        let (nw, nc) = (g.0.num_wires(), g.0.num_constants());
        (
            Just(spec),
            prop::collection::vec((any_repr(), any::<u8>()), nw..=nw),
            prop::collection::vec(any_repr(), nc..=nc),
            [any_repr(), any_repr(), any_repr(), any_repr()],
            prop::collection::vec(canonical(), nw..=nw),
        )
            .prop_map(|(spec, inputs, consts, pih, repl)| RowCase { spec, inputs, consts, pih, repl })
    }))
}

fn input_value(role: Role, raw: u64, sel: u8) -> F {
    match role {
        Role::Any => f(raw),
        Role::NonZero => {
            if raw % P == 0 {
                F::ONE
            } else {
                f(raw)
            }
        }
        Role::Bit => {
            let b = raw & 1;
            // occasionally the non-canonical representation p + b of the same residue
            if sel & 3 == 3 {
                f(P + b)
            } else {
                f(b)
            }
        }
        Role::Below(bound) => {
            let v = match sel & 3 {
                0 | 1 => raw % bound,
                2 => bound - 1 - (raw % 4).min(bound - 1),
                _ => (raw % 4) % bound,
            };
            if sel & 0x10 != 0 && v < 0xFFFF_FFFF {
                f(P + v)
            } else {
                f(v)
            }
        }
    }
}

struct Honest {
    wires: Vec<F>,
    consts: Vec<F>,
    pih: HashOut<F>,
    /// columns written by some generator
    written: Vec<usize>,
    /// columns that generators read but none writes
    inputs: Vec<usize>,
}

/// The gate's generators as the circuit builder instantiates them: `Gate::generators` plus one
/// `ConstantGenerator` per `extra_constant_wires()` entry, carrying the row's constant.
fn gens_for(gate: &G, consts: &[F]) -> Vec<WitnessGeneratorRef<F, D>> {
    let mut g = gate.0.generators(0, consts);
    for (ci, wi) in gate.0.extra_constant_wires() {
        let cg = ConstantGenerator::<F> { row: 0, constant_index: ci, wire_index: wi, constant: consts[ci] };
        g.push(WitnessGeneratorRef::new(<ConstantGenerator<F> as SimpleGenerator<F, D>>::adapter(cg)));
    }
    g
}

fn col_of(t: Target, nw: usize) -> Result<usize, String> {
    match t {
        Target::Wire(Wire { row: 0, column }) if column < nw => Ok(column),
        other => Err(format!("generator touches a target outside its own row: {:?}", other)),
    }
}

fn build_honest(spec: &Spec, gate: &G, c: &RowCase) -> Result<Honest, String> {
    let nw = gate.0.num_wires();
    let nc = gate.0.num_constants();
    if c.inputs.len() < nw || c.consts.len() < nc || c.repl.len() < nw {
        return Err("harness: case does not match the gate's width".into());
    }
    let consts: Vec<F> = c.consts[..nc].iter().map(|&x| f(x)).collect();
    let pih = pih_of(&c.pih);
    let gens = gens_for(gate, &consts);
    let idmap: Vec<usize> = (0..nw.max(1)).collect();

    // Phase 1 (mechanical discovery): run every generator once on dummy inputs (all ones satisfy
    // every precondition above) and record what it watches and what it writes.
    let mut watched = BTreeSet::new();
    let mut written = BTreeSet::new();
    {
        let mut dummy = PartitionWitness::<F>::new(nw, 1, &idmap);
        for g in &gens {
            for t in g.0.watch_list() {
                let col = col_of(t, nw)?;
                watched.insert(col);
                dummy.set_target(t, F::ONE).map_err(|e| format!("{:#}", e))?;
            }
        }
        for g in &gens {
            let mut buf = GeneratedValues::<F>::empty();
            if !g.0.run(&dummy, &mut buf) {
                return Err(format!("generator {} did not finish although all its watched wires are set", g.0.id()));
            }
            for (t, _) in buf.target_values {
                written.insert(col_of(t, nw)?);
            }
        }
    }
    let inputs: Vec<usize> = watched.difference(&written).copied().collect();

    // Phase 2: real inputs, then the generators until all have finished.
    let mut w = PartitionWitness::<F>::new(nw, 1, &idmap);
    for col in 0..nw {
        if written.contains(&col) {
            continue;
        }
        let (raw, sel) = c.inputs[col];
        let v = if watched.contains(&col) {
            input_value(spec.role(col), raw, sel)
        } else if matches!(spec, Spec::PublicInput) && col < 4 {
            // PublicInputGate has no generator: the builder routes the in-circuit hash here.
            pih.elements[col]
        } else {
            f(raw) // a wire nobody reads or writes
        };
        w.set_target(Target::wire(0, col), v).map_err(|e| format!("{:#}", e))?;
    }
    let mut done = vec![false; gens.len()];
    let mut written2 = BTreeSet::new();
    loop {
        let mut progress = false;
        for (i, g) in gens.iter().enumerate() {
            if done[i] {
                continue;
            }
            let mut buf = GeneratedValues::<F>::empty();
            let fin = g.0.run(&w, &mut buf);
            for (t, v) in buf.target_values {
                written2.insert(col_of(t, nw)?);
                w.set_target(t, v).map_err(|e| format!("generator {} contradicts an already set wire: {:#}", g.0.id(), e))?;
                progress = true;
            }
            if fin {
                done[i] = true;
                progress = true;
            }
        }
        if done.iter().all(|&d| d) {
            break;
        }
        if !progress {
            return Err(format!("generators of {} make no progress on valid inputs", gate.0.id()));
        }
    }
    if written2 != written {
        return Err(format!(
            "generators of {} write different wires on different inputs: {:?} vs {:?}",
            gate.0.id(),
            written.symmetric_difference(&written2).collect::<Vec<_>>(),
            ()
        ));
    }
    let mut wires = Vec::with_capacity(nw);
    for col in 0..nw {
        match w.try_get_target(Target::wire(0, col)) {
            Some(v) => wires.push(v),
            None => return Err(format!("wire {} of {} is neither an input nor generator-written", col, gate.0.id())),
        }
    }
    Ok(Honest { wires, consts, pih, written: written.into_iter().collect(), inputs })
}

fn check_honest(gate: &G, h: &Honest) -> Result<(), String> {
    let out = eval_ext(gate, &lift(&h.consts), &lift(&h.wires), &h.pih);
    if out.len() != gate.0.num_constraints() {
        return Err(format!("{}: eval_unfiltered returned {} values, num_constraints() = {}", gate.0.id(), out.len(), gate.0.num_constraints()));
    }
    if let Some(j) = out.iter().position(|x| canon(*x) != [0, 0]) {
        return Err(format!("{}: constraint {} is non-zero ({:?}) on the row filled in by the gate's own generators", gate.0.id(), j, canon(out[j])));
    }
    Ok(())
}

fn input_classes(h: &Honest) -> Vec<&'static str> {
    let s: BTreeSet<&'static str> = h.inputs.iter().map(|&c| class_of(h.wires[c].0)).collect();
    s.into_iter().collect()
}

fn prop_honest(c: &RowCase, st: &mut Stats) -> Result<(), String> {
    let gate = c.spec.gate();
    let h = build_honest(&c.spec, &gate, c)?;
    check_honest(&gate, &h)?;
    st.label(&param_bucket(&c.spec));
    let classes = input_classes(&h);
    for cl in &classes {
        st.label(&format!("input_class:{}", cl));
    }
    if gate.0.num_constraints() >= 1 {
        st.nontrivial(&(gate.0.id(), usize::MAX, classes));
    } else {
        st.label("trivial:no_constraints");
    }
    st.sample(|| json!({"gate": gate.0.id(), "inputs": h.inputs.len(), "written": h.written.len(), "constraints": gate.0.num_constraints()}));
    Ok(())
}

/// (gate kind, wire role) pairs that are generator-written but documented as unconstrained.
/// Empty: none was found.
fn documented_unconstrained(_spec: &Spec, _wire: usize) -> bool {
    false
}

/// Returns (written wires, wires for which every replacement was detected).
fn check_pinned(c: &RowCase, gate: &G, h: &Honest, st: &mut Stats) -> Result<(usize, usize), String> {
    let consts = lift(&h.consts);
    let mut wires = lift(&h.wires);
    let id = gate.0.id();
    let mut pinned = 0usize;
    for &col in &h.written {
        if documented_unconstrained(&c.spec, col) {
            continue;
        }
        let old = h.wires[col].to_canonical_u64();
        let mut g = c.repl[col] % P;
        if g == old {
            g = (g + 1) % P;
        }
        let repls = [(old + 1) % P, if old != 0 { 0 } else { 1 }, g];
        for new in repls {
            wires[col] = ext_from_base(f(new));
            let out = eval_ext(gate, &consts, &wires, &h.pih);
            st.evals(1);
            if out.iter().all(|x| canon(*x) == [0, 0]) {
                return Err(format!(
                    "value not pinned: {} wire {} (generator-written): replacing {} by {} leaves all {} constraints zero",
                    id,
                    col,
                    old,
                    new,
                    out.len()
                ));
            }
        }
        wires[col] = ext_from_base(h.wires[col]);
        pinned += 1;
        st.nontrivial(&(id.clone(), col, class_of(old)));
        st.label(&format!("replaced_class:{}", class_of(old)));
    }
    Ok((h.written.len(), pinned))
}

fn prop_pinned(c: &RowCase, st: &mut Stats) -> Result<(), String> {
    let gate = c.spec.gate();
    let h = build_honest(&c.spec, &gate, c)?;
    check_honest(&gate, &h)?;
    st.label(&param_bucket(&c.spec));
    if h.written.is_empty() {
        st.label("trivial:no_written_wire");
        return Ok(());
    }
    let (nwr, npin) = check_pinned(c, &gate, &h, st)?;
    st.label_n(&format!("written_wires:{}", c.spec.kind()), nwr as u64);
    st.label_n(&format!("pinned_wires:{}", c.spec.kind()), npin as u64);
    st.sample(|| json!({"gate": gate.0.id(), "written": nwr, "pinned": npin}));
    Ok(())
}

// ------------------------------------------------------------------------------------------
// Strengthenings of `pinned`: two values replaced together; first-order joint uniqueness
// ------------------------------------------------------------------------------------------

#[derive(Clone, Debug, Serialize, Deserialize)]
pub struct PairCase {
    pub row: RowCase,
    /// which written wires play the role of the first replaced value (all of them for small gates)
    pub picks: Vec<u16>,
}

fn pair_case() -> BoxedStrategy<PairCase> {
    bx((row_case(), prop::collection::vec(any::<u16>(), 64..=64)).prop_map(|(row, picks)| PairCase { row, picks }))
}

fn all_zero(v: &[FE]) -> bool {
    v.iter().all(|x| canon(*x) == [0, 0])
}

/// Replace one generator-written value, then look for a second generator-written value that can
/// be adjusted so that the row satisfies all constraints again. Any hit is an explicit second
/// satisfying completion of the same inputs, i.e. the gate's values are not pinned.
fn prop_pair(c: &PairCase, st: &mut Stats) -> Result<(), String> {
    let spec = &c.row.spec;
    let gate = spec.gate();
    let id = gate.0.id();
    let h = build_honest(spec, &gate, &c.row)?;
    check_honest(&gate, &h)?;
    st.label(&param_bucket(spec));
    let nwr = h.written.len();
    if nwr < 2 {
        st.label("trivial:fewer_than_2_written_wires");
        return Ok(());
    }
    let consts = lift(&h.consts);
    let mut wires = lift(&h.wires);
    let budget = 6000usize;
    let n_first = (budget / (2 * nwr)).clamp(1, nwr);
    let firsts: Vec<usize> = if n_first >= nwr {
        h.written.clone()
    } else {
        st.label("pair:first_wire_sampled");
        let s: BTreeSet<usize> = c.picks.iter().take(n_first).map(|&p| h.written[frac(p, nwr)]).collect();
        s.into_iter().collect()
    };
    for &w1 in &firsts {
        let old1 = h.wires[w1].to_canonical_u64();
        for v1 in [if old1 != 0 { 0 } else { 1 }, (old1 + 1) % P] {
            wires[w1] = ext_from_base(f(v1));
            let c0 = eval_ext(&gate, &consts, &wires, &h.pih);
            let s: Vec<usize> = (0..c0.len()).filter(|&j| canon(c0[j]) != [0, 0]).collect();
            if s.is_empty() {
                return Err(format!("value not pinned: {} wire {}: replacing {} by {} leaves all constraints zero", id, w1, old1, v1));
            }
            for &w2 in &h.written {
                if w2 == w1 {
                    continue;
                }
                let old2 = ext_from_base(h.wires[w2]);
                wires[w2] = old2 + FE::ONE;
                let c1 = eval_ext(&gate, &consts, &wires, &h.pih);
                st.evals(1);
                wires[w2] = old2;
                // constraints that are violated must all be repairable by the same shift t of w2
                let j0 = s[0];
                let slope0 = c1[j0] - c0[j0];
                if canon(slope0) == [0, 0] {
                    continue;
                }
                let t = -c0[j0] * slope0.inverse();
                if canon(t)[1] != 0 || !s.iter().all(|&j| canon(c0[j] + t * (c1[j] - c0[j])) == [0, 0]) {
                    continue;
                }
                wires[w2] = old2 + t;
                let c2 = eval_ext(&gate, &consts, &wires, &h.pih);
                st.evals(1);
                st.label("pair:candidate_evaluated");
                if all_zero(&c2) {
                    return Err(format!(
                        "values not pinned: {}: generator-written wires {} and {} can be replaced together ({} -> {}, {} -> {:?}) and all {} constraints stay zero on the same inputs",
                        id,
                        w1,
                        w2,
                        old1,
                        v1,
                        h.wires[w2].to_canonical_u64(),
                        canon(old2 + t),
                        c2.len()
                    ));
                }
                wires[w2] = old2;
            }
            st.nontrivial(&(id.clone(), w1, ("pair", class_of(old1))));
        }
        wires[w1] = ext_from_base(h.wires[w1]);
    }
    Ok(())
}

/// Weights `l_k` with `p'(0) = sum_k l_k p(k)` for every polynomial p of degree <= d (nodes 0..=d).
fn derivative_weights(d: usize) -> Vec<F> {
    let node = |k: usize| F::from_canonical_usize(k);
    let mut w = vec![F::ZERO; d + 1];
    for k in 1..=d {
        let mut num = F::ONE;
        let mut den = F::ONE;
        for m in 0..=d {
            if m == k {
                continue;
            }
            den *= node(k) - node(m);
            if m != 0 {
                num *= -node(m);
            }
        }
        w[k] = num * den.inverse();
        w[0] -= node(k).inverse();
    }
    w
}

/// Rank of a matrix over F (rows x cols), by elimination.
fn rank(mut m: Vec<Vec<F>>, cols: usize) -> (usize, Vec<usize>) {
    let rows = m.len();
    let mut r = 0;
    let mut free_cols = vec![];
    for col in 0..cols {
        let Some(p) = (r..rows).find(|&i| m[i][col].to_canonical_u64() != 0) else {
            free_cols.push(col);
            continue;
        };
        m.swap(r, p);
        let inv = m[r][col].inverse();
        for i in r + 1..rows {
            let factor = m[i][col] * inv;
            if factor.to_canonical_u64() != 0 {
                for k in col..cols {
                    let t = m[r][k];
                    m[i][k] -= factor * t;
                }
            }
        }
        r += 1;
        if r == rows {
            free_cols.extend(col + 1..cols);
            break;
        }
    }
    (r, free_cols)
}

/// First-order joint uniqueness: the Jacobian of the constraints with respect to the
/// generator-written wires, at the honest row, must have full column rank; otherwise there is a
/// direction in which the written values can move together while every constraint stays zero
/// to first order (a constraint that should tie them to the inputs is missing).
fn prop_joint(c: &RowCase, st: &mut Stats) -> Result<(), String> {
    let gate = c.spec.gate();
    let id = gate.0.id();
    let h = build_honest(&c.spec, &gate, c)?;
    check_honest(&gate, &h)?;
    st.label(&param_bucket(&c.spec));
    let nwr = h.written.len();
    if nwr == 0 {
        st.label("trivial:no_written_wire");
        return Ok(());
    }
    let ncons = gate.0.num_constraints();
    let d = gate.0.degree().max(1);
    let lw = derivative_weights(d);
    let consts = lift(&h.consts);
    let mut wires = lift(&h.wires);
    // jac[j][k] = d constraint_j / d written_k
    let mut jac = vec![vec![F::ZERO; nwr]; ncons];
    for (k, &col) in h.written.iter().enumerate() {
        let old = ext_from_base(h.wires[col]);
        for (step, &weight) in lw.iter().enumerate().skip(1) {
            wires[col] = old + ext_from_base(F::from_canonical_usize(step));
            let out = eval_ext(&gate, &consts, &wires, &h.pih);
            st.evals(1);
            for j in 0..ncons {
                let v = ext_to_arr(out[j]);
                if v[1].to_canonical_u64() != 0 {
                    return Err(format!("{}: constraint {} leaves the base field on base-field wires", id, j));
                }
                jac[j][k] += weight * v[0];
            }
        }
        // the node 0 term is the honest row, where every constraint is zero
        wires[col] = old;
    }
    let (r, free) = rank(jac, nwr);
    if r < nwr {
        let cols: Vec<usize> = free.iter().map(|&k| h.written[k]).collect();
        return Err(format!(
            "values not jointly pinned: {}: the constraints' Jacobian w.r.t. the {} generator-written wires has rank {} at the honest row; \
             dependent wire(s) {:?} can move (with others) while all {} constraints stay zero to first order",
            id, nwr, r, cols, ncons
        ));
    }
    st.nontrivial(&(id, usize::MAX - 4, input_classes(&h)));
    Ok(())
}

// ------------------------------------------------------------------------------------------
// Evaluators: extension field vs base batch (packed + remainder) vs base one
// ------------------------------------------------------------------------------------------

const POINTS: usize = 33;

#[derive(Clone, Debug, Serialize, Deserialize)]
pub struct BaseCase {
    pub spec: Spec,
    pub pih: [u64; 4],
    /// POINTS rows, each `num_wires` wire values followed by `num_constants` constants
    pub pts: Vec<Vec<u64>>,
}

fn base_case() -> BoxedStrategy<BaseCase> {
    bx(spec_strategy(false).prop_flat_map(|spec| {
        let g = spec.gate();
        let n = g.0.num_wires() + g.0.num_constants();
        (
            Just(spec),
            [any_repr(), any_repr(), any_repr(), any_repr()],
            prop::collection::vec(prop::collection::vec(any_repr(), n..=n), POINTS..=POINTS),
        )
            .prop_map(|(spec, pih, pts)| BaseCase { spec, pih, pts })
    }))
}

/// Lay `pts[range]` out as `EvaluationVarsBaseBatch` documents: value 0 of all points, then value 1, ...
fn layout(pts: &[Vec<F>], from: usize, to: usize, lo: usize, hi: usize) -> Vec<F> {
    let mut v = Vec::with_capacity((hi - lo) * (to - from));
    for k in lo..hi {
        for p in &pts[from..to] {
            v.push(p[k]);
        }
    }
    v
}

fn prop_base(c: &BaseCase, st: &mut Stats) -> Result<(), String> {
    let gate = c.spec.gate();
    let id = gate.0.id();
    let (nw, nc, ncons) = (gate.0.num_wires(), gate.0.num_constants(), gate.0.num_constraints());
    if c.pts.len() != POINTS || c.pts.iter().any(|p| p.len() != nw + nc) {
        return Err("harness: case does not match the gate's width".into());
    }
    let pih = pih_of(&c.pih);
    let pts: Vec<Vec<F>> = c.pts.iter().map(|p| p.iter().map(|&x| f(x)).collect()).collect();
    // reference: the extension-field evaluator on each lifted point
    let mut reference: Vec<Vec<[u64; 2]>> = Vec::with_capacity(POINTS);
    for p in &pts {
        let out = eval_ext(&gate, &lift(&p[nw..]), &lift(&p[..nw]), &pih);
        if out.len() != ncons {
            return Err(format!("{}: eval_unfiltered returned {} values, num_constraints() = {}", id, out.len(), ncons));
        }
        reference.push(out.into_iter().map(canon).collect());
    }
    st.label(&param_bucket(&c.spec));
    // batches: (first point, size)
    for (from, b) in [(POINTS - 1, 1usize), (POINTS - 4, 3), (0, 32), (0, 33)] {
        let wires = layout(&pts, from, from + b, 0, nw);
        let consts = layout(&pts, from, from + b, nw, nw + nc);
        let batch = EvaluationVarsBaseBatch::new(b, &consts, &wires, &pih);
        let res = gate.0.eval_unfiltered_base_batch(batch);
        st.evals(1);
        if res.len() != b * ncons {
            return Err(format!("{}: eval_unfiltered_base_batch(batch {}) returned {} values, expected {} x {}", id, b, res.len(), b, ncons));
        }
        for i in 0..b {
            for j in 0..ncons {
                let got = res[j * b + i].to_canonical_u64();
                let want = reference[from + i][j];
                if want != [got, 0] {
                    return Err(format!(
                        "{}: constraint {} at point {} of a batch of {}: eval_unfiltered_base_batch = {}, eval_unfiltered = {:?}",
                        id, j, i, b, got, want
                    ));
                }
            }
        }
        if c.spec.has_base_one() {
            let mut one = vec![F::ZERO; b * ncons];
            for i in 0..b {
                gate.0.eval_unfiltered_base_one(batch.view(i), StridedConstraintConsumer::new(&mut one, b, i));
            }
            for i in 0..b {
                for j in 0..ncons {
                    let got = one[j * b + i].to_canonical_u64();
                    let want = reference[from + i][j];
                    if want != [got, 0] {
                        return Err(format!(
                            "{}: constraint {} at point {} (batch of {}): eval_unfiltered_base_one = {}, eval_unfiltered = {:?}",
                            id, j, i, b, got, want
                        ));
                    }
                }
            }
            st.label("base_one_checked");
        }
    }
    if ncons >= 1 {
        let cl: BTreeSet<&'static str> = c.pts[0].iter().map(|&x| class_of(x)).collect();
        st.nontrivial(&(id, usize::MAX - 1, cl.into_iter().collect::<Vec<_>>()));
    } else {
        st.label("trivial:no_constraints");
    }
    Ok(())
}

// ------------------------------------------------------------------------------------------
// Evaluators: extension field vs in-circuit
// ------------------------------------------------------------------------------------------

#[derive(Clone, Debug, Serialize, Deserialize)]
pub struct CircuitCase {
    pub spec: Spec,
    /// false: standard recursion config (80 routed wires); true: 30 routed wires, which makes
    /// PoseidonGate::eval_unfiltered_circuit take its branch without PoseidonMdsGate.
    pub narrow: bool,
    /// rows of `num_wires + num_constants` extension values
    pub rows: Vec<Vec<[u64; 2]>>,
    pub pihs: Vec<[u64; 4]>,
}

fn circuit_case(rows: usize) -> BoxedStrategy<CircuitCase> {
    bx((spec_strategy(false), any::<bool>()).prop_flat_map(move |(spec, narrow)| {
        let g = spec.gate();
        let n = g.0.num_wires() + g.0.num_constants();
        let ext = || (any_repr(), prop_oneof![3 => any_repr(), 1 => Just(0u64)]).prop_map(|(a, b)| [a, b]);
        (
            Just(spec),
            Just(narrow),
            prop::collection::vec(prop::collection::vec(ext(), n..=n), rows..=rows),
            prop::collection::vec([any_repr(), any_repr(), any_repr(), any_repr()], rows..=rows),
        )
            .prop_map(|(spec, narrow, rows, pihs)| CircuitCase { spec, narrow, rows, pihs })
    }))
}

fn prop_circuit(c: &CircuitCase, st: &mut Stats) -> Result<(), String> {
    let gate = c.spec.gate();
    let id = gate.0.id();
    let (nw, nc, ncons) = (gate.0.num_wires(), gate.0.num_constants(), gate.0.num_constraints());
    if c.rows.iter().any(|r| r.len() != nw + nc) || c.pihs.len() != c.rows.len() {
        return Err("harness: case does not match the gate's width".into());
    }
    let config = if c.narrow {
        CircuitConfig { num_routed_wires: 30, ..CircuitConfig::standard_recursion_config() }
    } else {
        CircuitConfig::standard_recursion_config()
    };
    let mut builder = CircuitBuilder::<F, D>::new(config);
    let wires_t = builder.add_virtual_extension_targets(nw);
    let consts_t = builder.add_virtual_extension_targets(nc);
    let pih_t = builder.add_virtual_hash();
    let outs_t = gate.0.eval_unfiltered_circuit(
        &mut builder,
        EvaluationTargets { local_constants: &consts_t, local_wires: &wires_t, public_inputs_hash: &pih_t },
    );
    if outs_t.len() != ncons {
        return Err(format!("{}: eval_unfiltered_circuit returned {} targets, num_constraints() = {}", id, outs_t.len(), ncons));
    }
    let num_gates = builder.num_gates();
    let data = builder.mock_build::<PoseidonGoldilocksConfig>();
    st.label(&param_bucket(&c.spec));
    st.label(if c.narrow { "circuit_config:30_routed" } else { "circuit_config:standard" });
    for (row, pih_raw) in c.rows.iter().zip(&c.pihs) {
        let vals: Vec<FE> = row.iter().map(|&x| fe(x)).collect();
        let pih = pih_of(pih_raw);
        let want = eval_ext(&gate, &vals[nw..], &vals[..nw], &pih);
        if want.len() != ncons {
            return Err(format!("{}: eval_unfiltered returned {} values, num_constraints() = {}", id, want.len(), ncons));
        }
        let mut pw = PartialWitness::<F>::new();
        pw.set_extension_targets(&wires_t, &vals[..nw]).map_err(|e| format!("{:#}", e))?;
        pw.set_extension_targets(&consts_t, &vals[nw..]).map_err(|e| format!("{:#}", e))?;
        pw.set_hash_target(pih_t, pih).map_err(|e| format!("{:#}", e))?;
        let w = generate_partial_witness::<F, PoseidonGoldilocksConfig, D>(pw, &data.prover_only, &data.common)
            .map_err(|e| format!("{}: witness generation for eval_unfiltered_circuit failed: {:#}", id, e))?;
        st.evals(1);
        for (j, t) in outs_t.iter().enumerate() {
            let mut got = [0u64; 2];
            for (k, &bt) in t.0.iter().enumerate() {
                got[k] = w
                    .try_get_target(bt)
                    .ok_or_else(|| format!("{}: output {} of eval_unfiltered_circuit has no value after witness generation", id, j))?
                    .to_canonical_u64();
            }
            if got != canon(want[j]) {
                return Err(format!(
                    "{}: constraint {}: eval_unfiltered_circuit evaluates to {:?}, eval_unfiltered = {:?} ({} routed wires)",
                    id,
                    j,
                    got,
                    canon(want[j]),
                    if c.narrow { 30 } else { 80 }
                ));
            }
        }
    }
    if ncons >= 1 {
        st.nontrivial(&(id.clone(), usize::MAX - 2, c.narrow));
    } else {
        st.label("trivial:no_constraints");
    }
    st.sample(|| json!({"gate": id, "narrow": c.narrow, "rows_of_eval_circuit": num_gates}));
    Ok(())
}

// ------------------------------------------------------------------------------------------
// Degree
// ------------------------------------------------------------------------------------------

#[derive(Clone, Debug, Serialize, Deserialize)]
pub struct DegCase {
    pub spec: Spec,
    /// witness polynomials have degree < 2^log_n
    pub log_n: usize,
    /// coset shift (non-zero)
    pub shift: u64,
    pub pih: [u64; 4],
    /// (num_wires + num_constants) polynomials of 2^log_n extension coefficients, flattened
    pub coeffs: Vec<[u64; 2]>,
}

fn deg_case() -> BoxedStrategy<DegCase> {
    bx((spec_strategy(false), 2usize..=3).prop_flat_map(|(spec, log_n)| {
        let g = spec.gate();
        let len = (g.0.num_wires() + g.0.num_constants()) << log_n;
        (
            Just(spec),
            Just(log_n),
            canonical_nonzero(),
            [any_repr(), any_repr(), any_repr(), any_repr()],
            prop::collection::vec((canonical(), canonical()).prop_map(|(a, b)| [a, b]), len..=len),
        )
            .prop_map(|(spec, log_n, shift, pih, coeffs)| DegCase { spec, log_n, shift, pih, coeffs })
    }))
}

fn prop_degree(c: &DegCase, st: &mut Stats) -> Result<(), String> {
    let gate = c.spec.gate();
    let id = gate.0.id();
    let (nw, nc, ncons, d) = (gate.0.num_wires(), gate.0.num_constants(), gate.0.num_constraints(), gate.0.degree());
    let n = 1usize << c.log_n;
    if c.coeffs.len() != (nw + nc) * n || c.shift % P == 0 {
        return Err("harness: case does not match the gate's width".into());
    }
    // Enough points to see one full degree step above the declared bound without wrap-around.
    let m = ((d + 2) * n).next_power_of_two();
    let log_m = m.trailing_zeros() as usize;
    let shift = ext_from_base(f(c.shift));
    let pih = pih_of(&c.pih);
    let polys: Vec<Vec<FE>> = c.coeffs.chunks(n).map(|ch| ch.iter().map(|&x| fe(x)).collect()).collect();
    let mut cons: Vec<Vec<FE>> = vec![Vec::with_capacity(m); ncons];
    for x in FE::two_adic_subgroup(log_m) {
        let pt = x * shift;
        // Horner, by hand
        let vals: Vec<FE> = polys.iter().map(|p| p.iter().rev().fold(FE::ZERO, |acc, &co| acc * pt + co)).collect();
        let out = eval_ext(&gate, &vals[nw..], &vals[..nw], &pih);
        st.evals(1);
        if out.len() != ncons {
            return Err(format!("{}: eval_unfiltered returned {} values, num_constraints() = {}", id, out.len(), ncons));
        }
        for (j, o) in out.into_iter().enumerate() {
            cons[j].push(o);
        }
    }
    let bound = d * (n - 1);
    let mut max_deg: Option<usize> = None;
    for (j, vals) in cons.into_iter().enumerate() {
        let co = PolynomialValues::new(vals).coset_ifft(shift);
        let deg = co.coeffs.iter().rposition(|x| canon(*x) != [0, 0]);
        if let Some(dg) = deg {
            if dg > bound {
                return Err(format!(
                    "{}: constraint {} has degree {} on witness polynomials of degree < {}; declared degree() = {} allows at most {}",
                    id, j, dg, n, d, bound
                ));
            }
            max_deg = Some(max_deg.map_or(dg, |m0: usize| m0.max(dg)));
        }
    }
    st.label(&param_bucket(&c.spec));
    if ncons >= 1 {
        st.label(if max_deg == Some(bound) { "degree_bound:attained" } else { "degree_bound:slack" });
        st.nontrivial(&(id, usize::MAX - 3, c.log_n));
    } else {
        st.label("trivial:no_constraints");
    }
    Ok(())
}

// ------------------------------------------------------------------------------------------
// Deterministic sweep over every parameter value (one fixed row each): (i) + (ii), and the
// per-gate table of generator-written / pinned wires.
// ------------------------------------------------------------------------------------------

fn fixed_row(spec: &Spec) -> RowCase {
    let g = spec.gate();
    let (nw, nc) = (g.0.num_wires(), g.0.num_constants());
    // fixed, parameter-free values: a multiplicative walk (no RNG)
    let mut x = 0x9E37_79B9_7F4A_7C15u64;
    let mut next = || {
        x = x.wrapping_mul(6364136223846793005).wrapping_add(1442695040888963407);
        (x >> 1) % P
    };
    RowCase {
        spec: spec.clone(),
        inputs: (0..nw).map(|i| (next(), (i % 4) as u8)).collect(),
        consts: (0..nc).map(|_| next()).collect(),
        pih: [next(), next(), next(), next()],
        repl: (0..nw).map(|_| next()).collect(),
    }
}

/// (sub-check, case as JSON, reason)
type SweepErr = (&'static str, serde_json::Value, String);

struct Walk(u64);
impl Walk {
    fn next(&mut self) -> u64 {
        self.0 = self.0.wrapping_mul(6364136223846793005).wrapping_add(1442695040888963407);
        // mix of canonical and non-canonical representations
        self.0 ^ (self.0 >> 29)
    }
}

fn sweep_one(spec: &Spec) -> Result<(usize, usize, Stats), SweepErr> {
    use crate::engine::catch;
    fn guard<T>(sub: &'static str, case: &impl Serialize, r: Result<Result<T, String>, String>) -> Result<T, SweepErr> {
        r.unwrap_or_else(|p| Err(format!("panic: {}", p))).map_err(|e| (sub, serde_json::to_value(case).unwrap(), e))
    }
    let c = fixed_row(spec);
    let gate = spec.gate();
    let (nw, nc) = (gate.0.num_wires(), gate.0.num_constants());
    let mut st = Stats::new();
    st.eval();
    let (w, p) = guard(
        "pinned",
        &c,
        catch(|| {
            let h = build_honest(spec, &gate, &c)?;
            check_honest(&gate, &h)?;
            check_pinned(&c, &gate, &h, &mut st)
        }),
    )?;
    guard("jointly_pinned", &c, catch(|| prop_joint(&c, &mut st)))?;
    let pc = PairCase { row: c.clone(), picks: (0..64u32).map(|i| (i * 1021 % 65536) as u16).collect() };
    guard("pair_pinned", &pc, catch(|| prop_pair(&pc, &mut st)))?;
    // evaluators and degree on one fixed arbitrary row per parameter value
    let mut wk = Walk(0x0123_4567_89AB_CDEF);
    let bc = BaseCase {
        spec: spec.clone(),
        pih: [wk.next(), wk.next(), wk.next(), wk.next()],
        pts: (0..POINTS).map(|_| (0..nw + nc).map(|_| wk.next()).collect()).collect(),
    };
    guard("evaluators_base", &bc, catch(|| prop_base(&bc, &mut st)))?;
    for narrow in [false, true] {
        let cc = CircuitCase {
            spec: spec.clone(),
            narrow,
            rows: vec![(0..nw + nc).map(|_| [wk.next(), wk.next()]).collect()],
            pihs: vec![[wk.next(), wk.next(), wk.next(), wk.next()]],
        };
        guard("evaluators_circuit", &cc, catch(|| prop_circuit(&cc, &mut st)))?;
    }
    let dc = DegCase {
        spec: spec.clone(),
        log_n: 2,
        shift: 7,
        pih: [wk.next(), wk.next(), wk.next(), wk.next()],
        coeffs: (0..(nw + nc) * 4).map(|_| [wk.next() % P, wk.next() % P]).collect(),
    };
    guard("degree", &dc, catch(|| prop_degree(&dc, &mut st)))?;
    Ok((w, p, st))
}

fn sweep(ctx: &mut Ctx) {
    use rayon::prelude::*;
    let specs = all_specs();
    let results: Vec<_> = specs.par_iter().map(sweep_one).collect();
    let mut table: BTreeMap<&'static str, (u64, u64, u64, usize, usize)> = BTreeMap::new();
    for (spec, r) in specs.iter().zip(results) {
        match r {
            Ok((w, p, mut st)) => {
                st.nontrivial.clear(); // the generated sub-checks count distinct cases themselves
                st.hist.clear();
                st.samples.clear();
                ctx.stats.merge(st);
                let e = table.entry(spec.kind()).or_insert((0, 0, 0, usize::MAX, 0));
                e.0 += 1;
                e.1 += w as u64;
                e.2 += p as u64;
                e.3 = e.3.min(w);
                e.4 = e.4.max(w);
            }
            Err((sub, case, reason)) => {
                ctx.violation(sub, &case, &reason);
                return;
            }
        }
    }
    ctx.stats.label_n("sweep:parameterisations", table.values().map(|e| e.0).sum());
    let rows: Vec<_> = table
        .iter()
        .map(|(k, e)| json!({"gate": k, "parameterisations": e.0, "written_wires_total": e.1, "pinned_wires_total": e.2, "written_min": e.3, "written_max": e.4}))
        .collect();
    for (k, e) in &table {
        eprintln!("[C07 sweep] {:<26} params={:<3} written(min..max)={}..{} written_total={} pinned_total={}", k, e.0, e.3, e.4, e.1, e.2);
    }
    ctx.extra.insert("generator_written_wires".into(), json!(rows));
}

pub fn run(ctx: &mut Ctx) {
    ctx.rule = "case = built-in gate x parameters (num_ops, limbs x base, consts, subgroup bits x max degree, power bits, \
                random-access bits x copies x extra constants via new_from_config, coeffs) x a row; honest_row/pinned: inputs are \
                the wires some generator watches and none writes (found by running the generators), values from G-field mapped \
                into the generators' preconditions, the gate's own generators (plus the builder's ConstantGenerator per \
                extra_constant_wires entry) fill the rest; pinned replaces EVERY generator-written wire by old+1, 0/1 and a \
                generated value; pair_pinned / jointly_pinned strengthen this to two values replaced together and to first-order \
                joint uniqueness; a deterministic sweep runs every parameter value once through all sub-checks; evaluators_*: arbitrary rows; degree: random witness polynomials of degree < 4 or 8. \
                non-trivial = gate has >= 1 generator-written wire (pinned) / >= 1 constraint (others); \
                distinct = (gate id incl. parameters, wire, input class)"
        .into();
    ctx.assumptions.push("generator preconditions respected: BaseSum input < B^num_limbs < p, coset shift != 0, exponent and Poseidon swap wires are bits, random-access index < 2^bits, RandomAccessGate configs give >= 1 copy".into());
    ctx.assumptions.push("wire values may be any 64-bit representation of a residue (GoldilocksField arithmetic produces non-canonical representations itself); results are compared by residue".into());
    ctx.assumptions.push("ConstantGate / RandomAccessGate extra-constant wires are written by the builder's ConstantGenerator, instantiated here exactly as CircuitBuilder::add_gate does".into());
    ctx.assumptions.push("eval_unfiltered_base_one is only called on gates that implement it; gates overriding eval_unfiltered_base_batch document it as unnecessary and panic".into());
    ctx.assumptions.push("jointly_pinned is a first-order criterion (full column rank of the constraint Jacobian over the generator-written wires); it goes beyond the single-replacement wording of the property and is reported under its own sub-check name".into());
    ctx.assumptions.push("the inverse FFT used to read off constraint degrees is the library's (judged by C15); forward evaluation of the witness polynomials is Horner in this file".into());
    ctx.shrink_iters = 200;

    // self-test of the numerical-derivative weights on p(t) = t^3 + 2t + 5 (p'(0) = 2)
    {
        let p = |t: u64| F::from_canonical_u64(t * t * t + 2 * t + 5);
        let got: F = derivative_weights(3).iter().enumerate().map(|(k, &w)| w * p(k as u64)).sum();
        assert_eq!(got.to_canonical_u64(), 2, "harness bug: derivative weights");
    }
    let run_sweep = ctx.replay.is_none() && ctx.only_sub.as_deref().map_or(true, |s| s == "sweep");
    if run_sweep {
        let t0 = std::time::Instant::now();
        sweep(ctx);
        eprintln!("[C07 {}] sweep over every parameter value: {:.1}s", ctx.variant, t0.elapsed().as_secs_f64());
    }
    let (n_honest, n_pinned, n_pair, n_joint, n_base, n_circ, circ_rows, n_deg) =
        ctx.tier.pick((12_000, 6000, 1200, 1200, 5000, 800, 4, 3000), (400_000, 150_000, 30_000, 30_000, 120_000, 15_000, 8, 60_000));
    ctx.run_sub("honest_row", n_honest, 16, row_case, prop_honest);
    ctx.run_sub("pinned", n_pinned, 16, row_case, prop_pinned);
    ctx.run_sub("pair_pinned", n_pair, 16, pair_case, prop_pair);
    ctx.run_sub("jointly_pinned", n_joint, 16, row_case, prop_joint);
    ctx.run_sub("evaluators_base", n_base, 16, base_case, prop_base);
    ctx.run_sub("evaluators_circuit", n_circ, 16, move || circuit_case(circ_rows), prop_circuit);
    ctx.run_sub("degree", n_deg, 16, deg_case, prop_degree);
}
