//! C07 — gate constraints pin generated values (see DESIGN.md §C07).

use crate::engine::Ctx;

pub fn run(ctx: &mut Ctx) {
    let _ = ctx;
}
