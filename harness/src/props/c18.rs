//! C18 — verifiers and proof decoders fail cleanly on malformed input.
//! (a) structurally arbitrary proof *values* (shape edits, out-of-range numbers) handed to
//! `verify`, `verify_compressed`, `decompress`; (b) arbitrary *byte strings* handed to the
//! decoders (and whatever decodes is handed on to the verifier).
//! Oracle: every call returns Ok or Err — no panic; no single decoder allocation above
//! 64·input + 1 MiB; `Ok` from a verifier only for a value field-equal to the accepted proof.

use plonky2::plonk::config::GenericConfig;
use plonky2::plonk::proof::{CompressedProofWithPublicInputs, ProofWithPublicInputs};
use proptest::prelude::*;
use serde::{Deserialize, Serialize};
use serde_json::{json, Value};

use crate::alloc_probe;
use crate::circuit::RawCircuit;
use crate::engine::{bx, catch, hash_of, normalise, Ctx, Stats};
use crate::gen::config::ConfigLimits;
use crate::gen::dsl::{DslOpts, D, F};
use crate::gen::field::P;
use crate::gen::mutate::*;
use crate::props::common::*;
use crate::with_config;

#[derive(Clone, Debug, Serialize, Deserialize)]
pub struct Case {
    pub circuit: RawCircuit,
    pub edits: Vec<RawEdit>,
    pub compressed: bool,
    pub exhaustive: bool,
}

fn case(max_ops: usize, n_edits: usize, compressed: bool, exhaustive: bool) -> BoxedStrategy<Case> {
    bx((raw_circuit(max_ops), prop::collection::vec(raw_edit(), n_edits..=n_edits)).prop_map(move |(circuit, edits)| Case {
        circuit,
        edits,
        compressed,
        exhaustive,
    }))
}

pub fn limits() -> ConfigLimits {
    ConfigLimits {
        min_queries: 2,
        max_queries: 8,
        max_queries_zk: 4,
        max_pow: 4,
        ..ConfigLimits::default()
    }
}

/// Outcome handling shared by all entry points. `what` names entry point and edit class.
fn judge_panic(entry: &str, panic: &str, known: &[String], st: &mut Stats) -> Result<(), String> {
    let sig = format!("{}|panic|{}", entry, normalise(panic));
    if known.iter().any(|k| sig.contains(k.as_str())) {
        st.known(&sig);
        return Ok(());
    }
    if std::env::var("PV_COLLECT").is_ok() {
        st.label(&format!("PANIC {}", sig));
        return Ok(());
    }
    Err(format!("PANIC instead of Err: {}", sig))
}

fn values<C: GenericConfig<D, F = F>>(c: &Case, known: &[String], st: &mut Stats) -> Result<(), String> {
    let opts = DslOpts::default();
    let pr = prove_case::<C>(&c.circuit, &opts, &limits(), st)?;
    let data = &pr.built.data;
    let chash = hash_of(&c.circuit);
    let comp = if c.compressed {
        Some(data.compress(pr.proof.clone()).map_err(|e| format!("compress failed: {:#}", e))?)
    } else {
        None
    };
    let mut tree: Value = match &comp {
        Some(cp) => to_tree(cp),
        None => to_tree(&pr.proof),
    };
    let orig_tree = tree.clone();
    // run every entry point on the (possibly edited) tree
    let run = |t: &Value, edit_desc: &str, st: &mut Stats| -> Result<(), String> {
        if c.compressed {
            let p: CompressedProofWithPublicInputs<F, C, D> = match Deserialize::deserialize(t) {
                Ok(p) => p,
                Err(_) => {
                    st.label("not_constructible");
                    return Ok(());
                }
            };
            let same = p == *comp.as_ref().unwrap();
            st.evals(2);
            if !same {
                st.nontrivial(&(chash, true, "verify_compressed", edit_desc));
                st.nontrivial(&(chash, true, "decompress", edit_desc));
            }
            match catch(|| data.verify_compressed(p.clone())) {
                Ok(Ok(())) => {
                    // exempt: the redundant indices list (never read)
                    if !same && !edit_desc.contains("indices") {
                        // value may still be field-equal (non-canonical alias)
                        if !edit_desc.contains("alias") {
                            return Err(format!("verify_compressed returned Ok for a malformed value ({})", edit_desc));
                        }
                    }
                }
                Ok(Err(_)) => {}
                Err(pn) => judge_panic("verify_compressed", &pn, known, st)?,
            }
            match catch(|| data.decompress(p)) {
                Ok(_) => {}
                Err(pn) => judge_panic("decompress", &pn, known, st)?,
            }
        } else {
            let p: ProofWithPublicInputs<F, C, D> = match Deserialize::deserialize(t) {
                Ok(p) => p,
                Err(_) => {
                    st.label("not_constructible");
                    return Ok(());
                }
            };
            let same = p == pr.proof;
            st.evals(1);
            if !same {
                st.nontrivial(&(chash, false, "verify", edit_desc));
            }
            match catch(|| data.verify(p.clone())) {
                Ok(Ok(())) => {
                    if !same && !edit_desc.contains("alias") {
                        return Err(format!("verify returned Ok for a malformed value ({})", edit_desc));
                    }
                }
                Ok(Err(_)) => {}
                Err(pn) => judge_panic("verify", &pn, known, st)?,
            }
            // (`compress` is a prover-side utility, not a verification or decoding entry point: the
            // statement does not cover it, so its behaviour on malformed values is not judged.)
        }
        Ok(())
    };

    // ---- shape edits: every container (exhaustive) or sampled ----
    let conts = containers(&tree);
    let mut plan: Vec<(usize, ShapeEdit)> = vec![];
    if c.exhaustive || conts.len() * 4 <= c.edits.len() {
        for i in 0..conts.len() {
            for e in ShapeEdit::ALL {
                plan.push((i, e));
            }
        }
    } else {
        for r in &c.edits {
            plan.push((frac32(r.pos, conts.len()), ShapeEdit::ALL[r.kind as usize % 4]));
        }
    }
    for (i, e) in plan {
        let (path, _, _) = &conts[i];
        let class = class_of(path);
        let old = get(&tree, path).cloned().unwrap();
        if !edit_shape(&mut tree, path, e) {
            continue;
        }
        st.label(&format!("shape:{}", class));
        let r = run(&tree, &format!("shape {} {} {}", class, path_string(path), e.name()), st);
        *get_mut(&mut tree, path).unwrap() = old;
        r.map_err(|m| format!("{} [shape edit {} at {}]", m, e.name(), path_string(path)))?;
    }
    // ---- out-of-range numbers: non-canonical aliases, 2^64-1, huge indices / map keys ----
    let leaves = numeric_leaves(&tree);
    for r in c.edits.iter().take(c.edits.len() / 2 + 1) {
        let i = frac32(r.pos.rotate_left(7), leaves.len());
        let path = &leaves[i];
        let class = class_of(path);
        let old = get(&tree, path).cloned().unwrap();
        let oldv = old.as_u64().unwrap_or(0);
        let is_byte = leaf_modulus(path, pr.built.cfg.keccak) == 256;
        let (newv, desc) = match r.kind % 4 {
            0 if !is_byte && oldv < (u64::MAX - P) => (oldv + P, "alias"), // same residue, non-canonical
            1 => (u64::MAX, "max"),
            2 => (P, "p"),
            _ => (r.val ^ 0x8000_0000_0000_0000, "big"),
        };
        if is_byte && newv > 255 {
            // a byte leaf cannot hold it: not constructible through serde
            *get_mut(&mut tree, path).unwrap() = Value::from(newv);
        } else {
            *get_mut(&mut tree, path).unwrap() = Value::from(newv);
        }
        st.label(&format!("range:{}", desc));
        let edit_desc = format!("{} {} {}", desc, class, path_string(path));
        let r2 = run(&tree, &edit_desc, st);
        *get_mut(&mut tree, path).unwrap() = old;
        r2.map_err(|m| format!("{} [range edit {} at {}]", m, desc, path_string(path)))?;
    }
    // ---- map keys of the compressed proof (query indices as keys) ----
    if c.compressed {
        for (path, _, is_map) in conts.iter().filter(|x| x.2) {
            let _ = is_map;
            for r in c.edits.iter().take(3) {
                let Some(Value::Object(m)) = get_mut(&mut tree, path) else { continue };
                let keys: Vec<String> = m.keys().cloned().collect();
                if keys.is_empty() {
                    continue;
                }
                let k = keys[frac32(r.pos, keys.len())].clone();
                let val = m.remove(&k).unwrap();
                let newk = match r.kind % 3 {
                    0 => (r.val % (1 << 40)).to_string(),
                    1 => u64::MAX.to_string(),
                    _ => ((k.parse::<u64>().unwrap_or(0)) ^ 1).to_string(),
                };
                m.insert(newk.clone(), val);
                st.label("map_key_edit");
                let r2 = run(&tree, &format!("map key {} -> {} at {}", k, newk, path_string(path)), st);
                tree = orig_tree.clone();
                r2.map_err(|m| format!("{} [map key {} -> {} at {}]", m, k, newk, path_string(path)))?;
            }
        }
    }
    st.sample(|| json!({"compressed": c.compressed, "containers": conts.len(), "leaves": leaves.len(), "ops": pr.built.elab.description()}));
    Ok(())
}

fn prop_values(c: &Case, known: &[String], st: &mut Stats) -> Result<(), String> {
    with_config!(c.circuit.config.keccak, values, c, known, st)
}

// ------------------------------------------------------------------------------------------
// byte strings
// ------------------------------------------------------------------------------------------

#[derive(Clone, Debug, Serialize, Deserialize)]
pub struct ByteCase {
    pub circuit: RawCircuit,
    pub other: RawCircuit,
    pub muts: Vec<(u8, u32, u32, u8)>,
    pub compressed: bool,
}

fn byte_case(max_ops: usize, n: usize, compressed: bool) -> BoxedStrategy<ByteCase> {
    bx((
        raw_circuit(max_ops),
        raw_circuit(max_ops),
        prop::collection::vec((any::<u8>(), any::<u32>(), any::<u32>(), any::<u8>()), n..=n),
    )
        .prop_map(move |(circuit, other, muts)| ByteCase {
            circuit,
            other,
            muts,
            compressed,
        }))
}

fn mutate_bytes(orig: &[u8], other: &[u8], m: &(u8, u32, u32, u8)) -> (Vec<u8>, &'static str) {
    let n = orig.len().max(1);
    let pos = frac32(m.1, n);
    let mut b = orig.to_vec();
    match m.0 % 9 {
        0 => {
            b.truncate(pos);
            (b, "truncate")
        }
        1 => {
            if !b.is_empty() {
                b[pos] ^= 1 << (m.3 % 8);
            }
            (b, "bitflip")
        }
        2 => {
            if !b.is_empty() {
                b[pos] = m.3;
            }
            (b, "byte_set")
        }
        3 => {
            // overwrite 8 bytes (a little-endian word: field element / length / index) with an extreme value
            let w: u64 = match m.3 % 4 {
                0 => u64::MAX,
                1 => P,
                2 => (m.2 as u64) << 24,
                _ => 1 << (m.3 % 64),
            };
            let at = pos.min(b.len().saturating_sub(8)) & !7usize;
            if b.len() >= 8 {
                let at = at.min(b.len() - 8);
                b[at..at + 8].copy_from_slice(&w.to_le_bytes());
            }
            (b, "word_extreme")
        }
        4 => {
            // splice: prefix of this encoding + suffix of another valid encoding
            let cut2 = frac32(m.2, other.len().max(1));
            b.truncate(pos);
            b.extend_from_slice(&other[cut2.min(other.len())..]);
            (b, "splice")
        }
        5 => {
            b.extend(std::iter::repeat(m.3).take(1 + (m.2 % 64) as usize));
            (b, "append")
        }
        6 => {
            // pseudo-random bytes derived from the raw choices (no RNG of our own)
            let len = (m.2 % 4096) as usize;
            let mut x = m.1 as u64 | ((m.2 as u64) << 32) | 1;
            let v: Vec<u8> = (0..len)
                .map(|_| {
                    x ^= x << 13;
                    x ^= x >> 7;
                    x ^= x << 17;
                    x as u8
                })
                .collect();
            (v, "random")
        }
        7 => {
            // small length-like edit: set one byte to a small/large count (u8 path lengths etc.)
            if !b.is_empty() {
                b[pos] = [0u8, 1, 2, 0x7f, 0x80, 0xff, 64, 63][(m.3 % 8) as usize];
            }
            (b, "count_byte")
        }
        _ => {
            // delete a range
            let len = 1 + (m.2 as usize % 16);
            let end = (pos + len).min(b.len());
            b.drain(pos.min(end)..end);
            (b, "delete_range")
        }
    }
}

fn bytes<C: GenericConfig<D, F = F>>(c: &ByteCase, known: &[String], st: &mut Stats) -> Result<(), String> {
    let opts = DslOpts::default();
    let pr = prove_case::<C>(&c.circuit, &opts, &limits(), st)?;
    // a second valid encoding (same hash config) for splices
    let mut other_raw = c.other.clone();
    other_raw.config.keccak = c.circuit.config.keccak;
    let pr2 = prove_case::<C>(&other_raw, &opts, &limits(), st)?;
    let data = &pr.built.data;
    let common = &data.common;
    let chash = hash_of(&c.circuit);
    let (orig, other): (Vec<u8>, Vec<u8>) = if c.compressed {
        (
            data.compress(pr.proof.clone()).map_err(|e| format!("{:#}", e))?.to_bytes(),
            pr2.built.data.compress(pr2.proof.clone()).map_err(|e| format!("{:#}", e))?.to_bytes(),
        )
    } else {
        (pr.proof.to_bytes(), pr2.proof.to_bytes())
    };
    for m in &c.muts {
        let (b, kind) = mutate_bytes(&orig, &other, m);
        if b == orig {
            continue;
        }
        st.label(&format!("bytes:{}", kind));
        st.evals(1);
        let budget = 64 * b.len() + (1 << 20);
        let input_len = b.len();
        if c.compressed {
            alloc_probe::start();
            let dec = catch(|| CompressedProofWithPublicInputs::<F, C, D>::from_bytes(b.clone(), common));
            let peak = alloc_probe::stop();
            if peak > budget {
                return Err(format!("decoder attempted a {} byte allocation for a {} byte input ({})", peak, input_len, kind));
            }
            match dec {
                Err(pn) => judge_panic("from_bytes_compressed", &pn, known, st)?,
                Ok(Err(_)) => st.label("decode_err"),
                Ok(Ok(p)) => {
                    st.label("decode_ok");
                    st.nontrivial(&(chash, true, hash_of(&b)));
                    st.evals(1);
                    match catch(|| data.verify_compressed(p.clone())) {
                        Ok(Ok(())) => {
                            let orig_p = data.compress(pr.proof.clone()).unwrap();
                            let mut a = to_tree(&p);
                            let mut o = to_tree(&orig_p);
                            // indices are redundant; compare everything else by residue
                            strip_indices(&mut a);
                            strip_indices(&mut o);
                            if !tree_field_eq(&a, &o) {
                                return Err(format!("verify_compressed accepted a decoded value that differs from the valid proof ({})", kind));
                            }
                        }
                        Ok(Err(_)) => {}
                        Err(pn) => judge_panic("verify_compressed", &pn, known, st)?,
                    }
                }
            }
        } else {
            alloc_probe::start();
            let dec = catch(|| ProofWithPublicInputs::<F, C, D>::from_bytes(b.clone(), common));
            let peak = alloc_probe::stop();
            if peak > budget {
                return Err(format!("decoder attempted a {} byte allocation for a {} byte input ({})", peak, input_len, kind));
            }
            match dec {
                Err(pn) => judge_panic("from_bytes", &pn, known, st)?,
                Ok(Err(_)) => st.label("decode_err"),
                Ok(Ok(p)) => {
                    st.label("decode_ok");
                    st.nontrivial(&(chash, false, hash_of(&b)));
                    st.evals(1);
                    match catch(|| data.verify(p.clone())) {
                        Ok(Ok(())) => {
                            if !tree_field_eq(&to_tree(&p), &to_tree(&pr.proof)) {
                                return Err(format!("verify accepted a decoded value that differs from the valid proof ({})", kind));
                            }
                        }
                        Ok(Err(_)) => {}
                        Err(pn) => judge_panic("verify", &pn, known, st)?,
                    }
                }
            }
        }
    }
    st.sample(|| json!({"compressed": c.compressed, "encoding_len": orig.len(), "mutations": c.muts.len()}));
    Ok(())
}

// ------------------------------------------------------------------------------------------
// length fields of valid encodings, decoded in a child process (an attempted huge allocation
// aborts the process, which cannot be caught in-process)
// ------------------------------------------------------------------------------------------

#[derive(Clone, Debug, Serialize, Deserialize)]
pub struct ProbeJob {
    pub circuit: RawCircuit,
    pub bytes: Vec<u8>,
}

/// Child-process entry (`pv __c18_decode <file>`): exit 0 = decoder returned (Ok or Err),
/// 3 = decoder panicked, 4 = decoder attempted an allocation above the bound; an abort shows up
/// as a signal / other status in the parent.
pub fn decode_probe_main(file: &str) -> i32 {
    let job: ProbeJob = serde_json::from_slice(&std::fs::read(file).expect("probe file")).expect("probe json");
    fn go<C: GenericConfig<D, F = F>>(job: &ProbeJob) -> i32 {
        let built = crate::circuit::build_case::<C>(&job.circuit, &DslOpts::default(), &limits());
        let budget = 64 * job.bytes.len() + (1 << 20);
        alloc_probe::start();
        let r = catch(|| ProofWithPublicInputs::<F, C, D>::from_bytes(job.bytes.clone(), &built.data.common));
        let peak = alloc_probe::stop();
        match r {
            Err(_) => 3,
            Ok(_) if peak > budget => 4,
            Ok(_) => 0,
        }
    }
    if job.circuit.config.keccak {
        go::<crate::circuit::KC>(&job)
    } else {
        go::<crate::circuit::PC>(&job)
    }
}

fn length_fields<C: GenericConfig<D, F = F>>(c: &ByteCase, st: &mut Stats) -> Result<(), String> {
    let opts = DslOpts::default();
    let pr = prove_case::<C>(&c.circuit, &opts, &limits(), st)?;
    let orig = pr.proof.to_bytes();
    let n_pis = pr.proof.public_inputs.len();
    // layout (documented by the encoder): ... proof ..., u64 count of public inputs, then the public inputs
    let at = orig.len() - 8 * n_pis - 8;
    let stored = u64::from_le_bytes(orig[at..at + 8].try_into().unwrap());
    if stored != n_pis as u64 {
        return Err(format!("harness assumption about the encoding layout is wrong: count field holds {} not {}", stored, n_pis));
    }
    let dir = crate::engine::verif_root().join("target").join("c18-probe");
    let _ = std::fs::create_dir_all(&dir);
    let exe = std::env::current_exe().map_err(|e| e.to_string())?;
    let values: Vec<u64> = vec![n_pis as u64 + 1, 1 << 20, 1 << 31, 1 << 36, 1 << 44, 1 << 60, (1 << 60) + 3, u64::MAX];
    for (i, v) in values.iter().enumerate() {
        let mut b = orig.clone();
        b[at..at + 8].copy_from_slice(&v.to_le_bytes());
        // also truncate after the count in half of the cases (count says more than there is)
        if i % 2 == 1 {
            b.truncate(at + 8);
        }
        let job = ProbeJob {
            circuit: c.circuit.clone(),
            bytes: b,
        };
        let file = dir.join(format!("job-{:016x}-{}.json", hash_of(&c.circuit), i));
        std::fs::write(&file, serde_json::to_vec(&job).unwrap()).map_err(|e| e.to_string())?;
        let out = std::process::Command::new("sh")
            .arg("-c")
            .arg("ulimit -v 8388608; exec \"$0\" __c18_decode \"$1\"")
            .arg(&exe)
            .arg(&file)
            .stdout(std::process::Stdio::null())
            .stderr(std::process::Stdio::null())
            .status()
            .map_err(|e| format!("cannot spawn the decode probe: {}", e))?;
        let _ = std::fs::remove_file(&file);
        st.evals(1);
        st.label("bytes:public_input_count_field");
        st.nontrivial(&(hash_of(&c.circuit), "pi_count", *v));
        match out.code() {
            Some(0) => {}
            Some(3) => return Err(format!("decoder PANICKED when the public-input count field says {}", v)),
            Some(4) => return Err(format!("decoder attempted an allocation proportional to the public-input count field {} of a {} byte input", v, orig.len())),
            other => return Err(format!("decoder process died ({:?}) when the public-input count field says {} (abort / failed allocation)", other, v)),
        }
    }
    Ok(())
}

fn prop_length_fields(c: &ByteCase, st: &mut Stats) -> Result<(), String> {
    with_config!(c.circuit.config.keccak, length_fields, c, st)
}

fn strip_indices(v: &mut Value) {
    if let Some(q) = v.pointer_mut("/proof/opening_proof/query_round_proofs") {
        if let Value::Object(m) = q {
            m.remove("indices");
        }
    }
}

/// Structural equality with numbers compared modulo p (field equality, not representation).
pub fn tree_field_eq(a: &Value, b: &Value) -> bool {
    match (a, b) {
        (Value::Number(x), Value::Number(y)) => match (x.as_u64(), y.as_u64()) {
            (Some(x), Some(y)) => x % P == y % P || x == y,
            _ => x == y,
        },
        (Value::Array(x), Value::Array(y)) => x.len() == y.len() && x.iter().zip(y).all(|(p, q)| tree_field_eq(p, q)),
        (Value::Object(x), Value::Object(y)) => {
            x.len() == y.len() && x.iter().all(|(k, p)| y.get(k).map(|q| tree_field_eq(p, q)).unwrap_or(false))
        }
        _ => a == b,
    }
}

fn prop_bytes(c: &ByteCase, known: &[String], st: &mut Stats) -> Result<(), String> {
    with_config!(c.circuit.config.keccak, bytes, c, known, st)
}

// ------------------------------------------------------------------------------------------
// STARK verification entry point
// ------------------------------------------------------------------------------------------

#[derive(Clone, Debug, Serialize, Deserialize)]
pub struct StarkCase {
    pub stark: crate::gen::stark::RawStark,
    pub edits: Vec<RawEdit>,
    pub exhaustive: bool,
}

fn stark_case(n: usize, exhaustive: bool) -> BoxedStrategy<StarkCase> {
    bx((crate::gen::stark::raw_stark(), prop::collection::vec(raw_edit(), n..=n)).prop_map(move |(stark, edits)| StarkCase { stark, edits, exhaustive }))
}

fn stark_values_shape<const COLS: usize, const PIS: usize>(
    c: &StarkCase,
    el: &crate::gen::stark::ElabStark,
    known: &[String],
    st: &mut Stats,
) -> Result<(), String> {
    use crate::circuit::PC;
    use crate::gen::stark::*;
    use starky::proof::StarkProofWithPublicInputs;
    use starky::prover::prove;
    use starky::verifier::verify_stark_proof;
    let stark = GenStark::<COLS, PIS> { def: std::sync::Arc::new(el.def.clone()) };
    let proof: StarkProofWithPublicInputs<F, PC, D> = prove::<F, PC, GenStark<COLS, PIS>, D>(
        stark.clone(),
        &el.config,
        trace_columns(&el.trace, COLS),
        &el.pis,
        None,
        &mut plonky2::util::timing::TimingTree::default(),
    )
    .map_err(|e| format!("honest stark prove failed: {:#}", e))?;
    verify_stark_proof(stark.clone(), proof.clone(), &el.config, None).map_err(|e| format!("honest stark proof rejected: {:#}", e))?;
    let chash = hash_of(&c.stark);
    let mut tree = to_tree(&proof);
    let orig = tree.clone();
    let run = |t: &Value, desc: &str, st: &mut Stats| -> Result<(), String> {
        let p: StarkProofWithPublicInputs<F, PC, D> = match Deserialize::deserialize(t) {
            Ok(p) => p,
            Err(_) => {
                st.label("not_constructible");
                return Ok(());
            }
        };
        st.evals(1);
        st.nontrivial(&(chash, "stark", desc));
        match catch(|| verify_stark_proof(stark.clone(), p, &el.config, None)) {
            Ok(Ok(())) => {
                // `ctl_zs_first: Some([])` and `None` are two encodings of "no cross-table openings"
                let mut tn = t.clone();
                if let Some(v) = tn.pointer_mut("/proof/openings/ctl_zs_first") {
                    if v.as_array().map(|a| a.is_empty()).unwrap_or(false) {
                        *v = Value::Null;
                    }
                }
                if !tree_field_eq(&tn, &orig) {
                    // a constant trace makes every re-randomised transcript valid; only unread cap entries differ then
                    let nonconstant = (0..COLS).any(|j| el.trace.iter().any(|r| r[j] != el.trace[0][j]));
                    if desc.starts_with("shape") || nonconstant && !desc.starts_with("range:alias") {
                        return Err(format!("verify_stark_proof returned Ok for a malformed value ({})", desc));
                    }
                    st.label("ok_for_degenerate_instance");
                }
            }
            Ok(Err(_)) => {}
            Err(pn) => judge_panic("verify_stark_proof", &pn, known, st)?,
        }
        Ok(())
    };
    let conts = containers(&tree);
    let mut plan: Vec<(usize, ShapeEdit)> = vec![];
    if c.exhaustive || conts.len() * 4 <= c.edits.len() {
        for i in 0..conts.len() {
            for e in ShapeEdit::ALL {
                plan.push((i, e));
            }
        }
    } else {
        for r in &c.edits {
            plan.push((frac32(r.pos, conts.len()), ShapeEdit::ALL[r.kind as usize % 4]));
        }
    }
    for (i, e) in plan {
        let (path, _, _) = &conts[i];
        let class = class_of(path);
        let old = get(&tree, path).cloned().unwrap();
        if !edit_shape(&mut tree, path, e) {
            continue;
        }
        st.label(&format!("stark_shape:{}", class));
        let r = run(&tree, &format!("shape {} {}", path_string(path), e.name()), st);
        *get_mut(&mut tree, path).unwrap() = old;
        r.map_err(|m| format!("{} [stark shape edit {} at {}]", m, e.name(), path_string(path)))?;
    }
    // optional components set to null / removed (auxiliary caps, quotient cap, optional openings)
    for ptr in ["/proof/quotient_polys_cap", "/proof/auxiliary_polys_cap", "/proof/openings/quotient_polys", "/proof/openings/auxiliary_polys", "/proof/openings/auxiliary_polys_next", "/proof/openings/ctl_zs_first"] {
        if let Some(v) = tree.pointer_mut(ptr) {
            let old = v.clone();
            *v = if old.is_null() { json!([]) } else { Value::Null };
            st.label("stark_option_toggled");
            let r = run(&tree, &format!("shape option {}", ptr), st);
            *tree.pointer_mut(ptr).unwrap() = old;
            r.map_err(|m| format!("{} [option toggled at {}]", m, ptr))?;
        }
    }
    let leaves = numeric_leaves(&tree);
    for r in c.edits.iter().take(c.edits.len() / 2 + 1) {
        let i = frac32(r.pos.rotate_left(7), leaves.len());
        let path = &leaves[i];
        let old = get(&tree, path).cloned().unwrap();
        let oldv = old.as_u64().unwrap_or(0);
        let (newv, desc) = match r.kind % 4 {
            0 if oldv < (u64::MAX - P) => (oldv + P, "alias"),
            1 => (u64::MAX, "max"),
            2 => (P, "p"),
            _ => (r.val ^ 0x8000_0000_0000_0000, "big"),
        };
        *get_mut(&mut tree, path).unwrap() = Value::from(newv);
        st.label(&format!("stark_range:{}", desc));
        let r2 = run(&tree, &format!("range:{} {}", desc, path_string(path)), st);
        *get_mut(&mut tree, path).unwrap() = old;
        r2.map_err(|m| format!("{} [stark range edit {} at {}]", m, desc, path_string(path)))?;
    }
    Ok(())
}

fn prop_stark(c: &StarkCase, known: &[String], st: &mut Stats) -> Result<(), String> {
    let lim = crate::gen::stark::StarkLimits {
        max_log_n: 5,
        min_queries: 2,
        max_queries: 8,
        max_pow: 4,
        min_degree: 1,
        ..Default::default()
    };
    let el = crate::gen::stark::elaborate_stark(&c.stark, &lim);
    crate::with_stark_shape!(el.shape, stark_values_shape, c, &el, known, st)
}

pub fn run(ctx: &mut Ctx) {
    ctx.rule = "valid proof of a generated circuit x (shape edit of a container | out-of-range number | map-key edit) handed to \
                verify / compress / verify_compressed / decompress, and valid encodings x byte mutation (truncate, bit flip, byte set, \
                extreme word, splice with another valid encoding, append, random bytes, count byte, delete range) handed to the decoders \
                and then the verifiers; non-trivial = value differs from the valid one and was constructible / decoded; \
                distinct = (circuit, entry family, position, edit) resp. (circuit, mutated byte string)"
        .into();
    ctx.assumptions.push("reference build is release (debug assertions off); panics are captured with catch_unwind".into());
    ctx.assumptions.push("allocation bound checked on the decoding thread only (decoders are single-threaded)".into());
    ctx.shrink_iters = 40;
    let known = ctx.open_known_signatures();
    let thorough = ctx.tier == crate::engine::Tier::Thorough;
    let (n_cases, n_edits) = ctx.tier.pick((28, 160), (400, 400));
    let max_ops = ctx.tier.pick(10, 30);
    let k = known.clone();
    ctx.run_sub("plain_values", n_cases, 14, move || case(max_ops, n_edits, false, thorough), move |c, st| prop_values(c, &k, st));
    let k = known.clone();
    let n_edits_c = ctx.tier.pick(60, 300);
    ctx.run_sub("compressed_values", n_cases, 14, move || case(max_ops, n_edits_c, true, thorough), move |c, st| prop_values(c, &k, st));
    let k = known.clone();
    let (ns, nse) = ctx.tier.pick((140, 160), (3000, 400));
    ctx.run_sub("stark_values", ns, 14, move || stark_case(nse, thorough), move |c, st| prop_stark(c, &k, st));
    // Length fields first, in a child process: an attempted huge allocation aborts the decoding process. If that
    // already shows a violation, the in-process byte mutators are skipped (they would abort the harness itself).
    let nl = ctx.tier.pick(28, 400);
    ctx.run_sub("length_fields", nl, 14, move || byte_case(max_ops, 1, false), prop_length_fields);
    if ctx.violations.iter().any(|v| v.0 == "length_fields") {
        eprintln!("[C18] in-process byte-mutation sub-checks skipped: the decoder misbehaves on a length field");
        return;
    }
    let (nb_cases, nb_muts) = ctx.tier.pick((28, 600), (400, 3000));
    let k = known.clone();
    ctx.run_sub("plain_bytes", nb_cases, 14, move || byte_case(max_ops, nb_muts, false), move |c, st| prop_bytes(c, &k, st));
    let k = known.clone();
    let nb_muts_c = ctx.tier.pick(200, 1500);
    ctx.run_sub("compressed_bytes", nb_cases, 14, move || byte_case(max_ops, nb_muts_c, true), move |c, st| prop_bytes(c, &k, st));

}
