//! C15 — transforms and polynomial algebra (see DESIGN.md §C15).

use plonky2_field::goldilocks_field::GoldilocksField as F;
use plonky2_field::polynomial::PolynomialCoeffs;
use plonky2_field::types::Field;

use crate::engine::Ctx;

pub fn run(ctx: &mut Ctx) {
    let _ = ctx;
    let a = PolynomialCoeffs::new(vec![F::ONE, F::ZERO, F::ONE]);
    for n in 1..=9 {
        let r = crate::engine::catch(|| a.inv_mod_xn(n));
        eprintln!("inv_mod_xn([1,0,1],{}) = {:?}", n, r.map(|p| p.coeffs));
    }
    let num = PolynomialCoeffs::new(vec![F::ONE, F::TWO, F::ONE, F::ZERO, F::ZERO, F::ONE]);
    let r = crate::engine::catch(|| num.div_rem(&a));
    eprintln!("div_rem = {:?}", r);
    eprintln!("long = {:?}", num.div_rem_long_division(&a));
}
