//! C15 — transforms and polynomial algebra (see DESIGN.md §C15).

use crate::engine::Ctx;

pub fn run(ctx: &mut Ctx) {
    let _ = ctx;
}
