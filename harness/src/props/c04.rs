//! C04 — Fiat–Shamir challenges depend on the whole statement and the prior transcript.
//! Metamorphic, order-aware oracle: for a component absorbed before challenge group k, all
//! groups < k stay bit-identical, every full-field challenge in groups >= k changes.

use plonky2::field::types::PrimeField64;
use plonky2::fri::reduction_strategies::FriReductionStrategy;
use plonky2::hash::hash_types::RichField;
use plonky2::plonk::circuit_data::CommonCircuitData;
use plonky2::plonk::config::{GenericConfig, GenericHashOut, Hasher};
use plonky2::plonk::proof::{ProofChallenges, ProofWithPublicInputs};
use proptest::prelude::*;
use serde::{Deserialize, Serialize};
use serde_json::{json, Value};

use crate::circuit::RawCircuit;
use crate::engine::{bx, hash_of, Ctx, Stats};
use crate::gen::config::ConfigLimits;
use crate::gen::dsl::{ext_to_arr, DslOpts, D, F};
use crate::gen::mutate::*;
use crate::props::common::*;
use crate::with_config;

#[derive(Clone, Debug, Serialize, Deserialize)]
pub struct Case {
    pub circuit: RawCircuit,
    pub edits: Vec<RawEdit>,
    pub exhaustive: bool,
}

fn case(max_ops: usize, n: usize, exhaustive: bool) -> BoxedStrategy<Case> {
    bx((raw_circuit(max_ops), prop::collection::vec(raw_edit(), n..=n)).prop_map(move |(circuit, edits)| Case { circuit, edits, exhaustive }))
}

pub fn limits() -> ConfigLimits {
    ConfigLimits {
        min_queries: 2,
        max_queries: 12,
        max_queries_zk: 4,
        max_pow: 4,
        ..ConfigLimits::default()
    }
}

/// Challenge groups in protocol order; each is a list of full-field values, except the last
/// (query indices), which is compared as a vector.
fn groups(ch: &ProofChallenges<F, D>) -> Vec<(String, Vec<u64>)> {
    let f = |v: &Vec<F>| v.iter().map(|x| x.to_canonical_u64()).collect::<Vec<_>>();
    let mut g = vec![];
    let mut g0 = f(&ch.plonk_betas);
    g0.extend(f(&ch.plonk_gammas));
    g0.extend(f(&ch.plonk_deltas));
    g.push(("betas_gammas_deltas".to_string(), g0));
    g.push(("alphas".to_string(), f(&ch.plonk_alphas)));
    g.push(("zeta".to_string(), ext_to_arr(ch.plonk_zeta).iter().map(|x| x.to_canonical_u64()).collect()));
    g.push((
        "fri_alpha".to_string(),
        ext_to_arr(ch.fri_challenges.fri_alpha).iter().map(|x| x.to_canonical_u64()).collect(),
    ));
    for (i, b) in ch.fri_challenges.fri_betas.iter().enumerate() {
        g.push((format!("fri_beta_{}", i), ext_to_arr(*b).iter().map(|x| x.to_canonical_u64()).collect()));
    }
    g.push(("pow_response".to_string(), vec![ch.fri_challenges.fri_pow_response.to_canonical_u64()]));
    g.push(("query_indices".to_string(), ch.fri_challenges.fri_query_indices.iter().map(|&x| x as u64).collect()));
    g
}

/// Compare challenge groups before/after an edit of a component that is absorbed right before
/// group `first_dep` (index into the group list; fri betas are offset by `beta_base`).
fn compare(
    base: &[(String, Vec<u64>)],
    new: &[(String, Vec<u64>)],
    first_dep: usize,
    index_entropy_bits: usize,
    what: &str,
) -> Result<(), String> {
    if base.len() != new.len() {
        return Err(format!("{}: number of challenge groups changed ({} -> {})", what, base.len(), new.len()));
    }
    for (i, ((name, b), (_, n))) in base.iter().zip(new).enumerate() {
        let is_indices = name == "query_indices";
        if i < first_dep {
            if b != n {
                return Err(format!("{}: challenge group `{}` drawn BEFORE the component changed", what, name));
            }
        } else if is_indices {
            if index_entropy_bits >= 40 && b == n {
                return Err(format!("{}: query indices did not change", what));
            }
        } else {
            // deltas repeat betas/gammas, so compare position-wise: every value must change
            if b.len() != n.len() {
                continue; // the count itself depends on an edited parameter (e.g. num_challenges): nothing to compare
            }
            for (j, (x, y)) in b.iter().zip(n).enumerate() {
                if x == y {
                    return Err(format!("{}: challenge `{}`[{}] did not change", what, name, j));
                }
            }
        }
    }
    Ok(())
}

fn run_case<C: GenericConfig<D, F = F>>(c: &Case, st: &mut Stats) -> Result<(), String>
where
    <C::Hasher as Hasher<F>>::Hash: GenericHashOut<F>,
    <C::InnerHasher as Hasher<F>>::Hash: GenericHashOut<F>,
{
    let opts = DslOpts::default();
    let pr = prove_case::<C>(&c.circuit, &opts, &limits(), st)?;
    let data = &pr.built.data;
    let common = &data.common;
    let keccak = pr.built.cfg.keccak;
    let chash = hash_of(&c.circuit);
    let digest = data.verifier_only.circuit_digest;
    let pih = C::InnerHasher::hash_no_pad(&pr.proof.public_inputs);
    let base_ch = pr.proof.get_challenges(pih, &digest, common).map_err(|e| format!("get_challenges failed: {:#}", e))?;
    let base = groups(&base_ch);
    // determinism of the challenge function itself
    let again = groups(&pr.proof.get_challenges(pih, &digest, common).map_err(|e| format!("{:#}", e))?);
    if again != base {
        return Err("get_challenges is not a function of its inputs (two calls differ)".into());
    }
    let n_betas = base_ch.fri_challenges.fri_betas.len();
    let idx_bits = common.fri_params.lde_bits() * common.config.fri_config.num_query_rounds;
    let g_beta0 = 4usize; // betas_gammas_deltas, alphas, zeta, fri_alpha, then fri betas
    let g_pow = g_beta0 + n_betas;

    let mut evals = 0u64;
    let mut check = |what: String, first_dep: usize, new_ch: anyhow::Result<ProofChallenges<F, D>>, st: &mut Stats| -> Result<(), String> {
        let new_ch = new_ch.map_err(|e| format!("{}: get_challenges failed: {:#}", what, e))?;
        evals += 1;
        st.evals(1);
        st.label(&format!("component:{}", what.split('#').next().unwrap_or(&what)));
        st.nontrivial(&(chash, what.clone()));
        compare(&base, &groups(&new_ch), first_dep, idx_bits, &what)
    };

    // ---- statement: circuit digest, public inputs ----
    {
        let dv = digest.to_vec();
        for (i, r) in c.edits.iter().enumerate().take(if c.exhaustive { dv.len() } else { 2 }) {
            let k = if c.exhaustive { i } else { frac32(r.pos, dv.len()) };
            let mut bytes = digest.to_bytes();
            // flip one byte of the k-th field element's encoding (stays a valid digest for both hashers)
            let at = (k * 8).min(bytes.len() - 1);
            bytes[at] ^= 1 + (r.kind & 0x7e);
            let d2 = <<C::Hasher as Hasher<F>>::Hash as GenericHashOut<F>>::from_bytes(&bytes);
            if d2 == digest {
                continue;
            }
            check(format!("circuit_digest#{}", k), 0, pr.proof.get_challenges(pih, &d2, common), st)?;
        }
        if !pr.proof.public_inputs.is_empty() {
            for r in c.edits.iter().take(2) {
                let mut pis = pr.proof.public_inputs.clone();
                let k = frac32(r.pos, pis.len());
                pis[k] += plonky2::field::types::Field::ONE;
                let h2 = C::InnerHasher::hash_no_pad(&pis);
                check(format!("public_input#{}", k), 0, pr.proof.get_challenges(h2, &digest, common), st)?;
            }
        }
    }
    // ---- statement: FRI / degree parameters ----
    {
        let variants: Vec<(&str, Box<dyn Fn(&mut CommonCircuitData<F, D>)>)> = vec![
            ("fri.rate_bits", Box::new(|c| {
                c.fri_params.config.rate_bits += 1;
                c.config.fri_config.rate_bits += 1;
            })),
            ("fri.cap_height", Box::new(|c| {
                c.fri_params.config.cap_height += 1;
                c.config.fri_config.cap_height += 1;
            })),
            ("fri.proof_of_work_bits", Box::new(|c| {
                c.fri_params.config.proof_of_work_bits += 1;
                c.config.fri_config.proof_of_work_bits += 1;
            })),
            ("fri.num_query_rounds", Box::new(|c| {
                c.fri_params.config.num_query_rounds += 1;
                c.config.fri_config.num_query_rounds += 1;
            })),
            ("fri.reduction_strategy", Box::new(|c| {
                let s = match c.fri_params.config.reduction_strategy.clone() {
                    FriReductionStrategy::Fixed(mut v) => {
                        v.push(1);
                        FriReductionStrategy::Fixed(v)
                    }
                    FriReductionStrategy::ConstantArityBits(a, f) => FriReductionStrategy::ConstantArityBits(a, f + 1),
                    FriReductionStrategy::MinSize(o) => FriReductionStrategy::MinSize(Some(o.unwrap_or(0) + 1)),
                };
                c.fri_params.config.reduction_strategy = s.clone();
                c.config.fri_config.reduction_strategy = s;
            })),
            ("fri.hiding", Box::new(|c| c.fri_params.hiding = !c.fri_params.hiding)),
            ("fri.degree_bits", Box::new(|c| c.fri_params.degree_bits += 1)),
            ("fri.reduction_arity_bits", Box::new(|c| {
                if let Some(x) = c.fri_params.reduction_arity_bits.last_mut() {
                    *x += 1;
                } else {
                    c.fri_params.reduction_arity_bits.push(1);
                }
            })),
        ];
        for (name, f) in variants {
            let mut c2 = common.clone();
            f(&mut c2);
            check(name.to_string(), 0, pr.proof.get_challenges(pih, &digest, &c2), st)?;
        }
    }
    // ---- prover messages: every numeric leaf of the proof that is part of the transcript ----
    let mut tree = to_tree(&pr.proof);
    let leaves: Vec<Path> = numeric_leaves(&tree);
    // first dependent group per component class
    let dep_of = |class: &str, path: &Path| -> Option<usize> {
        if class.starts_with("proof.wires_cap") {
            Some(0)
        } else if class.starts_with("proof.plonk_zs_partial_products_cap") {
            Some(1)
        } else if class.starts_with("proof.quotient_polys_cap") {
            Some(2)
        } else if class.starts_with("proof.openings") {
            Some(3)
        } else if class.starts_with("proof.opening_proof.commit_phase_merkle_caps") {
            // path: proof.opening_proof.commit_phase_merkle_caps[i]...
            let i = path.iter().find_map(|s| if let Seg::Idx(i) = s { Some(*i) } else { None }).unwrap_or(0);
            Some(g_beta0 + i)
        } else if class.starts_with("proof.opening_proof.final_poly") || class.starts_with("proof.opening_proof.pow_witness") {
            Some(g_pow)
        } else {
            None // query round data and public inputs (handled above) are not prover messages before a challenge
        }
    };
    let transcript_leaves: Vec<usize> = (0..leaves.len()).filter(|&i| dep_of(&class_of(&leaves[i]), &leaves[i]).is_some()).collect();
    let plan: Vec<usize> = if c.exhaustive && transcript_leaves.len() <= 6000 {
        st.label("exhaustive_components");
        transcript_leaves.clone()
    } else {
        c.edits.iter().map(|r| transcript_leaves[frac32(r.pos, transcript_leaves.len())]).collect()
    };
    for (n, li) in plan.into_iter().enumerate() {
        let path = &leaves[li];
        let class = class_of(path);
        let dep = dep_of(&class, path).unwrap();
        let r = &c.edits[n % c.edits.len()];
        let e = match r.kind % 3 {
            0 => ValueEdit::Plus1,
            1 => ValueEdit::Minus1,
            _ => ValueEdit::Set(r.val),
        };
        let old = get(&tree, path).cloned().unwrap();
        edit_value(&mut tree, path, e, leaf_modulus(path, keccak));
        let p2: Result<ProofWithPublicInputs<F, C, D>, _> = Deserialize::deserialize(&tree);
        *get_mut(&mut tree, path).unwrap() = old;
        let Ok(p2) = p2 else { continue };
        check(format!("{}#{}", class, path_string(path)), dep, p2.get_challenges(pih, &digest, common), st)?;
    }
    let _ = Value::Null;
    st.sample(|| json!({"groups": base.iter().map(|g| g.0.clone()).collect::<Vec<_>>(), "transcript_leaves": transcript_leaves.len(),
        "index_entropy_bits": idx_bits, "edits_checked": evals}));
    Ok(())
}

// ------------------------------------------------------------------------------------------
// STARK transcript
// ------------------------------------------------------------------------------------------

#[derive(Clone, Debug, Serialize, Deserialize)]
pub struct StarkCase {
    pub stark: crate::gen::stark::RawStark,
    pub edits: Vec<RawEdit>,
    pub exhaustive: bool,
}

fn stark_case(n: usize, exhaustive: bool) -> BoxedStrategy<StarkCase> {
    bx((crate::gen::stark::raw_stark(), prop::collection::vec(raw_edit(), n..=n)).prop_map(move |(stark, edits)| StarkCase { stark, edits, exhaustive }))
}

fn stark_groups(ch: &starky::proof::StarkProofChallenges<F, D>) -> Vec<(String, Vec<u64>)> {
    let mut g = vec![];
    if let Some(l) = &ch.lookup_challenge_set {
        g.push((
            "lookup".to_string(),
            l.challenges.iter().flat_map(|c| [c.beta.to_canonical_u64(), c.gamma.to_canonical_u64()]).collect(),
        ));
    }
    g.push(("alphas".to_string(), ch.stark_alphas.iter().map(|x| x.to_canonical_u64()).collect()));
    g.push(("zeta".to_string(), ext_to_arr(ch.stark_zeta).iter().map(|x| x.to_canonical_u64()).collect()));
    g.push(("fri_alpha".to_string(), ext_to_arr(ch.fri_challenges.fri_alpha).iter().map(|x| x.to_canonical_u64()).collect()));
    for (i, b) in ch.fri_challenges.fri_betas.iter().enumerate() {
        g.push((format!("fri_beta_{}", i), ext_to_arr(*b).iter().map(|x| x.to_canonical_u64()).collect()));
    }
    g.push(("pow_response".to_string(), vec![ch.fri_challenges.fri_pow_response.to_canonical_u64()]));
    g.push(("query_indices".to_string(), ch.fri_challenges.fri_query_indices.iter().map(|&x| x as u64).collect()));
    g
}

fn stark_shape<const COLS: usize, const PIS: usize>(c: &StarkCase, el: &crate::gen::stark::ElabStark, st: &mut Stats) -> Result<(), String> {
    use crate::circuit::PC;
    use crate::gen::stark::*;
    use plonky2::iop::challenger::Challenger;
    use plonky2::plonk::config::GenericConfig as GC;
    use starky::proof::StarkProofWithPublicInputs;
    type H = <PC as GC<D>>::Hasher;
    let stark = GenStark::<COLS, PIS> { def: std::sync::Arc::new(el.def.clone()) };
    let proof: StarkProofWithPublicInputs<F, PC, D> = starky::prover::prove::<F, PC, GenStark<COLS, PIS>, D>(
        stark.clone(),
        &el.config,
        trace_columns(&el.trace, COLS),
        &el.pis,
        None,
        &mut plonky2::util::timing::TimingTree::default(),
    )
    .map_err(|e| format!("honest stark prove failed: {:#}", e))?;
    let chash = hash_of(&c.stark);
    let challenges_of = |p: &StarkProofWithPublicInputs<F, PC, D>, cfg: &starky::config::StarkConfig| {
        crate::engine::catch(|| {
            let mut ch = Challenger::<F, H>::new();
            p.get_challenges(&stark, &mut ch, None, None, false, cfg, None)
        })
    };
    let base = stark_groups(&challenges_of(&proof, &el.config).map_err(|p| format!("get_challenges panicked on an honest proof: {}", p))?);
    let n_betas = base.iter().filter(|g| g.0.starts_with("fri_beta_")).count();
    let fc = &el.config.fri_config;
    let idx_bits = (el.log_n + fc.rate_bits) * fc.num_query_rounds;
    // group indices (no lookups in these definitions): alphas 0, zeta 1, fri_alpha 2, betas 3.., pow, indices
    let g_beta0 = 3usize;
    let g_pow = g_beta0 + n_betas;
    let has_quotient = proof.proof.quotient_polys_cap.is_some();
    let mut check = |what: String, first_dep: usize, p: &StarkProofWithPublicInputs<F, PC, D>, cfg: &starky::config::StarkConfig, st: &mut Stats| -> Result<(), String> {
        let new = match challenges_of(p, cfg) {
            Ok(n) => stark_groups(&n),
            Err(_) => return Ok(()), // an edited parameter made the helper itself fail: nothing to compare
        };
        st.evals(1);
        st.label(&format!("stark_component:{}", what.split('#').next().unwrap_or(&what)));
        st.nontrivial(&(chash, what.clone()));
        compare(&base, &new, first_dep, idx_bits, &format!("stark {}", what))
    };
    // statement: public inputs and config
    if PIS > 0 {
        let mut p2 = proof.clone();
        p2.public_inputs[frac32(c.edits[0].pos, PIS)] += plonky2::field::types::Field::ONE;
        check("public_input".into(), 0, &p2, &el.config, st)?;
    }
    {
        let mut cfg = el.config.clone();
        cfg.security_bits += 1;
        check("config.security_bits".into(), 0, &proof, &cfg, st)?;
        let mut cfg = el.config.clone();
        cfg.fri_config.proof_of_work_bits += 1;
        check("config.fri.proof_of_work_bits".into(), 0, &proof, &cfg, st)?;
        let mut cfg = el.config.clone();
        cfg.fri_config.num_query_rounds += 1;
        check("config.fri.num_query_rounds".into(), 0, &proof, &cfg, st)?;
        let mut cfg = el.config.clone();
        cfg.fri_config.reduction_strategy = match cfg.fri_config.reduction_strategy.clone() {
            FriReductionStrategy::Fixed(mut v) => {
                v.push(1);
                FriReductionStrategy::Fixed(v)
            }
            FriReductionStrategy::ConstantArityBits(a, f) => FriReductionStrategy::ConstantArityBits(a, f + 1),
            FriReductionStrategy::MinSize(o) => FriReductionStrategy::MinSize(Some(o.unwrap_or(0) + 1)),
        };
        check("config.fri.reduction_strategy".into(), 0, &proof, &cfg, st)?;
    }
    // prover messages
    let mut tree = to_tree(&proof);
    let leaves: Vec<Path> = numeric_leaves(&tree);
    let dep_of = |class: &str, path: &Path| -> Option<usize> {
        if class.starts_with("proof.trace_cap") {
            Some(0)
        } else if class.starts_with("proof.quotient_polys_cap") {
            Some(1)
        } else if class.starts_with("proof.openings") {
            Some(2)
        } else if class.starts_with("proof.opening_proof.commit_phase_merkle_caps") {
            let i = path.iter().find_map(|s| if let Seg::Idx(i) = s { Some(*i) } else { None }).unwrap_or(0);
            Some(g_beta0 + i)
        } else if class.starts_with("proof.opening_proof.final_poly") || class.starts_with("proof.opening_proof.pow_witness") {
            Some(g_pow)
        } else {
            None
        }
    };
    let tl: Vec<usize> = (0..leaves.len()).filter(|&i| dep_of(&class_of(&leaves[i]), &leaves[i]).is_some()).collect();
    let plan: Vec<usize> = if c.exhaustive && tl.len() <= 4000 { tl.clone() } else { c.edits.iter().map(|r| tl[frac32(r.pos, tl.len())]).collect() };
    for (n, li) in plan.into_iter().enumerate() {
        let path = &leaves[li];
        let class = class_of(path);
        let dep = dep_of(&class, path).unwrap();
        let r = &c.edits[n % c.edits.len()];
        let e = if r.kind % 2 == 0 { ValueEdit::Plus1 } else { ValueEdit::Set(r.val) };
        let old = get(&tree, path).cloned().unwrap();
        edit_value(&mut tree, path, e, crate::gen::field::P);
        let p2: Result<StarkProofWithPublicInputs<F, PC, D>, _> = Deserialize::deserialize(&tree);
        *get_mut(&mut tree, path).unwrap() = old;
        let Ok(p2) = p2 else { continue };
        check(format!("{}#{}", class, path_string(path)), dep, &p2, &el.config, st)?;
    }
    let _ = has_quotient;
    Ok(())
}

fn prop_stark(c: &StarkCase, st: &mut Stats) -> Result<(), String> {
    let lim = crate::gen::stark::StarkLimits {
        max_log_n: 6,
        min_queries: 2,
        max_queries: 10,
        max_pow: 4,
        min_degree: 1,
        ..Default::default()
    };
    let el = crate::gen::stark::elaborate_stark(&c.stark, &lim);
    crate::with_stark_shape!(el.shape, stark_shape, c, &el, st)
}

fn prop(c: &Case, st: &mut Stats) -> Result<(), String> {
    with_config!(c.circuit.config.keccak, run_case, c, st)
}

pub fn run(ctx: &mut Ctx) {
    ctx.rule = "accepted PLONK proof (and, in sub-check stark_transcript, accepted STARK proof of a generated definition) x one transcript component (circuit digest element, public input, each FRI / degree parameter, \
                every cap entry, every opening, every commit-phase cap entry, every final-polynomial coefficient, the proof-of-work witness) \
                x an edit; challenges are recomputed with the public get_challenges; non-trivial = the component is absorbed before at least \
                one challenge group; distinct = (circuit, component position)"
        .into();
    ctx.assumptions.push("`every later challenge changes` is asserted for full-field challenges (coincidence 2^-64) and for the index vector only with >= 40 bits of index entropy".into());
    ctx.assumptions.push("the component -> first dependent group table is written from the protocol description, not read from the implementation".into());
    ctx.shrink_iters = 40;
    let (n, e) = ctx.tier.pick((56, 300), (1500, 600));
    let max_ops = ctx.tier.pick(10, 30);
    let ex = ctx.tier == crate::engine::Tier::Thorough;
    ctx.run_sub("plonk_transcript", n, 14, move || case(max_ops, e, ex), prop);
    let (ns, es) = ctx.tier.pick((280, 120), (6000, 300));
    ctx.run_sub("stark_transcript", ns, 14, move || stark_case(es, ex), prop_stark);
}

#[allow(unused)]
fn _unused<T: RichField>() {}
