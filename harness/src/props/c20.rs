//! C20 — conditional and cyclic recursion enforce exactly the selected verification.

use hashbrown::HashMap;
use plonky2::field::types::{Field, PrimeField64};
use plonky2::gates::noop::NoopGate;
use plonky2::hash::hash_types::{HashOut, HashOutTarget};
use plonky2::hash::poseidon::PoseidonHash;
use plonky2::iop::generator::generate_partial_witness;
use plonky2::iop::target::BoolTarget;
use plonky2::iop::witness::{PartialWitness, WitnessWrite};
use plonky2::plonk::circuit_builder::CircuitBuilder;
use plonky2::plonk::circuit_data::{CircuitConfig, CircuitData, CommonCircuitData, VerifierCircuitData, VerifierCircuitTarget, VerifierOnlyCircuitData};
use plonky2::plonk::config::Hasher;
use plonky2::plonk::proof::{ProofWithPublicInputs, ProofWithPublicInputsTarget};
use plonky2::recursion::cyclic_recursion::check_cyclic_proof_verifier_data;
use plonky2::recursion::dummy_circuit::{cyclic_base_proof, dummy_circuit, dummy_proof};
use proptest::prelude::*;
use serde::{Deserialize, Serialize};
use serde_json::{json, Value};

use crate::circuit::{build_case, RawCircuit, PC};
use crate::engine::{bx, catch, hash_of, Ctx, Stats};
use crate::gen::config::ConfigLimits;
use crate::gen::dsl::{DslOpts, D, F};
use crate::gen::mutate::*;
use crate::oracle::sat;
use crate::props::common::*;

type C = PC;

// ------------------------------------------------------------------------------------------
// conditional verification of one of two proofs + dummy circuits
// ------------------------------------------------------------------------------------------

#[derive(Clone, Debug, Serialize, Deserialize)]
pub struct CondCase {
    pub circuit: RawCircuit,
    pub edits: Vec<RawEdit>,
    /// (condition, state of branch 0, state of branch 1)
    pub combos: Vec<(bool, u8, u8)>,
}

fn cond_case(max_ops: usize, n: usize) -> BoxedStrategy<CondCase> {
    bx((
        raw_circuit(max_ops),
        prop::collection::vec(raw_edit(), 4..=4),
        prop::collection::vec((any::<bool>(), 0u8..4, 0u8..4), n..=n),
    )
        .prop_map(|(mut circuit, edits, combos)| {
            circuit.config.keccak = false;
            circuit.config.zk = false; // dummy_circuit documents: zero-knowledge off
            CondCase { circuit, edits, combos }
        }))
}

pub fn limits() -> ConfigLimits {
    ConfigLimits {
        min_queries: 1,
        max_queries: 6,
        max_pow: 5,
        allow_keccak: false,
        allow_zk: false,
        ..ConfigLimits::default()
    }
}

pub fn opts() -> DslOpts {
    DslOpts {
        lookups: false, // dummy_circuit documents: no lookup tables
        ..DslOpts::default()
    }
}

struct CondOuter {
    data: CircuitData<F, C, D>,
    instances: Vec<plonky2::gates::gate::GateInstance<F, D>>,
    cond: BoolTarget,
    pt: [ProofWithPublicInputsTarget<D>; 2],
    vdt: [VerifierCircuitTarget; 2],
}

fn build_cond_outer(common: &CommonCircuitData<F, D>) -> CondOuter {
    let mut b = CircuitBuilder::<F, D>::new(CircuitConfig::standard_recursion_config());
    let cap_h = common.config.fri_config.cap_height;
    let pt0 = b.add_virtual_proof_with_pis(common);
    let vd0 = b.add_virtual_verifier_data(cap_h);
    let pt1 = b.add_virtual_proof_with_pis(common);
    let vd1 = b.add_virtual_verifier_data(cap_h);
    let cond = b.add_virtual_bool_target_safe();
    b.conditionally_verify_proof::<C>(cond, &pt0, &vd0, &pt1, &vd1, common);
    let data = b.build::<C>();
    let instances = plonky2::verif_hooks::take_gate_instances::<F, D>().expect("recorder");
    CondOuter {
        data,
        instances,
        cond,
        pt: [pt0, pt1],
        vdt: [vd0, vd1],
    }
}

fn cond_prop(c: &CondCase, st: &mut Stats) -> Result<(), String> {
    let pr = prove_case::<C>(&c.circuit, &opts(), &limits(), st)?;
    let a = &pr.built.data;
    let chash = hash_of(&c.circuit);
    // ---- dummy circuit / dummy proof for this shape ----
    st.evals(1);
    let dummy = match catch(|| dummy_circuit::<F, C, D>(&a.common)) {
        Ok(d) => d,
        Err(p) => {
            // the helper asserts that it reproduced the requested shape; a shape it cannot reproduce
            // is outside the statement ("dummy proofs generated for a circuit shape ...")
            st.label("dummy_shape_not_reproducible");
            if !p.contains("assertion") {
                return Err(format!("dummy_circuit panicked unexpectedly: {}", p));
            }
            return Ok(());
        }
    };
    if dummy.common != a.common {
        return Err("dummy_circuit returned a circuit with different common data".into());
    }
    let mut nz = HashMap::new();
    for (i, r) in c.edits.iter().enumerate() {
        if a.common.num_public_inputs > 0 {
            nz.insert(frac32(r.pos, a.common.num_public_inputs), F::from_canonical_u64(r.val % crate::gen::field::P));
        }
        let _ = i;
    }
    let dproof = dummy_proof::<F, C, D>(&dummy, nz.clone()).map_err(|e| format!("dummy_proof failed: {:#}", e))?;
    dummy.verify(dproof.clone()).map_err(|e| format!("dummy proof REJECTED by its dummy circuit: {:#}", e))?;
    for (k, v) in &nz {
        if dproof.public_inputs[*k] != *v {
            return Err("dummy proof does not carry the requested public inputs".into());
        }
    }
    st.label("dummy_proof_verified");

    // ---- conditional verification: circuit 0 = the real one, circuit 1 = its dummy ----
    let outer = catch(|| build_cond_outer(&a.common)).map_err(|p| format!("building the conditional verifier PANICKED: {}", p))?;
    let circuits: [(&CircuitData<F, C, D>, &ProofWithPublicInputs<F, C, D>); 2] = [(a, &pr.proof), (&dummy, &dproof)];
    // edited proofs for each branch
    let edited: Vec<ProofWithPublicInputs<F, C, D>> = (0..2)
        .map(|i| {
            let mut tree: Value = to_tree(circuits[i].1);
            let leaves = numeric_leaves(&tree);
            let r = &c.edits[i];
            let path = &leaves[frac32(r.pos, leaves.len())];
            edit_value(&mut tree, path, ValueEdit::Plus1, crate::gen::field::P);
            Deserialize::deserialize(&tree).unwrap_or_else(|_| circuits[i].1.clone())
        })
        .collect();
    for (n, &(cond, s0, s1)) in c.combos.iter().enumerate() {
        // branch state: 0 valid, 1 edited proof, 2 proof of the other circuit, 3 wrong verifier data
        let pick = |branch: usize, s: u8| -> (ProofWithPublicInputs<F, C, D>, VerifierOnlyCircuitData<C, D>) {
            let (own, own_proof) = circuits[branch];
            let (other, other_proof) = circuits[1 - branch];
            match s {
                0 => (own_proof.clone(), own.verifier_only.clone()),
                1 => (edited[branch].clone(), own.verifier_only.clone()),
                2 => (other_proof.clone(), own.verifier_only.clone()),
                _ => (own_proof.clone(), other.verifier_only.clone()),
            }
        };
        let (p0, v0) = pick(0, s0);
        let (p1, v1) = pick(1, s1);
        // native validity of the SELECTED pair (condition true selects branch 0)
        let (ps, vs) = if cond { (&p0, &v0) } else { (&p1, &v1) };
        let vdata = VerifierCircuitData {
            verifier_only: vs.clone(),
            common: a.common.clone(),
        };
        let native = catch(|| vdata.verify(ps.clone())).map(|r| r.is_ok()).unwrap_or(false);
        // circuit verdict
        let mut pw = PartialWitness::new();
        let assign = catch(|| -> anyhow::Result<()> {
            pw.set_bool_target(outer.cond, cond)?;
            pw.set_proof_with_pis_target(&outer.pt[0], &p0)?;
            pw.set_verifier_data_target(&outer.vdt[0], &v0)?;
            pw.set_proof_with_pis_target(&outer.pt[1], &p1)?;
            pw.set_verifier_data_target(&outer.vdt[1], &v1)?;
            Ok(())
        });
        st.evals(1);
        let circuit_ok = match assign {
            Ok(Ok(())) => match catch(|| generate_partial_witness(pw.clone(), &outer.data.prover_only, &outer.data.common)) {
                Ok(Ok(part)) => sat::check_partition::<C>(&outer.data, &outer.instances, &part, None).clean(),
                _ => false,
            },
            _ => false,
        };
        let sel_state = if cond { s0 } else { s1 };
        let unsel_state = if cond { s1 } else { s0 };
        st.label(&format!("selected_state{}_unselected_state{}", sel_state, unsel_state));
        if (sel_state == 0) != (unsel_state == 0) {
            st.nontrivial(&(chash, n, cond, s0, s1));
        }
        if native != circuit_ok {
            return Err(format!(
                "conditional verifier: native validity of the selected proof is {} but the circuit says {} (condition {}, branch states {} / {})",
                native, circuit_ok, cond, s0, s1
            ));
        }
        // a valid selected branch must be provable regardless of the other branch
        if native && n % 4 == 0 {
            let op = outer.data.prove(pw).map_err(|e| format!("outer prove failed although the selected proof is valid: {:#}", e))?;
            outer.data.verify(op).map_err(|e| format!("outer proof rejected: {:#}", e))?;
            st.label("outer_proved");
        }
    }
    st.sample(|| json!({"inner_config": format!("{:?}", pr.built.config), "ops": pr.built.elab.description(), "combos": c.combos}));
    Ok(())
}

// ------------------------------------------------------------------------------------------
// conditional verification of two proofs of the SAME inner circuit (any shape: lookups, blinding)
// ------------------------------------------------------------------------------------------

fn cond_case_any(max_ops: usize, n: usize) -> BoxedStrategy<CondCase> {
    bx((
        raw_circuit(max_ops),
        prop::collection::vec(raw_edit(), 4..=4),
        prop::collection::vec((any::<bool>(), 0u8..3, 0u8..3), n..=n),
    )
        .prop_map(|(mut circuit, edits, combos)| {
            circuit.config.keccak = false;
            CondCase { circuit, edits, combos }
        }))
}

fn cond_same_prop(c: &CondCase, st: &mut Stats) -> Result<(), String> {
    let lim = ConfigLimits {
        min_queries: 1,
        max_queries: 6,
        max_queries_zk: 3,
        max_pow: 5,
        allow_keccak: false,
        ..ConfigLimits::default()
    };
    // lookups are forced into the program half of the time by the generator; make them likely
    let o = DslOpts::default();
    // make lookup tables common: in two thirds of the cases 1-3 lookup ops are appended to the program
    let mut raw = c.circuit.clone();
    for (i, r) in c.edits.iter().enumerate().take(3) {
        if c.edits[0].kind % 3 != 0 && (i == 0 || r.kind & 1 == 1) {
            raw.program.ops.push(crate::gen::dsl::raw_op_of_kind(crate::gen::dsl::KIND_LOOKUP, r.pos as u16, (r.pos >> 16) as u16, r.kind as u16 * 257, r.val));
        }
    }
    let pr = prove_case::<C>(&raw, &o, &lim, st)?;
    let a = &pr.built.data;
    let chash = hash_of(&c.circuit);
    st.label(if a.common.luts.is_empty() { "inner_without_lookups" } else { "inner_with_lookups" });
    st.label(if a.common.config.zero_knowledge { "inner_zk" } else { "inner_nozk" });
    let second = a.prove(pr.built.elab.witness()).map_err(|e| format!("second honest proof failed: {:#}", e))?;
    let proofs = [pr.proof.clone(), second];
    let outer = catch(|| build_cond_outer(&a.common)).map_err(|p| format!("building the conditional verifier PANICKED: {}", p))?;
    let edited: Vec<ProofWithPublicInputs<F, C, D>> = (0..2)
        .map(|i| {
            let mut tree: Value = to_tree(&proofs[i]);
            let leaves = numeric_leaves(&tree);
            let r = &c.edits[i];
            let path = &leaves[frac32(r.pos, leaves.len())];
            edit_value(&mut tree, path, ValueEdit::Plus1, crate::gen::field::P);
            Deserialize::deserialize(&tree).unwrap_or_else(|_| proofs[i].clone())
        })
        .collect();
    let mut vd_bad = a.verifier_only.clone();
    vd_bad.circuit_digest.elements[1] += F::ONE;
    for (n, &(cond, s0, s1)) in c.combos.iter().enumerate() {
        let pick = |branch: usize, s: u8| -> (ProofWithPublicInputs<F, C, D>, VerifierOnlyCircuitData<C, D>) {
            match s {
                0 => (proofs[branch].clone(), a.verifier_only.clone()),
                1 => (edited[branch].clone(), a.verifier_only.clone()),
                _ => (proofs[branch].clone(), vd_bad.clone()),
            }
        };
        let (p0, v0) = pick(0, s0);
        let (p1, v1) = pick(1, s1);
        let (ps, vs) = if cond { (&p0, &v0) } else { (&p1, &v1) };
        let vdata = VerifierCircuitData {
            verifier_only: vs.clone(),
            common: a.common.clone(),
        };
        let native = catch(|| vdata.verify(ps.clone())).map(|r| r.is_ok()).unwrap_or(false);
        let mut pw = PartialWitness::new();
        let assign = catch(|| -> anyhow::Result<()> {
            pw.set_bool_target(outer.cond, cond)?;
            pw.set_proof_with_pis_target(&outer.pt[0], &p0)?;
            pw.set_verifier_data_target(&outer.vdt[0], &v0)?;
            pw.set_proof_with_pis_target(&outer.pt[1], &p1)?;
            pw.set_verifier_data_target(&outer.vdt[1], &v1)?;
            Ok(())
        });
        st.evals(1);
        let circuit_ok = match assign {
            Ok(Ok(())) => match catch(|| generate_partial_witness(pw.clone(), &outer.data.prover_only, &outer.data.common)) {
                Ok(Ok(part)) => sat::check_partition::<C>(&outer.data, &outer.instances, &part, None).clean(),
                _ => false,
            },
            _ => false,
        };
        let sel_state = if cond { s0 } else { s1 };
        let unsel_state = if cond { s1 } else { s0 };
        st.label(&format!("same_circuit:cond{}_sel{}_unsel{}", cond as u8, sel_state, unsel_state));
        if (sel_state == 0) != (unsel_state == 0) {
            st.nontrivial(&(chash, "same", n, cond, s0, s1));
        }
        if native != circuit_ok {
            return Err(format!(
                "conditional verifier (two proofs of one circuit, lookups: {}): native validity of the selected proof is {} but the circuit says {} (condition {}, branch states {} / {})",
                !a.common.luts.is_empty(), native, circuit_ok, cond, s0, s1
            ));
        }
    }
    Ok(())
}

// ------------------------------------------------------------------------------------------
// cyclic recursion
// ------------------------------------------------------------------------------------------

#[derive(Clone, Debug, Serialize, Deserialize)]
pub struct CycCase {
    pub initial: [u64; 4],
    pub length: u8,
    pub edits: Vec<RawEdit>,
}

fn cyc_case(max_len: u8) -> BoxedStrategy<CycCase> {
    bx((prop::array::uniform4(crate::gen::field::canonical()), 1..=max_len, prop::collection::vec(raw_edit(), 6..=6))
        .prop_map(|(initial, length, edits)| CycCase { initial, length, edits }))
}

/// The three-step recipe of the library's own test.
fn common_data_for_recursion() -> CommonCircuitData<F, D> {
    let config = CircuitConfig::standard_recursion_config();
    let builder = CircuitBuilder::<F, D>::new(config.clone());
    let data = builder.build::<C>();
    let mut builder = CircuitBuilder::<F, D>::new(config.clone());
    let proof = builder.add_virtual_proof_with_pis(&data.common);
    let vd = builder.add_virtual_verifier_data(data.common.config.fri_config.cap_height);
    builder.verify_proof::<C>(&proof, &vd, &data.common);
    let data = builder.build::<C>();
    let mut builder = CircuitBuilder::<F, D>::new(config);
    let proof = builder.add_virtual_proof_with_pis(&data.common);
    let vd = builder.add_virtual_verifier_data(data.common.config.fri_config.cap_height);
    builder.verify_proof::<C>(&proof, &vd, &data.common);
    while builder.num_gates() < 1 << 12 {
        builder.add_gate(NoopGate, vec![]);
    }
    builder.build::<C>().common
}

fn cyc_prop(c: &CycCase, st: &mut Stats) -> Result<(), String> {
    let config = CircuitConfig::standard_recursion_config();
    let mut builder = CircuitBuilder::<F, D>::new(config);
    let one = builder.one();
    let initial_hash_target = builder.add_virtual_hash();
    builder.register_public_inputs(&initial_hash_target.elements);
    let current_hash_in = builder.add_virtual_hash();
    let current_hash_out = builder.hash_n_to_hash_no_pad::<PoseidonHash>(current_hash_in.elements.to_vec());
    builder.register_public_inputs(&current_hash_out.elements);
    let counter = builder.add_virtual_public_input();
    let mut common_data = common_data_for_recursion();
    let verifier_data_target = builder.add_verifier_data_public_inputs();
    common_data.num_public_inputs = builder.num_public_inputs();
    let condition = builder.add_virtual_bool_target_safe();
    let inner = builder.add_virtual_proof_with_pis(&common_data);
    let inner_pis = &inner.public_inputs;
    let inner_initial = HashOutTarget::try_from(&inner_pis[0..4]).unwrap();
    let inner_latest = HashOutTarget::try_from(&inner_pis[4..8]).unwrap();
    let inner_counter = inner_pis[8];
    builder.connect_hashes(initial_hash_target, inner_initial);
    let actual_in = plonky2::hash::hash_types::HashOutTarget {
        elements: core::array::from_fn(|i| builder.select(condition, inner_latest.elements[i], initial_hash_target.elements[i])),
    };
    builder.connect_hashes(current_hash_in, actual_in);
    let new_counter = builder.mul_add(condition.target, inner_counter, one);
    builder.connect(counter, new_counter);
    builder
        .conditionally_verify_cyclic_proof_or_dummy::<C>(condition, &inner, &common_data)
        .map_err(|e| format!("conditionally_verify_cyclic_proof_or_dummy failed: {:#}", e))?;
    let data = builder.build::<C>();
    if data.common != common_data {
        return Err("cyclic circuit's common data differ from the data it verifies (recipe of the library test)".into());
    }

    let initial: [F; 4] = core::array::from_fn(|i| F::from_canonical_u64(c.initial[i] % crate::gen::field::P));
    let step = |cond: bool, inner_proof: &ProofWithPublicInputs<F, C, D>| -> anyhow::Result<ProofWithPublicInputs<F, C, D>> {
        let mut pw = PartialWitness::new();
        pw.set_bool_target(condition, cond)?;
        pw.set_proof_with_pis_target::<C, D>(&inner, inner_proof)?;
        pw.set_verifier_data_target(&verifier_data_target, &data.verifier_only)?;
        data.prove(pw)
    };
    let base = cyclic_base_proof(&common_data, &data.verifier_only, initial.into_iter().enumerate().collect());
    let mut proof = step(false, &base).map_err(|e| format!("base step of the cyclic chain failed: {:#}", e))?;
    st.evals(1);
    let mut expected = initial;
    let chain_len = c.length as usize;
    for i in 0..=chain_len {
        // invariants of every proof of the chain
        data.verify(proof.clone()).map_err(|e| format!("proof #{} of the cyclic chain rejected: {:#}", i, e))?;
        check_cyclic_proof_verifier_data(&proof, &data.verifier_only, &data.common)
            .map_err(|e| format!("proof #{} does not carry the circuit's own verifier data: {:#}", i, e))?;
        expected = PoseidonHash::hash_no_pad(&expected).elements;
        let got_hash: Vec<u64> = proof.public_inputs[4..8].iter().map(|x| x.to_canonical_u64()).collect();
        let want_hash: Vec<u64> = expected.iter().map(|x| x.to_canonical_u64()).collect();
        if got_hash != want_hash || proof.public_inputs[8].to_canonical_u64() != (i + 1) as u64 {
            return Err(format!("proof #{} carries wrong chain outputs", i));
        }
        if proof.public_inputs[0..4] != initial {
            return Err("initial hash not preserved along the chain".into());
        }
        // any alteration of the embedded verifier data is detected
        let n_pis = proof.public_inputs.len();
        let vd_len = 4 + 4 * data.common.config.fri_config.num_cap_elements();
        for r in &c.edits {
            let k = n_pis - vd_len + frac32(r.pos, vd_len);
            let mut p2 = proof.clone();
            p2.public_inputs[k] += F::ONE;
            st.evals(1);
            st.nontrivial(&(c.initial, i, k));
            if check_cyclic_proof_verifier_data(&p2, &data.verifier_only, &data.common).is_ok() {
                return Err(format!("check_cyclic_proof_verifier_data accepts altered embedded verifier data (public input {})", k));
            }
            // and such a proof cannot be extended: the next step must not yield an accepted proof
            if i == chain_len && r.kind % 3 == 0 {
                st.label("extend_altered");
                match catch(|| step(true, &p2)) {
                    Ok(Ok(p3)) => {
                        if data.verify(p3).is_ok() {
                            return Err("a chain was extended from a proof with altered embedded verifier data".into());
                        }
                    }
                    _ => {}
                }
            }
        }
        if i < chain_len {
            proof = step(true, &proof).map_err(|e| format!("recursive step #{} failed: {:#}", i + 1, e))?;
            st.evals(1);
        }
    }
    st.label(&format!("chain_len{}", chain_len));
    st.sample(|| json!({"initial": c.initial, "length": chain_len, "degree_bits": data.common.degree_bits()}));
    Ok(())
}

pub fn run(ctx: &mut Ctx) {
    ctx.rule = "conditional: generated inner circuit + its library-made dummy circuit (equal common data) x condition x state of each branch \
                (valid / value-edited / proof of the other circuit / other verifier data); oracle = native validity of the selected pair == \
                (assignment + witness generation succeed and no gate row / copy class violated); dummy proofs verify against their dummy circuit; \
                cyclic: chains of generated length from a generated initial hash, every proof verifies, carries the circuit's verifier data and \
                the reference hash chain, edits of the embedded verifier data are detected and cannot be extended; \
                non-trivial = exactly one of selected / unselected branch is invalid, resp. an alteration of embedded data"
        .into();
    ctx.assumptions.push("inner shapes are non-zk and lookup-free (documented preconditions of dummy_circuit); Poseidon config only".into());
    ctx.shrink_iters = 10;
    let (n, combos) = ctx.tier.pick((28, 12), (400, 40));
    let max_ops = ctx.tier.pick(8, 25);
    ctx.run_sub("conditional_and_dummy", n, 14, move || cond_case(max_ops, combos), cond_prop);
    let (n2, combos2) = ctx.tier.pick((28, 10), (400, 30));
    ctx.run_sub("conditional_same_circuit", n2, 14, move || cond_case_any(max_ops, combos2), cond_same_prop);
    let (nc, max_len) = ctx.tier.pick((2, 2u8), (12, 4u8));
    ctx.run_sub("cyclic_chain", nc, 2, move || cyc_case(max_len), cyc_prop);
    let _ = HashOut::<F>::ZERO;
}
