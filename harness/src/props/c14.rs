//! C14 — field arithmetic is exact modular arithmetic on every representation.
//! Oracles: u128 arithmetic mod p (gen::field::refmod), BigUint modpow, and schoolbook
//! polynomial arithmetic modulo X^D - W written here (struct XR).

use num::{BigUint, Integer, One, Zero};
use plonky2_field::batch_util::{batch_add_inplace, batch_multiply_inplace};
use plonky2_field::extension::{Extendable, FieldExtension, Frobenius, OEF};
use plonky2_field::goldilocks_field::GoldilocksField as F;
use plonky2_field::ops::Square;
use plonky2_field::packable::Packable;
use plonky2_field::packed::PackedField;
use plonky2_field::types::{Field, Field64, PrimeField, PrimeField64};
use proptest::collection::vec as pvec;
use proptest::prelude::*;
use serde::{Deserialize, Serialize};
use serde_json::json;

use crate::engine::{bx, frac, Ctx, Stats};
use crate::gen::field::{any_repr, class_of, is_boundary, refmod, EPS, P};

const P128: u128 = P as u128;

macro_rules! ck {
    ($cond:expr, $($arg:tt)*) => {
        if !($cond) {
            return Err(format!($($arg)*));
        }
    };
}

// ------------------------------------------------------------------------------------------
// Operand predicates for the rare branches (computed from operands only)
// ------------------------------------------------------------------------------------------

/// (borrow in `x_lo - x_hi_hi`, overflow in the final `t0 + t1`) of the 128-bit reduction.
fn reduce128_preds(x: u128) -> (bool, bool) {
    let x_lo = x as u64;
    let x_hi = (x >> 64) as u64;
    let hh = x_hi >> 32;
    let hl = x_hi & EPS;
    let (mut t0, borrow) = x_lo.overflowing_sub(hh);
    if borrow {
        t0 = t0.wrapping_sub(EPS);
    }
    let t1 = hl * EPS; // <= (2^32-1)^2, cannot overflow
    (borrow, t0.checked_add(t1).is_none())
}

fn add_double_overflow(a: u64, b: u64) -> bool {
    let (s1, o1) = a.overflowing_add(b);
    o1 && s1.overflowing_add(EPS).1
}

fn sub_double_underflow(a: u64, b: u64) -> bool {
    let (d1, u1) = a.overflowing_sub(b);
    u1 && d1.overflowing_sub(EPS).1
}

fn label_reduce128(st: &mut Stats, tag: &str, x: u128) {
    let (b, o) = reduce128_preds(x);
    if b {
        st.label(&format!("branch:reduce128_borrow[{}]", tag));
    }
    if o {
        st.label(&format!("branch:reduce128_final_add_overflow[{}]", tag));
    }
    if b && o {
        st.label(&format!("branch:reduce128_borrow_and_overflow[{}]", tag));
    }
}

// ------------------------------------------------------------------------------------------
// scalar_ops
// ------------------------------------------------------------------------------------------

#[derive(Clone, Debug, Serialize, Deserialize)]
pub struct Triple {
    pub a: u64,
    pub b: u64,
    pub c: u64,
}

fn small() -> impl Strategy<Value = u64> {
    prop_oneof![4 => 0u64..4, 1 => 0u64..70_000]
}

fn triple() -> BoxedStrategy<Triple> {
    // Independent boundary-biased operands plus correlated classes that hit the rare
    // double-overflow / double-underflow / borrow branches.
    let indep = (any_repr(), any_repr(), any_repr()).prop_map(|(a, b, c)| Triple { a, b, c });
    let corr_add = (any_repr(), 0u64..4, any_repr()).prop_map(|(a, k, c)| Triple {
        a,
        b: (0u64.wrapping_sub(a)).wrapping_add(k).wrapping_sub(2), // a+b wraps around 2^64 by ~0
        c,
    });
    let corr_sub = (any_repr(), 0u64..4, any_repr()).prop_map(|(a, k, c)| Triple {
        a,
        b: a.wrapping_add(k).wrapping_sub(2), // a-b near 0 from both sides
        c,
    });
    // both operands in the top 2^32 window: a+b >= 2^64+p about half of the time
    let both_big = (0u64..0x1_0000_0000, 0u64..0x1_0000_0000, any_repr()).prop_map(|(x, y, c)| Triple {
        a: u64::MAX - x,
        b: u64::MAX - y,
        c,
    });
    // a tiny, b in the top window: b-a > p (double underflow of a-b) about half of the time
    let small_minus_big = (0u64..0x1_0000_0000, 0u64..0x1_0000_0000, any_repr()).prop_map(|(x, y, c)| Triple {
        a: x,
        b: u64::MAX - y,
        c,
    });
    // exact edges of the double overflow / underflow conditions
    let edge_add = (0u64..0xFFFF_FFFE, 0u64..5, any_repr()).prop_map(|(x, k, c)| {
        // a = 2^64-1-x, b chosen so that a+b = 2^64+p-2+k
        let a = u64::MAX - x;
        let b = (P - 2 + k).wrapping_sub(a); // mod 2^64: b = 2^64+p-2+k-a
        Triple { a, b, c }
    });
    let edge_sub = (0u64..0xFFFF_FFFE, 0u64..5, any_repr()).prop_map(|(a, k, c)| Triple {
        a,
        b: (P - 2 + k).wrapping_add(a), // b-a = p-2+k
        c,
    });
    // a*b divisible by 2^64 (x_lo = 0) with x_hi >= 2^32 mostly: the reduce128 borrow branch;
    // c (often tiny) then gives a non-zero x_lo < x_hi_hi through c + a*b.
    let mul_borrow = (1u32..64, any::<u64>(), any::<u64>(), any_repr()).prop_map(|(s, u, v, c)| Triple {
        a: u << s,
        b: v << (64 - s),
        c,
    });
    bx(prop_oneof![
        8 => indep, 2 => corr_add, 2 => corr_sub, 2 => both_big, 2 => small_minus_big,
        1 => edge_add, 1 => edge_sub, 3 => mul_borrow
    ])
}

fn check_eq(what: &str, got: F, want: u64, t: &Triple) -> Result<(), String> {
    if got.to_canonical_u64() != want {
        return Err(format!(
            "{}: got {} want {} for a={:#x} b={:#x} c={:#x}",
            what,
            got.to_canonical_u64(),
            want,
            t.a,
            t.b,
            t.c
        ));
    }
    Ok(())
}

fn scalar_ops(t: &Triple, st: &mut Stats) -> Result<(), String> {
    let (a, b, c) = (F(t.a), F(t.b), F(t.c));
    st.label(class_of(t.a));
    if is_boundary(t.a) || is_boundary(t.b) || t.a >= P || t.b >= P {
        st.nontrivial(&(t.a, t.b, t.c));
    }
    // Rare-branch accounting (operand predicates computed here, not read from the code).
    if add_double_overflow(t.a, t.b) {
        st.label("branch:add_double_overflow");
    }
    if sub_double_underflow(t.a, t.b) {
        st.label("branch:sub_double_underflow");
    }
    let wide = ((t.a as u128) << 64) | t.b as u128;
    label_reduce128(st, "mul", t.a as u128 * t.b as u128);
    label_reduce128(st, "u128", wide);
    label_reduce128(st, "mac", t.c as u128 + t.a as u128 * t.b as u128);
    st.sample(|| json!({"a": t.a, "b": t.b, "c": t.c}));

    check_eq("add", a + b, refmod::add(t.a, t.b), t)?;
    check_eq("add(b,a)", b + a, refmod::add(t.a, t.b), t)?;
    check_eq("sub", a - b, refmod::sub(t.a, t.b), t)?;
    check_eq("sub(b,a)", b - a, refmod::sub(t.b, t.a), t)?;
    check_eq("neg", -a, refmod::neg(t.a), t)?;
    check_eq("mul", a * b, refmod::mul(t.a, t.b), t)?;
    check_eq("mul(b,a)", b * a, refmod::mul(t.a, t.b), t)?;
    check_eq("square", a.square(), refmod::mul(t.a, t.a), t)?;
    check_eq("double", a.double(), refmod::add(t.a, t.a), t)?;
    check_eq("cube", a.cube(), refmod::mul(t.a, refmod::mul(t.a, t.a)), t)?;
    check_eq("triple", a.triple(), refmod::mul(t.a, 3), t)?;
    check_eq(
        "multiply_accumulate",
        a.multiply_accumulate(b, c),
        refmod::add(t.a, refmod::mul(t.b, t.c)),
        t,
    )?;
    check_eq(
        "multiply_accumulate(c;a,b)",
        c.multiply_accumulate(a, b),
        refmod::add(t.c, refmod::mul(t.a, t.b)),
        t,
    )?;
    let mut x = a;
    x += b;
    check_eq("add_assign", x, refmod::add(t.a, t.b), t)?;
    let mut x = a;
    x -= b;
    check_eq("sub_assign", x, refmod::sub(t.a, t.b), t)?;
    let mut x = a;
    x *= b;
    check_eq("mul_assign", x, refmod::mul(t.a, t.b), t)?;
    check_eq("to_canonical", F(a.to_canonical_u64()), t.a % P, t)?;
    if a.to_canonical_u64() >= P {
        return Err(format!("to_canonical_u64 not canonical for {:#x}", t.a));
    }
    if a.to_noncanonical_u64() % P != t.a % P {
        return Err(format!("to_noncanonical_u64 changes the residue of {:#x}", t.a));
    }
    if (a == b) != (t.a % P == t.b % P) {
        return Err(format!("eq disagrees with residues for {:#x} {:#x}", t.a, t.b));
    }
    if a.is_zero() != (t.a % P == 0) || a.is_one() != (t.a % P == 1) || a.is_nonzero() == a.is_zero() {
        return Err(format!("is_zero/is_one/is_nonzero wrong for {:#x}", t.a));
    }
    // widening reductions
    check_eq("from_noncanonical_u128", F::from_noncanonical_u128(wide), refmod::red(wide), t)?;
    let n96 = (t.a, t.b as u32);
    let v96 = ((n96.1 as u128) << 64) | n96.0 as u128;
    check_eq("from_noncanonical_u96", F::from_noncanonical_u96(n96), refmod::red(v96), t)?;
    check_eq("from_noncanonical_u64", F::from_noncanonical_u64(t.a), t.a % P, t)?;
    let i = t.a as i64;
    let want_i = if i >= 0 { (i as u64) % P } else { refmod::neg(i.unsigned_abs()) };
    check_eq("from_noncanonical_i64", F::from_noncanonical_i64(i), want_i, t)?;
    // documented precondition: rhs canonical
    let rc = t.b % P;
    check_eq("add_canonical_u64", unsafe { a.add_canonical_u64(rc) }, refmod::add(t.a, rc), t)?;
    check_eq("sub_canonical_u64", unsafe { a.sub_canonical_u64(rc) }, refmod::sub(t.a, rc), t)?;
    check_eq("add_one", a.add_one(), refmod::add(t.a, 1), t)?;
    check_eq("sub_one", a.sub_one(), refmod::sub(t.a, 1), t)?;
    // inversion / exponentiation
    if t.a % P != 0 {
        let inv = a.inverse();
        check_eq("inverse", inv, refmod::inv(t.a), t)?;
        check_eq("a*inv", a * inv, 1, t)?;
        check_eq("div", b / a, refmod::mul(t.b, refmod::inv(t.a)), t)?;
        let mut x = b;
        x /= a;
        check_eq("div_assign", x, refmod::mul(t.b, refmod::inv(t.a)), t)?;
    } else if a.try_inverse().is_some() {
        return Err(format!("try_inverse(0-residue {:#x}) returned Some", t.a));
    }
    check_eq("exp_u64", a.exp_u64(t.c), refmod::pow(t.a, t.c as u128), t)?;
    let k = (t.c % 70) as usize;
    check_eq("exp_power_of_2", a.exp_power_of_2(k), refmod::pow(t.a, 1u128 << k), t)?;
    Ok(())
}

// ------------------------------------------------------------------------------------------
// Reference arithmetic in F_p[X]/(X^D - W) on canonical residues (schoolbook)
// ------------------------------------------------------------------------------------------

#[inline]
fn cm(a: u64, b: u64) -> u64 {
    ((a as u128 * b as u128) % P128) as u64
}
#[inline]
fn ca(a: u64, b: u64) -> u64 {
    ((a as u128 + b as u128) % P128) as u64
}
#[inline]
fn cs(a: u64, b: u64) -> u64 {
    ((a as u128 % P128 + P128 - b as u128 % P128) % P128) as u64
}

#[derive(Clone, Copy, Debug)]
struct XR {
    d: usize,
    w: u64,
}

impl XR {
    fn canon(&self, v: &[u64]) -> Vec<u64> {
        v[..self.d].iter().map(|&x| x % P).collect()
    }
    fn zero(&self) -> Vec<u64> {
        vec![0; self.d]
    }
    fn base(&self, s: u64) -> Vec<u64> {
        let mut v = self.zero();
        v[0] = s % P;
        v
    }
    fn one(&self) -> Vec<u64> {
        self.base(1)
    }
    fn add(&self, a: &[u64], b: &[u64]) -> Vec<u64> {
        (0..self.d).map(|i| ca(a[i], b[i])).collect()
    }
    fn sub(&self, a: &[u64], b: &[u64]) -> Vec<u64> {
        (0..self.d).map(|i| cs(a[i], b[i])).collect()
    }
    fn neg(&self, a: &[u64]) -> Vec<u64> {
        (0..self.d).map(|i| cs(0, a[i])).collect()
    }
    fn scal(&self, a: &[u64], s: u64) -> Vec<u64> {
        (0..self.d).map(|i| cm(a[i] % P, s % P)).collect()
    }
    /// Schoolbook product, then X^k -> W * X^(k-D) for k >= D.
    fn mul(&self, a: &[u64], b: &[u64]) -> Vec<u64> {
        let d = self.d;
        let mut prod = vec![0u64; 2 * d - 1];
        for i in 0..d {
            for j in 0..d {
                prod[i + j] = ca(prod[i + j], cm(a[i] % P, b[j] % P));
            }
        }
        for k in (d..2 * d - 1).rev() {
            prod[k - d] = ca(prod[k - d], cm(self.w, prod[k]));
        }
        prod.truncate(d);
        prod
    }
    fn pow(&self, a: &[u64], e: &BigUint) -> Vec<u64> {
        let mut acc = self.one();
        for i in (0..e.bits()).rev() {
            acc = self.mul(&acc, &acc);
            if e.bit(i) {
                acc = self.mul(&acc, a);
            }
        }
        acc
    }
    fn pow_u64(&self, a: &[u64], e: u64) -> Vec<u64> {
        self.pow(a, &BigUint::from(e))
    }
    fn is_zero(&self, a: &[u64]) -> bool {
        a[..self.d].iter().all(|&x| x % P == 0)
    }
}

type Ex<const D: usize> = <F as Extendable<D>>::Extension;

fn mk<const D: usize>(v: &[u64]) -> Ex<D>
where
    F: Extendable<D>,
{
    <Ex<D> as FieldExtension<D>>::from_basefield_array(core::array::from_fn(|i| F(v[i])))
}

fn res<const D: usize>(e: &Ex<D>) -> Vec<u64>
where
    F: Extendable<D>,
{
    <Ex<D> as FieldExtension<D>>::to_basefield_array(e)
        .iter()
        .map(|x| x.to_canonical_u64())
        .collect()
}

fn xr_of<const D: usize>() -> XR
where
    F: Extendable<D>,
{
    XR { d: D, w: <F as Extendable<D>>::W.to_canonical_u64() }
}

fn xeq(what: &str, got: &[u64], want: &[u64]) -> Result<(), String> {
    if got != want {
        return Err(format!("{}: got {:?} want {:?}", what, got, want));
    }
    Ok(())
}

fn big_from_digits(digits: &[u64]) -> BigUint {
    // little-endian 64-bit digits
    digits.iter().rev().fold(BigUint::zero(), |acc, &d| (acc << 64usize) + BigUint::from(d))
}

// ------------------------------------------------------------------------------------------
// batch_inverse
// ------------------------------------------------------------------------------------------

#[derive(Clone, Debug, Serialize, Deserialize)]
pub struct BatchCase {
    /// 0 -> base field, 1 -> D=2, 2 -> D=4, 3 -> D=5
    pub d_sel: u8,
    /// n*D raw representations
    pub vals: Vec<u64>,
}

const DS: [usize; 4] = [1, 2, 4, 5];

fn batch_case() -> BoxedStrategy<BatchCase> {
    bx((prop_oneof![3 => Just(0u8), 1 => Just(1u8), 1 => Just(2u8), 1 => Just(3u8)], 0usize..=40)
        .prop_flat_map(|(d_sel, n)| {
            pvec(any_repr(), n * DS[d_sel as usize]).prop_map(move |vals| BatchCase { d_sel, vals })
        }))
}

/// Make every D-chunk a non-zero element without leaving its representation class.
fn nonzero_chunks(vals: &[u64], d: usize) -> Vec<Vec<u64>> {
    vals.chunks_exact(d)
        .map(|c| {
            let mut c = c.to_vec();
            if c.iter().all(|&x| x % P == 0) {
                c[0] += 1; // 0 -> 1, p -> p+1
            }
            c
        })
        .collect()
}

fn batch_ext<const D: usize>(elems: &[Vec<u64>]) -> Result<(), String>
where
    F: Extendable<D>,
{
    let xr = xr_of::<D>();
    let xs: Vec<Ex<D>> = elems.iter().map(|e| mk::<D>(e)).collect();
    let inv = Ex::<D>::batch_multiplicative_inverse(&xs);
    ck!(inv.len() == xs.len(), "batch inverse (D={}) length {} != {}", D, inv.len(), xs.len());
    for (i, (e, r)) in elems.iter().zip(&inv).enumerate() {
        let prod = xr.mul(&xr.canon(e), &res::<D>(r));
        ck!(
            prod == xr.one(),
            "batch inverse (D={}) element {} of {}: x*inv = {:?} for x = {:x?}",
            D,
            i,
            elems.len(),
            prod,
            e
        );
    }
    Ok(())
}

fn batch_inverse(c: &BatchCase, st: &mut Stats) -> Result<(), String> {
    let d = DS[(c.d_sel as usize).min(3)];
    let elems = nonzero_chunks(&c.vals, d);
    let n = elems.len();
    st.label(&format!("batch:D={}", d));
    st.label(if n <= 3 { "batch:n<=3 special case" } else { "batch:n>=4 four chains" });
    st.label(&format!("batch:n%4={}", n % 4));
    st.evals(n as u64);
    if c.vals.iter().any(|&x| x >= P || is_boundary(x)) {
        st.nontrivial(&(c.d_sel, &c.vals));
    }
    st.sample(|| json!({"d": d, "n": n}));
    match d {
        1 => {
            let xs: Vec<F> = elems.iter().map(|e| F(e[0])).collect();
            let inv = F::batch_multiplicative_inverse(&xs);
            ck!(inv.len() == n, "batch inverse length {} != {}", inv.len(), n);
            for (i, (e, r)) in elems.iter().zip(&inv).enumerate() {
                let got = r.to_canonical_u64();
                ck!(
                    got == refmod::inv(e[0]) && refmod::mul(got, e[0]) == 1,
                    "batch inverse element {} of {}: got {} want {} for x={:#x}",
                    i,
                    n,
                    got,
                    refmod::inv(e[0]),
                    e[0]
                );
            }
            Ok(())
        }
        2 => batch_ext::<2>(&elems),
        4 => batch_ext::<4>(&elems),
        _ => batch_ext::<5>(&elems),
    }
}

// ------------------------------------------------------------------------------------------
// misc_scalar
// ------------------------------------------------------------------------------------------

#[derive(Clone, Debug, Serialize, Deserialize)]
pub enum Misc {
    ExpBig { a: u64, digits: Vec<u64> },
    BigConv { a: u64, digits: Vec<u64> },
    KthRoot { a: u64, k_raw: u16 },
    SumProd { xs: Vec<u64>, base: u64, start: u64, nth: u8 },
    FromCanon { a: u64 },
    Sqrt { a: u64 },
}

fn misc_case() -> BoxedStrategy<Misc> {
    let digit = || prop_oneof![2 => any::<u64>(), 1 => any_repr(), 1 => 0u64..4];
    bx(prop_oneof![
        3 => (any_repr(), pvec(digit(), 0..=3)).prop_map(|(a, digits)| Misc::ExpBig { a, digits }),
        2 => (any_repr(), pvec(digit(), 0..=4)).prop_map(|(a, digits)| Misc::BigConv { a, digits }),
        2 => (any_repr(), any::<u16>()).prop_map(|(a, k_raw)| Misc::KthRoot { a, k_raw }),
        3 => (pvec(any_repr(), 0..=20), any_repr(), any_repr(), 0u8..40)
            .prop_map(|(xs, base, start, nth)| Misc::SumProd { xs, base, start, nth }),
        2 => any_repr().prop_map(|a| Misc::FromCanon { a }),
        2 => prop_oneof![any_repr(), any_repr().prop_map(|x| refmod::mul(x, x))].prop_map(|a| Misc::Sqrt { a }),
    ])
}

fn gcd_u64(mut a: u64, mut b: u64) -> u64 {
    while b != 0 {
        let t = a % b;
        a = b;
        b = t;
    }
    a
}

/// k in 1..=200 with gcd(k, p-1) = 1: the documented precondition of `kth_root_u64`.
fn admissible_roots() -> Vec<u64> {
    (1u64..=200).filter(|&k| gcd_u64(k, P - 1) == 1).collect()
}

fn feq(what: &str, got: F, want: u64) -> Result<(), String> {
    ck!(got.to_canonical_u64() == want, "{}: got {} want {}", what, got.to_canonical_u64(), want);
    Ok(())
}

/// `loops_ok` is false when an earlier sub-check already found the basic arithmetic broken: the
/// loop-until-one routines (Tonelli-Shanks, subgroup enumeration) may then never terminate, and the
/// violation is already recorded, so they are skipped instead of running into the watchdog.
fn misc_scalar(c: &Misc, st: &mut Stats, loops_ok: bool) -> Result<(), String> {
    let pbig = BigUint::from(P);
    match c {
        Misc::ExpBig { a, digits } => {
            st.label("misc:exp_biguint");
            if *a >= P || is_boundary(*a) {
                st.nontrivial(&(1u8, a, digits));
            }
            let e = big_from_digits(digits);
            let want = BigUint::from(*a % P).modpow(&e, &pbig);
            let got = F(*a).exp_biguint(&e);
            ck!(
                BigUint::from(got.to_canonical_u64()) == want,
                "exp_biguint({:#x}, {}) = {} want {}",
                a,
                e,
                got.to_canonical_u64(),
                want
            );
        }
        Misc::BigConv { a, digits } => {
            st.label("misc:biguint_conv");
            if *a >= P || digits.len() > 1 {
                st.nontrivial(&(2u8, a, digits));
            }
            let n = big_from_digits(digits);
            let want = n.mod_floor(&pbig);
            let got = F::from_noncanonical_biguint(n.clone());
            ck!(
                BigUint::from(got.to_canonical_u64()) == want,
                "from_noncanonical_biguint({}) = {} want {}",
                n,
                got.to_canonical_u64(),
                want
            );
            ck!(
                F(*a).to_canonical_biguint() == BigUint::from(*a % P),
                "to_canonical_biguint({:#x}) = {}",
                a,
                F(*a).to_canonical_biguint()
            );
        }
        Misc::KthRoot { a, k_raw } => {
            let ks = admissible_roots();
            let k = ks[frac(*k_raw, ks.len())];
            st.label("misc:kth_root");
            if *a >= P || is_boundary(*a) {
                st.nontrivial(&(3u8, a, k));
            }
            let r = F(*a).kth_root_u64(k);
            ck!(
                refmod::pow(r.to_canonical_u64(), k as u128) == *a % P,
                "kth_root_u64({:#x}, {}) = {}: root^k = {}",
                a,
                k,
                r.to_canonical_u64(),
                refmod::pow(r.to_canonical_u64(), k as u128)
            );
        }
        Misc::SumProd { xs, base, start, nth } => {
            st.label("misc:sum_product_powers");
            if xs.iter().any(|&x| x >= P) || *base >= P {
                st.nontrivial(&(4u8, xs, base, start, nth));
            }
            let fs: Vec<F> = xs.iter().map(|&x| F(x)).collect();
            feq("Sum", fs.iter().copied().sum::<F>(), xs.iter().fold(0, |acc, &x| refmod::add(acc, x)))?;
            feq("Product", fs.iter().copied().product::<F>(), xs.iter().fold(1, |acc, &x| refmod::mul(acc, x)))?;
            let n = xs.len();
            let pw: Vec<F> = F(*base).powers().take(n + 1).collect();
            let spw: Vec<F> = F(*base).shifted_powers(F(*start)).take(n + 1).collect();
            for i in 0..=n {
                let bi = refmod::pow(*base, i as u128);
                feq("powers()[i]", pw[i], bi)?;
                feq("shifted_powers()[i]", spw[i], refmod::mul(*start, bi))?;
            }
            let mut it = F(*base).shifted_powers(F(*start));
            let nth = *nth as usize;
            let got = it.nth(nth).unwrap();
            feq("powers().nth", got, refmod::mul(*start, refmod::pow(*base, nth as u128)))?;
            let nxt = it.next().unwrap();
            feq("powers().nth then next", nxt, refmod::mul(*start, refmod::pow(*base, nth as u128 + 1)))?;
            let sub = F::cyclic_subgroup_coset_known_order(F(*base), F(*start), n);
            ck!(sub.len() == n, "cyclic_subgroup_coset_known_order length");
            for i in 0..n {
                feq("coset_known_order[i]", sub[i], refmod::mul(*start, refmod::pow(*base, i as u128)))?;
            }
        }
        Misc::FromCanon { a } => {
            // the precondition (canonical input) is enforced here so that shrinking cannot break it
            let a = *a % P;
            st.label("misc:from_canonical");
            if is_boundary(a) {
                st.nontrivial(&(5u8, a));
            }
            feq("from_canonical_u64", F::from_canonical_u64(a), a)?;
            feq("from_canonical_u32", F::from_canonical_u32(a as u32), (a as u32) as u64)?;
            feq("from_canonical_u16", F::from_canonical_u16(a as u16), (a as u16) as u64)?;
            feq("from_canonical_u8", F::from_canonical_u8(a as u8), (a as u8) as u64)?;
            feq("from_canonical_usize", F::from_canonical_usize(a as usize), a)?;
            if a < (1u64 << 63) {
                feq("from_canonical_i64", F::from_canonical_i64(a as i64), a)?;
            }
            feq("from_bool", F::from_bool(a & 1 == 1), a & 1)?;
            feq("to_canonical", F(a).to_canonical(), a)?;
        }
        Misc::Sqrt { .. } if !loops_ok => {
            st.label("misc:sqrt skipped (basic arithmetic already failed)");
        }
        Misc::Sqrt { a } => {
            st.label("misc:sqrt");
            if *a >= P || is_boundary(*a) {
                st.nontrivial(&(6u8, a));
            }
            let is_qr = *a % P == 0 || refmod::pow(*a, ((P - 1) / 2) as u128) == 1;
            ck!(F(*a).is_quadratic_residue() == is_qr, "is_quadratic_residue({:#x}) != {}", a, is_qr);
            match F(*a).sqrt() {
                Some(s) => {
                    st.label("misc:sqrt_some");
                    ck!(is_qr, "sqrt({:#x}) = Some for a non-residue", a);
                    let s = s.to_canonical_u64();
                    ck!(refmod::mul(s, s) == *a % P, "sqrt({:#x}) = {}: s^2 = {}", a, s, refmod::mul(s, s));
                }
                None => {
                    st.label("misc:sqrt_none");
                    ck!(!is_qr, "sqrt({:#x}) = None for a residue", a);
                }
            }
        }
    }
    Ok(())
}

// ------------------------------------------------------------------------------------------
// field_consts (deterministic facts about the base field; one fixed case)
// ------------------------------------------------------------------------------------------

#[derive(Clone, Debug, Serialize, Deserialize)]
pub struct Fixed {
    pub all: bool,
}

fn fixed_case() -> BoxedStrategy<Fixed> {
    bx(Just(Fixed { all: true }))
}

const PM1_ODD_FACTORS: [u64; 5] = [3, 5, 17, 257, 65537];

fn field_consts(_c: &Fixed, st: &mut Stats, loops_ok: bool) -> Result<(), String> {
    // p - 1 = 2^32 * 3 * 5 * 17 * 257 * 65537, so the q-list below is the complete prime list.
    let odd: u128 = PM1_ODD_FACTORS.iter().map(|&q| q as u128).product();
    ck!((odd << 32) == (P - 1) as u128, "harness: factorisation of p-1 is wrong");
    ck!(F::ORDER == P, "ORDER != p");
    ck!(F::order() == BigUint::from(P) && F::characteristic() == BigUint::from(P), "order()/characteristic() != p");
    ck!(F::TWO_ADICITY == 32 && F::CHARACTERISTIC_TWO_ADICITY == 32 && F::BITS == 64, "TWO_ADICITY/BITS");
    feq("ZERO", F::ZERO, 0)?;
    feq("ONE", F::ONE, 1)?;
    feq("TWO", F::TWO, 2)?;
    feq("NEG_ONE", F::NEG_ONE, P - 1)?;
    feq("default", F::default(), 0)?;
    let g = F::MULTIPLICATIVE_GROUP_GENERATOR.to_canonical_u64();
    feq("coset_shift", F::coset_shift(), g)?;
    ck!(g != 0 && refmod::pow(g, (P - 1) as u128) == 1, "g^(p-1) != 1");
    for q in [2u64].iter().chain(PM1_ODD_FACTORS.iter()) {
        ck!(refmod::pow(g, ((P - 1) / q) as u128) != 1, "MULTIPLICATIVE_GROUP_GENERATOR^((p-1)/{}) == 1", q);
        st.evals(1);
    }
    let h = F::POWER_OF_TWO_GENERATOR.to_canonical_u64();
    ck!(refmod::pow(h, 1u128 << 32) == 1, "POWER_OF_TWO_GENERATOR^(2^32) != 1");
    ck!(refmod::pow(h, 1u128 << 31) == P - 1, "POWER_OF_TWO_GENERATOR^(2^31) != -1");
    ck!(
        refmod::pow(g, ((P - 1) >> 32) as u128) == h,
        "POWER_OF_TWO_GENERATOR != g^((p-1)/2^32) (relation stated next to the constant)"
    );
    for n_log in 0..=32usize {
        let r = F::primitive_root_of_unity(n_log).to_canonical_u64();
        ck!(refmod::pow(r, 1u128 << n_log) == 1, "primitive_root_of_unity({})^(2^n) != 1", n_log);
        if n_log >= 1 {
            ck!(
                refmod::pow(r, 1u128 << (n_log - 1)) == P - 1,
                "primitive_root_of_unity({})^(2^(n-1)) != -1",
                n_log
            );
            let prev = F::primitive_root_of_unity(n_log - 1).to_canonical_u64();
            ck!(refmod::mul(r, r) == prev, "primitive_root_of_unity({})^2 != primitive_root_of_unity(n-1)", n_log);
        } else {
            ck!(r == 1, "primitive_root_of_unity(0) != 1");
        }
        st.evals(1);
    }
    for n_log in 0..=12usize {
        let r = F::primitive_root_of_unity(n_log).to_canonical_u64();
        let sub = F::two_adic_subgroup(n_log);
        ck!(sub.len() == 1 << n_log, "two_adic_subgroup({}) length {}", n_log, sub.len());
        let mut cur = 1u64;
        for (i, s) in sub.iter().enumerate() {
            ck!(s.to_canonical_u64() == cur, "two_adic_subgroup({})[{}] != g^i", n_log, i);
            ck!(i == 0 || cur != 1, "two_adic_subgroup({}) repeats 1 at {}", n_log, i);
            cur = refmod::mul(cur, r);
        }
        ck!(cur == 1, "two_adic_subgroup({}): g^(2^n) != 1", n_log);
        if n_log <= 10 && loops_ok {
            let gr = F::primitive_root_of_unity(n_log);
            if n_log >= 1 {
                ck!(F::generator_order(gr) == 1 << n_log, "generator_order(root({}))", n_log);
            }
            let u = F::cyclic_subgroup_unknown_order(gr);
            let k = F::cyclic_subgroup_known_order(gr, 1 << n_log);
            ck!(u.len() == 1 << n_log && k.len() == 1 << n_log, "cyclic_subgroup_*_order(root({})) length", n_log);
            for i in 0..u.len() {
                ck!(u[i] == sub[i] && k[i] == sub[i], "cyclic_subgroup_*_order(root({}))[{}]", n_log, i);
            }
        }
        st.evals(1);
    }
    for exp in 0..=200usize {
        let inv = F::inverse_2exp(exp).to_canonical_u64();
        ck!(
            refmod::mul(refmod::pow(2, exp as u128), inv) == 1,
            "inverse_2exp({}) = {}: 2^exp * result != 1",
            exp,
            inv
        );
        st.evals(1);
    }
    for k in 0u64..=300 {
        let want = k == 1 || (k >= 2 && gcd_u64(k, P - 1) == 1);
        ck!(F::is_monomial_permutation_u64(k) == want, "is_monomial_permutation_u64({}) != {}", k, want);
    }
    // binomials X^D - W: irreducible iff W is not a q-th power for each prime q | D (and p = 1 mod 4 for 4 | D)
    ck!(P % 4 == 1, "harness: p mod 4");
    st.label("consts:base_field");
    Ok(())
}

// ------------------------------------------------------------------------------------------
// ext_ops
// ------------------------------------------------------------------------------------------

#[derive(Clone, Debug, Serialize, Deserialize)]
pub struct ExtCase {
    /// 0 -> D=2, 1 -> D=4, 2 -> D=5
    pub d_sel: u8,
    /// 5 raw coefficient representations each; the first D are used
    pub a: Vec<u64>,
    pub b: Vec<u64>,
    pub c: Vec<u64>,
    pub s: u64,
    pub e: u64,
    pub k: u8,
}

fn ext_case() -> BoxedStrategy<ExtCase> {
    let coef5 = || pvec(any_repr(), 5);
    let indep = (coef5(), coef5());
    // all products divisible by 2^64: the low word of every delayed-reduction accumulator is 0
    // while bits 96.. are not -> borrow branch of reduce160
    let lowzero = (pvec(any::<u32>(), 5), pvec(any::<u32>(), 5)).prop_map(|(u, v)| {
        (
            u.into_iter().map(|x| (x as u64) << 32).collect::<Vec<_>>(),
            v.into_iter().map(|x| (x as u64) << 32).collect::<Vec<_>>(),
        )
    });
    let shifted = (1u32..64, pvec(any::<u64>(), 5), pvec(any::<u64>(), 5)).prop_map(|(s, u, v)| {
        (
            u.into_iter().map(|x| x << s).collect::<Vec<_>>(),
            v.into_iter().map(|x| x << (64 - s)).collect::<Vec<_>>(),
        )
    });
    // every coefficient near 2^64: largest accumulators (carry words of the 160-bit sums)
    let huge = (pvec(small(), 5), pvec(small(), 5)).prop_map(|(u, v)| {
        (
            u.into_iter().map(|k| u64::MAX - k).collect::<Vec<_>>(),
            v.into_iter().map(|k| u64::MAX - k).collect::<Vec<_>>(),
        )
    });
    let pair = prop_oneof![6 => indep, 2 => lowzero, 2 => shifted, 1 => huge];
    let e = prop_oneof![2 => any::<u64>(), 1 => 0u64..70, 1 => any_repr()];
    bx((0u8..3, pair, coef5(), any_repr(), e, 0u8..=255).prop_map(|(d_sel, (a, b), c, s, e, k)| ExtCase {
        d_sel,
        a,
        b,
        c,
        s,
        e,
        k,
    }))
}

/// Does coefficient `k` of the delayed-reduction product hit the borrow branch of reduce160?
/// The exact integer S_k = sum_{i+j=k} a_i b_j + W * sum_{i+j=k+D} a_i b_j (raw representations).
fn reduce160_borrow(a: &[u64], b: &[u64], d: usize, w: u64, k: usize) -> bool {
    let mut lo: u128 = 0;
    let mut hi: u64 = 0;
    for i in 0..d {
        for j in 0..d {
            let times = if i + j == k {
                1
            } else if i + j == k + d {
                w
            } else {
                0
            };
            for _ in 0..times {
                let (s, cy) = lo.overflowing_add(a[i] as u128 * b[j] as u128);
                lo = s;
                hi += cy as u64;
            }
        }
    }
    let x_hi = (lo >> 96) as u64 + (hi << 32);
    (lo as u64) < x_hi
}

const ROOT_CANDIDATES: [u64; 8] = [7, 11, 13, 19, 23, 29, 31, 37];

fn ext_ops(c: &ExtCase, st: &mut Stats) -> Result<(), String> {
    if c.a.len() != 5 || c.b.len() != 5 || c.c.len() != 5 {
        return Ok(()); // malformed (hand-edited) case
    }
    match c.d_sel {
        0 => ext_ops_d::<2>(c, st),
        1 => ext_ops_d::<4>(c, st),
        _ => ext_ops_d::<5>(c, st),
    }
}

fn ext_ops_d<const D: usize>(c: &ExtCase, st: &mut Stats) -> Result<(), String>
where
    F: Extendable<D>,
{
    let xr = xr_of::<D>();
    let (ar, br, cr) = (&c.a[..D], &c.b[..D], &c.c[..D]);
    let (a, b, cc) = (mk::<D>(ar), mk::<D>(br), mk::<D>(cr));
    let (ac, bc, ccn) = (xr.canon(ar), xr.canon(br), xr.canon(cr));
    let s = F(c.s);
    st.label(&format!("ext:D={}", D));
    if ar.iter().chain(br).any(|&x| x >= P || is_boundary(x)) {
        st.nontrivial(&(c.d_sel, ar, br, cr, c.s, c.e, c.k));
    }
    for k in 0..D {
        st.label("ext:reduce160_calls");
        if reduce160_borrow(ar, br, D, xr.w, k) {
            st.label("branch:reduce160_borrow");
        }
    }
    st.sample(|| json!({"D": D, "a": ar, "b": br}));

    // ring operations against the schoolbook reference
    xeq("ext add", &res::<D>(&(a + b)), &xr.add(&ac, &bc))?;
    xeq("ext sub", &res::<D>(&(a - b)), &xr.sub(&ac, &bc))?;
    xeq("ext neg", &res::<D>(&(-a)), &xr.neg(&ac))?;
    let ab = xr.mul(&ac, &bc);
    xeq("ext mul", &res::<D>(&(a * b)), &ab)?;
    xeq("ext mul(b,a)", &res::<D>(&(b * a)), &ab)?;
    xeq("ext square", &res::<D>(&a.square()), &xr.mul(&ac, &ac))?;
    xeq("ext square(b)", &res::<D>(&b.square()), &xr.mul(&bc, &bc))?;
    xeq("ext double", &res::<D>(&a.double()), &xr.add(&ac, &ac))?;
    xeq("ext cube", &res::<D>(&a.cube()), &xr.mul(&ac, &xr.mul(&ac, &ac)))?;
    xeq("ext triple", &res::<D>(&a.triple()), &xr.scal(&ac, 3))?;
    xeq(
        "ext scalar_mul",
        &res::<D>(&<Ex<D> as FieldExtension<D>>::scalar_mul(&a, s)),
        &xr.scal(&ac, c.s),
    )?;
    let s_emb = <Ex<D> as FieldExtension<D>>::from_basefield(s);
    xeq("ext from_basefield", &res::<D>(&s_emb), &xr.base(c.s))?;
    xeq("ext From<F>", &res::<D>(&Ex::<D>::from(s)), &xr.base(c.s))?;
    xeq("ext mul by embedded scalar", &res::<D>(&(a * s_emb)), &xr.scal(&ac, c.s))?;
    xeq(
        "ext multiply_accumulate",
        &res::<D>(&cc.multiply_accumulate(a, b)),
        &xr.add(&ccn, &ab),
    )?;
    let mut x = a;
    x += b;
    xeq("ext add_assign", &res::<D>(&x), &xr.add(&ac, &bc))?;
    let mut x = a;
    x -= b;
    xeq("ext sub_assign", &res::<D>(&x), &xr.sub(&ac, &bc))?;
    let mut x = a;
    x *= b;
    xeq("ext mul_assign", &res::<D>(&x), &ab)?;
    xeq("ext Sum", &res::<D>(&[a, b, cc].into_iter().sum::<Ex<D>>()), &xr.add(&xr.add(&ac, &bc), &ccn))?;
    xeq("ext Product", &res::<D>(&[a, b, cc].into_iter().product::<Ex<D>>()), &xr.mul(&ab, &ccn))?;
    xeq("ext empty Sum", &res::<D>(&core::iter::empty::<Ex<D>>().sum::<Ex<D>>()), &xr.zero())?;
    xeq("ext empty Product", &res::<D>(&core::iter::empty::<Ex<D>>().product::<Ex<D>>()), &xr.one())?;

    // equality / zero tests follow residues
    ck!((a == b) == (ac == bc), "ext eq disagrees with residues");
    ck!(a.is_zero() == xr.is_zero(&ac), "ext is_zero disagrees with residues");
    ck!(
        <Ex<D> as FieldExtension<D>>::is_in_basefield(&a) == ac[1..].iter().all(|&x| x == 0),
        "ext is_in_basefield disagrees with residues"
    );
    // an element of the base field written with non-canonical zeros
    let mut in_base: Vec<u64> = (0..D).map(|i| if (c.k >> i) & 1 == 1 { P } else { 0 }).collect();
    in_base[0] = c.s;
    ck!(
        <Ex<D> as FieldExtension<D>>::is_in_basefield(&mk::<D>(&in_base)),
        "ext is_in_basefield false for {:x?}",
        in_base
    );

    // field axioms on the implementation itself
    xeq("ext assoc add", &res::<D>(&((a + b) + cc)), &res::<D>(&(a + (b + cc))))?;
    xeq("ext assoc mul", &res::<D>(&((a * b) * cc)), &res::<D>(&(a * (b * cc))))?;
    xeq("ext distributivity", &res::<D>(&(a * (b + cc))), &res::<D>(&(a * b + a * cc)))?;
    xeq("ext distributivity (ref)", &res::<D>(&(a * (b + cc))), &xr.mul(&ac, &xr.add(&bc, &ccn)))?;
    xeq("ext a-a", &res::<D>(&(a - a)), &xr.zero())?;
    xeq("ext a*1", &res::<D>(&(a * Ex::<D>::ONE)), &ac)?;
    xeq("ext a+0", &res::<D>(&(a + Ex::<D>::ZERO)), &ac)?;

    // inversion and division
    if xr.is_zero(&ac) {
        st.label("ext:zero_operand");
        ck!(a.try_inverse().is_none(), "ext try_inverse(zero in representation {:x?}) returned Some", ar);
    } else {
        let inv = a.try_inverse().ok_or_else(|| format!("ext try_inverse({:x?}) = None", ar))?;
        xeq("ext x * x^-1", &xr.mul(&ac, &res::<D>(&inv)), &xr.one())?;
        xeq("ext inverse()", &res::<D>(&a.inverse()), &res::<D>(&inv))?;
        let q = b / a;
        xeq("ext (b/a)*a", &xr.mul(&res::<D>(&q), &ac), &bc)?;
        let mut x = b;
        x /= a;
        xeq("ext div_assign", &res::<D>(&x), &res::<D>(&q))?;
    }

    // Frobenius: x -> x^p with x^p from the reference square-and-multiply
    let pbig = BigUint::from(P);
    let mut chain = vec![ac.clone()];
    for i in 0..D {
        let nxt = xr.pow(&chain[i], &pbig);
        chain.push(nxt);
    }
    ck!(chain[D] == ac, "oracle self-check failed: x^(p^D) != x in the reference");
    xeq("ext frobenius", &res::<D>(&a.frobenius()), &chain[1])?;
    for k in 0..=2 * D {
        xeq(
            &format!("ext repeated_frobenius({})", k),
            &res::<D>(&a.repeated_frobenius(k)),
            &chain[k % D],
        )?;
    }
    st.evals(2 * D as u64 + 2);

    // exponentiation
    xeq("ext exp_u64", &res::<D>(&a.exp_u64(c.e)), &xr.pow_u64(&ac, c.e))?;
    let e2 = big_from_digits(&[c.e, c.s]);
    xeq("ext exp_biguint", &res::<D>(&a.exp_biguint(&e2)), &xr.pow(&ac, &e2))?;
    let k2 = (c.k % 8) as usize;
    xeq("ext exp_power_of_2", &res::<D>(&a.exp_power_of_2(k2)), &xr.pow_u64(&ac, 1u64 << k2))?;

    // k-th roots for k coprime to p^D - 1 (documented precondition of kth_root_u64)
    let kroot = ROOT_CANDIDATES[(c.k as usize) % ROOT_CANDIDATES.len()];
    let order_m1 = pbig.pow(D as u32) - 1u32;
    if order_m1.gcd(&BigUint::from(kroot)).is_one() {
        st.label("ext:kth_root");
        let r = a.kth_root_u64(kroot);
        xeq(&format!("ext kth_root_u64({})^k", kroot), &xr.pow_u64(&res::<D>(&r), kroot), &ac)?;
    } else {
        st.label("ext:kth_root_inadmissible_k_skipped");
    }

    // embeddings of integers
    let sc = c.s % P;
    xeq("ext from_canonical_u64", &res::<D>(&Ex::<D>::from_canonical_u64(sc)), &xr.base(sc))?;
    xeq("ext from_noncanonical_u64", &res::<D>(&Ex::<D>::from_noncanonical_u64(c.s)), &xr.base(c.s))?;
    let wide = ((c.s as u128) << 64) | c.e as u128;
    xeq(
        "ext from_noncanonical_u128",
        &res::<D>(&Ex::<D>::from_noncanonical_u128(wide)),
        &xr.base(refmod::red(wide)),
    )?;
    let i = c.s as i64;
    let want_i = if i >= 0 { (i as u64) % P } else { refmod::neg(i.unsigned_abs()) };
    xeq("ext from_noncanonical_i64", &res::<D>(&Ex::<D>::from_noncanonical_i64(i)), &xr.base(want_i))?;
    xeq(
        "ext from_noncanonical_biguint",
        &res::<D>(&Ex::<D>::from_noncanonical_biguint(e2.clone())),
        &xr.base((e2.mod_floor(&pbig)).iter_u64_digits().next().unwrap_or(0)),
    )?;
    Ok(())
}

// ------------------------------------------------------------------------------------------
// ext_consts (deterministic facts about the three extensions; one fixed case)
// ------------------------------------------------------------------------------------------

fn small_primes(limit: u32) -> Vec<u32> {
    let mut sieve = vec![true; limit as usize + 1];
    let mut out = vec![];
    for i in 2..=limit as usize {
        if sieve[i] {
            out.push(i as u32);
            let mut j = i * i;
            while j <= limit as usize {
                sieve[j] = false;
                j += i;
            }
        }
    }
    out
}

fn ext_consts_d<const D: usize>(w_literal: u64, st: &mut Stats) -> Result<(), String>
where
    F: Extendable<D>,
{
    let xr = xr_of::<D>();
    let pbig = BigUint::from(P);
    ck!(xr.w == w_literal, "D={}: Extendable::W = {} but the documented binomial uses {}", D, xr.w, w_literal);
    ck!(<Ex<D> as OEF<D>>::W.to_canonical_u64() == w_literal, "D={}: OEF::W", D);
    // X^D - W irreducible: W is not a q-th power for each prime q | D (4 | D needs p = 1 mod 4: checked)
    for q in [2u64, 5] {
        if D as u64 % q == 0 {
            ck!(refmod::pow(xr.w, ((P - 1) / q) as u128) != 1, "D={}: W is a {}-th power, X^D-W reducible", D, q);
        }
    }
    let dth = refmod::pow(xr.w, ((P - 1) / D as u64) as u128);
    ck!((P - 1) % D as u64 == 0, "harness: D does not divide p-1");
    ck!(<F as Extendable<D>>::DTH_ROOT.to_canonical_u64() == dth, "D={}: DTH_ROOT != W^((p-1)/D)", D);
    ck!(<Ex<D> as OEF<D>>::DTH_ROOT.to_canonical_u64() == dth, "D={}: OEF::DTH_ROOT", D);
    xeq("ext ZERO", &res::<D>(&Ex::<D>::ZERO), &xr.zero())?;
    xeq("ext ONE", &res::<D>(&Ex::<D>::ONE), &xr.one())?;
    xeq("ext TWO", &res::<D>(&Ex::<D>::TWO), &xr.base(2))?;
    xeq("ext NEG_ONE", &res::<D>(&Ex::<D>::NEG_ONE), &xr.base(P - 1))?;
    xeq("ext default", &res::<D>(&Ex::<D>::default()), &xr.zero())?;
    let order = pbig.pow(D as u32);
    ck!(Ex::<D>::order() == order, "D={}: order() != p^D", D);
    ck!(Ex::<D>::characteristic() == pbig, "D={}: characteristic() != p", D);
    ck!(Ex::<D>::BITS == 64 * D, "D={}: BITS", D);
    ck!(Ex::<D>::CHARACTERISTIC_TWO_ADICITY == 32, "D={}: CHARACTERISTIC_TWO_ADICITY", D);
    let om1 = &order - 1u32;
    let ta = Ex::<D>::TWO_ADICITY;
    ck!(om1.trailing_zeros() == Some(ta as u64), "D={}: TWO_ADICITY {} != v2(p^D-1) {:?}", D, ta, om1.trailing_zeros());

    // generators
    let h = res::<D>(&Ex::<D>::POWER_OF_TWO_GENERATOR);
    xeq("EXT_POWER_OF_TWO_GENERATOR array", &h, &xr.canon(&<F as Extendable<D>>::EXT_POWER_OF_TWO_GENERATOR.map(|x| x.0)))?;
    let two_to = |n: usize| BigUint::one() << n;
    ck!(xr.pow(&h, &two_to(ta)) == xr.one(), "D={}: EXT_POWER_OF_TWO_GENERATOR^(2^TWO_ADICITY) != 1", D);
    ck!(xr.pow(&h, &two_to(ta - 1)) == xr.base(P - 1), "D={}: EXT_POWER_OF_TWO_GENERATOR^(2^(TWO_ADICITY-1)) != -1", D);
    // same facts through the implementation's own exponentiation
    xeq("impl h^(2^TA)", &res::<D>(&Ex::<D>::POWER_OF_TWO_GENERATOR.exp_power_of_2(ta)), &xr.one())?;
    xeq("impl h^(2^(TA-1))", &res::<D>(&Ex::<D>::POWER_OF_TWO_GENERATOR.exp_power_of_2(ta - 1)), &xr.base(P - 1))?;
    // documented: h^(2^(TA - base TA)) is the base field's POWER_OF_TWO_GENERATOR
    ck!(
        xr.pow(&h, &two_to(ta - 32)) == xr.base(F::POWER_OF_TWO_GENERATOR.to_canonical_u64()),
        "D={}: EXT_POWER_OF_TWO_GENERATOR^(2^(TA-32)) != base POWER_OF_TWO_GENERATOR",
        D
    );
    let g = res::<D>(&Ex::<D>::MULTIPLICATIVE_GROUP_GENERATOR);
    xeq("EXT_MULTIPLICATIVE_GROUP_GENERATOR array", &g, &xr.canon(&<F as Extendable<D>>::EXT_MULTIPLICATIVE_GROUP_GENERATOR.map(|x| x.0)))?;
    ck!(!xr.is_zero(&g) && xr.pow(&g, &om1) == xr.one(), "D={}: g^(p^D-1) != 1", D);
    // documented: g^((p^D-1) >> TWO_ADICITY) == EXT_POWER_OF_TWO_GENERATOR
    ck!(
        xr.pow(&g, &(&om1 >> ta)) == h,
        "D={}: EXT_MULTIPLICATIVE_GROUP_GENERATOR^((p^D-1)>>TWO_ADICITY) != EXT_POWER_OF_TWO_GENERATOR",
        D
    );
    // The coset shift used by FRI must lie outside every 2-power subgroup.
    ck!(xr.pow(&g, &two_to(ta)) != xr.one(), "D={}: MULTIPLICATIVE_GROUP_GENERATOR lies in the 2^TWO_ADICITY subgroup", D);
    // `Field::MULTIPLICATIVE_GROUP_GENERATOR` is described as a generator of the whole group. That claim
    // is outside the relation `Extendable` documents (checked above), and for D = 2, 4 the constant has
    // the shape c*X, so g^D lies in the base field and its order divides D(p-1) < p^D-1. It is recorded
    // as an observation, not judged: g^((p^D-1)/q) for every prime q < 2^17 dividing p^D-1.
    let mut qs = 0;
    for q in small_primes(131_072) {
        if (&om1 % q).is_zero() {
            qs += 1;
            if xr.pow(&g, &(&om1 / q)) == xr.one() {
                st.label(&format!(
                    "observation:D={} MULTIPLICATIVE_GROUP_GENERATOR^((p^D-1)/{}) == 1 (not a generator of the whole group)",
                    D, q
                ));
            }
        }
    }
    ck!(qs >= 6, "harness: expected at least the 6 prime factors of p-1 to divide p^D-1");
    st.label_n(&format!("consts:D={} small prime factors of p^D-1 examined", D), qs);
    // roots of unity: exact order, and coherent with the base field for n_log <= 32
    for n_log in 0..=ta {
        let r = res::<D>(&Ex::<D>::primitive_root_of_unity(n_log));
        ck!(xr.pow(&r, &two_to(n_log)) == xr.one(), "D={}: primitive_root_of_unity({})^(2^n) != 1", D, n_log);
        if n_log >= 1 {
            ck!(
                xr.pow(&r, &two_to(n_log - 1)) == xr.base(P - 1),
                "D={}: primitive_root_of_unity({})^(2^(n-1)) != -1",
                D,
                n_log
            );
        }
        if n_log <= 32 {
            ck!(
                r == xr.base(F::primitive_root_of_unity(n_log).to_canonical_u64()),
                "D={}: primitive_root_of_unity({}) differs from the base field's",
                D,
                n_log
            );
        }
        st.evals(1);
    }
    for exp in 0..=200usize {
        let inv = res::<D>(&Ex::<D>::inverse_2exp(exp));
        ck!(
            xr.scal(&inv, refmod::pow(2, exp as u128)) == xr.one(),
            "D={}: inverse_2exp({}) * 2^exp != 1",
            D,
            exp
        );
        st.evals(1);
    }
    st.label(&format!("consts:D={}", D));
    Ok(())
}

fn ext_consts(_c: &Fixed, st: &mut Stats) -> Result<(), String> {
    // literals: the binomials documented in goldilocks_extensions.rs (x^2-7, x^4-7, x^5-3)
    ext_consts_d::<2>(7, st)?;
    ext_consts_d::<4>(7, st)?;
    ext_consts_d::<5>(3, st)?;
    Ok(())
}

// ------------------------------------------------------------------------------------------
// packed_ops
// ------------------------------------------------------------------------------------------

// With `specialization`, the *default* `Packable::Packing` (scalar build) is an opaque projection that
// cannot be normalised here, so the scalar build names the type directly (and checks at run time that
// the default packing really has width 1); AVX builds normalise to the crate-private vector type.
#[cfg(all(target_arch = "x86_64", target_feature = "avx2"))]
type PF = <F as Packable>::Packing;
#[cfg(not(all(target_arch = "x86_64", target_feature = "avx2")))]
type PF = F;
const MAX_WIDTH: usize = 8;

#[derive(Clone, Debug, Serialize, Deserialize)]
pub struct PackedCase {
    /// MAX_WIDTH lane triples; the first WIDTH are used
    pub lanes: Vec<Triple>,
    pub s: u64,
    /// operand pairs for batch_multiply_inplace / batch_add_inplace (packed part + leftovers)
    pub blk: Vec<(u64, u64)>,
}

fn packed_case() -> BoxedStrategy<PackedCase> {
    bx((pvec(triple(), MAX_WIDTH), any_repr(), pvec((any_repr(), any_repr()), 0..=40))
        .prop_map(|(lanes, s, blk)| PackedCase { lanes, s, blk }))
}

fn lanes_eq(what: &str, got: &PF, want: &[u64]) -> Result<(), String> {
    let g: Vec<u64> = got.as_slice().iter().map(|x| x.to_canonical_u64()).collect();
    if g != want {
        return Err(format!("packed(width {}) {}: got {:?} want {:?}", PF::WIDTH, what, g, want));
    }
    Ok(())
}

/// Reference interleave, written from the doc comment of `PackedField::interleave`: stack the two
/// vectors, cut them into blocks of `bl` lanes and transpose every 2x2 matrix of blocks.
fn ref_interleave(a: &[u64], b: &[u64], bl: usize) -> (Vec<u64>, Vec<u64>) {
    let w = a.len();
    if bl == w {
        return (a.to_vec(), b.to_vec());
    }
    let mut o0 = vec![0; w];
    let mut o1 = vec![0; w];
    for i in 0..w {
        let (blk, off) = (i / bl, i % bl);
        let pair = blk / 2;
        let src = if blk % 2 == 0 { a } else { b };
        o0[i] = src[(2 * pair) * bl + off];
        o1[i] = src[(2 * pair + 1) * bl + off];
    }
    (o0, o1)
}

fn packed_ops(c: &PackedCase, st: &mut Stats) -> Result<(), String> {
    let w = PF::WIDTH;
    ck!(
        <<F as Packable>::Packing as PackedField>::WIDTH == w,
        "harness: Packable::Packing width {} != width {} of the type under test",
        <<F as Packable>::Packing as PackedField>::WIDTH,
        w
    );
    if c.lanes.len() != MAX_WIDTH || w > MAX_WIDTH {
        return Ok(()); // malformed (hand-edited) case
    }
    st.label(&format!("packed:width={}{}", w, if w == 1 { " (scalar build: packing is the scalar type)" } else { "" }));
    let ra: Vec<u64> = c.lanes[..w].iter().map(|t| t.a).collect();
    let rb: Vec<u64> = c.lanes[..w].iter().map(|t| t.b).collect();
    let rc: Vec<u64> = c.lanes[..w].iter().map(|t| t.c).collect();
    let fa: Vec<F> = ra.iter().map(|&x| F(x)).collect();
    let fb: Vec<F> = rb.iter().map(|&x| F(x)).collect();
    let fc: Vec<F> = rc.iter().map(|&x| F(x)).collect();
    let (pa, pb, pc): (PF, PF, PF) = (*PF::from_slice(&fa), *PF::from_slice(&fb), *PF::from_slice(&fc));
    let s = F(c.s);
    if ra.iter().chain(&rb).any(|&x| x >= P || is_boundary(x)) {
        st.nontrivial(&(&ra, &rb, &rc, c.s));
    }
    for i in 0..w {
        if add_double_overflow(ra[i], rb[i]) {
            st.label("branch:packed_lane_add_double_overflow_operands");
        }
        if sub_double_underflow(ra[i], rb[i]) {
            st.label("branch:packed_lane_sub_double_underflow_operands");
        }
        if rb[i] >= P {
            st.label("branch:packed_lane_noncanonical_rhs");
        }
        let (bo, ov) = reduce128_preds(ra[i] as u128 * rb[i] as u128);
        if bo {
            st.label("branch:packed_lane_reduce128_borrow");
        }
        if ov {
            st.label("branch:packed_lane_reduce128_final_add_overflow");
        }
    }
    st.evals(w as u64);
    st.sample(|| json!({"width": w, "a": ra, "b": rb}));
    let lw = |f: &dyn Fn(usize) -> u64| -> Vec<u64> { (0..w).map(f).collect() };

    lanes_eq("from_slice/as_slice", &pa, &lw(&|i| ra[i] % P))?;
    lanes_eq("add", &(pa + pb), &lw(&|i| refmod::add(ra[i], rb[i])))?;
    lanes_eq("sub", &(pa - pb), &lw(&|i| refmod::sub(ra[i], rb[i])))?;
    lanes_eq("sub(b,a)", &(pb - pa), &lw(&|i| refmod::sub(rb[i], ra[i])))?;
    lanes_eq("neg", &(-pa), &lw(&|i| refmod::neg(ra[i])))?;
    lanes_eq("mul", &(pa * pb), &lw(&|i| refmod::mul(ra[i], rb[i])))?;
    lanes_eq("square", &pa.square(), &lw(&|i| refmod::mul(ra[i], ra[i])))?;
    lanes_eq("square(b)", &pb.square(), &lw(&|i| refmod::mul(rb[i], rb[i])))?;
    lanes_eq("doubles", &pa.doubles(), &lw(&|i| refmod::add(ra[i], ra[i])))?;
    lanes_eq("add scalar", &(pa + s), &lw(&|i| refmod::add(ra[i], c.s)))?;
    lanes_eq("scalar add", &(s + pa), &lw(&|i| refmod::add(ra[i], c.s)))?;
    lanes_eq("sub scalar", &(pa - s), &lw(&|i| refmod::sub(ra[i], c.s)))?;
    lanes_eq("scalar sub", &(s - pa), &lw(&|i| refmod::sub(c.s, ra[i])))?;
    lanes_eq("mul scalar", &(pa * s), &lw(&|i| refmod::mul(ra[i], c.s)))?;
    lanes_eq("scalar mul", &(s * pa), &lw(&|i| refmod::mul(ra[i], c.s)))?;
    if c.s % P != 0 {
        let si = refmod::inv(c.s);
        lanes_eq("div scalar", &(pa / s), &lw(&|i| refmod::mul(ra[i], si)))?;
    }
    lanes_eq("From<scalar>", &PF::from(s), &lw(&|_| c.s % P))?;
    lanes_eq("ZEROS", &PF::ZEROS, &lw(&|_| 0))?;
    lanes_eq("ONES", &PF::ONES, &lw(&|_| 1))?;
    lanes_eq("default", &PF::default(), &lw(&|_| 0))?;
    let mut x = pa;
    x += pb;
    lanes_eq("add_assign", &x, &lw(&|i| refmod::add(ra[i], rb[i])))?;
    let mut x = pa;
    x -= pb;
    lanes_eq("sub_assign", &x, &lw(&|i| refmod::sub(ra[i], rb[i])))?;
    let mut x = pa;
    x *= pb;
    lanes_eq("mul_assign", &x, &lw(&|i| refmod::mul(ra[i], rb[i])))?;
    let mut x = pa;
    x += s;
    lanes_eq("add_assign scalar", &x, &lw(&|i| refmod::add(ra[i], c.s)))?;
    let mut x = pa;
    x -= s;
    lanes_eq("sub_assign scalar", &x, &lw(&|i| refmod::sub(ra[i], c.s)))?;
    let mut x = pa;
    x *= s;
    lanes_eq("mul_assign scalar", &x, &lw(&|i| refmod::mul(ra[i], c.s)))?;
    lanes_eq(
        "Sum",
        &[pa, pb, pc].into_iter().sum::<PF>(),
        &lw(&|i| refmod::add(refmod::add(ra[i], rb[i]), rc[i])),
    )?;
    lanes_eq(
        "Product",
        &[pa, pb, pc].into_iter().product::<PF>(),
        &lw(&|i| refmod::mul(refmod::mul(ra[i], rb[i]), rc[i])),
    )?;
    lanes_eq("empty Sum", &core::iter::empty::<PF>().sum::<PF>(), &lw(&|_| 0))?;
    lanes_eq("empty Product", &core::iter::empty::<PF>().product::<PF>(), &lw(&|_| 1))?;
    // mixed expression (as used by gate evaluation): a*b + c - a
    lanes_eq(
        "a*b+c-a",
        &(pa * pb + pc - pa),
        &lw(&|i| refmod::sub(refmod::add(refmod::mul(ra[i], rb[i]), rc[i]), ra[i])),
    )?;

    // interleave for every power-of-two block length <= WIDTH
    let (ca_, cb_): (Vec<u64>, Vec<u64>) = (lw(&|i| ra[i] % P), lw(&|i| rb[i] % P));
    let mut bl = 1;
    while bl <= w {
        let (x, y) = pa.interleave(pb, bl);
        let (wx, wy) = ref_interleave(&ca_, &cb_, bl);
        lanes_eq(&format!("interleave({}).0", bl), &x, &wx)?;
        lanes_eq(&format!("interleave({}).1", bl), &y, &wy)?;
        st.label(&format!("packed:interleave block_len={}", bl));
        bl *= 2;
    }

    // pack_slice / pack_slice_mut / from_slice_mut / as_slice_mut round trips
    let mut buf: Vec<F> = fa.iter().chain(&fb).chain(&fc).copied().collect();
    {
        let packed = PF::pack_slice(&buf);
        ck!(packed.len() == 3, "pack_slice length {}", packed.len());
        lanes_eq("pack_slice[0]", &packed[0], &ca_)?;
        lanes_eq("pack_slice[1]", &packed[1], &cb_)?;
        lanes_eq("pack_slice[2]", &packed[2], &lw(&|i| rc[i] % P))?;
    }
    {
        let packed = PF::pack_slice_mut(&mut buf);
        packed[1] = packed[0] * packed[2];
        packed[2].as_slice_mut()[w - 1] = s;
    }
    for i in 0..w {
        ck!(buf[i].to_canonical_u64() == ra[i] % P, "pack_slice_mut changed an untouched lane {}", i);
        ck!(
            buf[w + i].to_canonical_u64() == refmod::mul(ra[i], rc[i]),
            "pack_slice_mut write-through lane {}: got {}",
            i,
            buf[w + i].to_canonical_u64()
        );
        let want = if i == w - 1 { c.s % P } else { rc[i] % P };
        ck!(buf[2 * w + i].to_canonical_u64() == want, "as_slice_mut write-through lane {}", i);
    }
    {
        let m = PF::from_slice_mut(&mut buf[..w]);
        *m = *m + pb;
    }
    for i in 0..w {
        ck!(buf[i].to_canonical_u64() == refmod::add(ra[i], rb[i]), "from_slice_mut write-through lane {}", i);
    }

    // batch_util: packed body + scalar leftovers
    let n = c.blk.len();
    st.label(&format!("packed:batch_util leftovers={}", n % w));
    let xs: Vec<F> = c.blk.iter().map(|p| F(p.0)).collect();
    let ys: Vec<F> = c.blk.iter().map(|p| F(p.1)).collect();
    let mut out = xs.clone();
    batch_multiply_inplace(&mut out, &ys);
    for i in 0..n {
        ck!(
            out[i].to_canonical_u64() == refmod::mul(c.blk[i].0, c.blk[i].1),
            "batch_multiply_inplace[{}] of {}: got {}",
            i,
            n,
            out[i].to_canonical_u64()
        );
    }
    let mut out = xs.clone();
    batch_add_inplace(&mut out, &ys);
    for i in 0..n {
        ck!(
            out[i].to_canonical_u64() == refmod::add(c.blk[i].0, c.blk[i].1),
            "batch_add_inplace[{}] of {}: got {}",
            i,
            n,
            out[i].to_canonical_u64()
        );
    }
    Ok(())
}

// ------------------------------------------------------------------------------------------
// driver
// ------------------------------------------------------------------------------------------

pub fn run(ctx: &mut Ctx) {
    ctx.rule = "operands from the boundary-biased representation generator (incl. non-canonical \
                representations) plus correlated classes built to reach the rare branches (pairs summing to \
                ~2^64+p, differences ~p, products divisible by 2^64, coefficient vectors with zero low limbs); \
                non-trivial = some operand is non-canonical or in a boundary class; distinct = distinct operand \
                tuple. histogram keys 'branch:*' count how often each rare branch was reached, computed from \
                the operands by the harness"
        .into();
    ctx.assumptions.push("oracle = u128 arithmetic modulo p, BigUint modpow, schoolbook polynomial arithmetic modulo X^D - W".into());
    ctx.assumptions.push(
        "preconditions respected: from_canonical_* only on canonical values, canonical rhs for \
         add/sub_canonical_u64, non-zero inputs to inverse/batch inverse, kth_root_u64 only for k coprime to \
         the group order (cube_root is therefore not applicable to Goldilocks: 3 | p-1)"
            .into(),
    );
    ctx.assumptions.push(
        "reduce160 is pub(crate); it is reached through `*` on the quadratic/quartic/quintic Goldilocks \
         extensions (specialised Mul impls); the generic default Mul impls are unreachable for Goldilocks"
            .into(),
    );
    ctx.assumptions.push(
        "EXT_MULTIPLICATIVE_GROUP_GENERATOR is judged by the relation documented on `Extendable` \
         (g^((p^D-1)>>TWO_ADICITY) == EXT_POWER_OF_TWO_GENERATOR), g^(p^D-1) == 1 and g outside the 2-power \
         subgroup; whether it generates the whole group is only recorded (histogram 'observation:*')"
            .into(),
    );
    ctx.extra.insert("packing_width".into(), json!(PF::WIDTH));

    ctx.run_sub("scalar_ops", ctx.tier.pick(400_000, 20_000_000), 16, triple, scalar_ops);
    ctx.run_sub("batch_inverse", ctx.tier.pick(40_000, 1_500_000), 16, batch_case, batch_inverse);
    let loops_ok = ctx.violations.is_empty();
    ctx.run_sub("misc_scalar", ctx.tier.pick(60_000, 2_000_000), 16, misc_case, |c, st| misc_scalar(c, st, loops_ok));
    ctx.run_sub("field_consts", 1, 1, fixed_case, |c, st| field_consts(c, st, loops_ok));
    ctx.run_sub("ext_ops", ctx.tier.pick(30_000, 1_000_000), 16, ext_case, ext_ops);
    ctx.run_sub("ext_consts", 1, 1, fixed_case, ext_consts);
    ctx.run_sub("packed_ops", ctx.tier.pick(200_000, 10_000_000), 16, packed_case, packed_ops);
}
