//! C14 — field arithmetic is exact modular arithmetic on every representation.
//! Oracle: u128 arithmetic mod p (gen::field::refmod).

use plonky2_field::goldilocks_field::GoldilocksField as F;
use plonky2_field::ops::Square;
use plonky2_field::types::{Field, Field64, PrimeField64};
use proptest::prelude::*;
use serde::{Deserialize, Serialize};
use serde_json::json;

use crate::engine::{bx, Ctx, Stats};
use crate::gen::field::{any_repr, canonical, class_of, is_boundary, refmod, P};

#[derive(Clone, Debug, Serialize, Deserialize)]
pub struct Triple {
    pub a: u64,
    pub b: u64,
    pub c: u64,
}

fn triple() -> BoxedStrategy<Triple> {
    // Independent boundary-biased operands plus correlated classes that hit the rare
    // double-overflow / double-underflow / borrow branches.
    let indep = (any_repr(), any_repr(), any_repr()).prop_map(|(a, b, c)| Triple { a, b, c });
    let corr_add = (any_repr(), 0u64..4, any_repr()).prop_map(|(a, k, c)| Triple {
        a,
        b: (0u64.wrapping_sub(a)).wrapping_add(k).wrapping_sub(2), // a+b wraps around 2^64 by ~0
        c,
    });
    let corr_sub = (any_repr(), 0u64..4, any_repr()).prop_map(|(a, k, c)| Triple {
        a,
        b: a.wrapping_add(k).wrapping_sub(2), // a-b near 0 from both sides
        c,
    });
    let both_big = (0u64..0x1_0000_0000, 0u64..0x1_0000_0000, any_repr()).prop_map(|(x, y, c)| Triple {
        a: u64::MAX - x,
        b: u64::MAX - y,
        c,
    });
    bx(prop_oneof![4 => indep, 1 => corr_add, 1 => corr_sub, 1 => both_big])
}

fn check_eq(what: &str, got: F, want: u64, t: &Triple) -> Result<(), String> {
    if got.to_canonical_u64() != want {
        return Err(format!(
            "{}: got {} want {} for a={:#x} b={:#x} c={:#x}",
            what,
            got.to_canonical_u64(),
            want,
            t.a,
            t.b,
            t.c
        ));
    }
    Ok(())
}

fn scalar_ops(t: &Triple, st: &mut Stats) -> Result<(), String> {
    let (a, b, c) = (F(t.a), F(t.b), F(t.c));
    st.label(class_of(t.a));
    if is_boundary(t.a) || is_boundary(t.b) || t.a >= P || t.b >= P {
        st.nontrivial(&(t.a, t.b, t.c));
    }
    // Rare-branch accounting (operand predicates computed here, not read from the code).
    let (s1, o1) = t.a.overflowing_add(t.b);
    if o1 && s1.overflowing_add(0xFFFF_FFFF).1 {
        st.label("branch:add_double_overflow");
    }
    let (d1, u1) = t.a.overflowing_sub(t.b);
    if u1 && d1.overflowing_sub(0xFFFF_FFFF).1 {
        st.label("branch:sub_double_underflow");
    }
    st.sample(|| json!({"a": t.a, "b": t.b, "c": t.c}));

    check_eq("add", a + b, refmod::add(t.a, t.b), t)?;
    check_eq("sub", a - b, refmod::sub(t.a, t.b), t)?;
    check_eq("neg", -a, refmod::neg(t.a), t)?;
    check_eq("mul", a * b, refmod::mul(t.a, t.b), t)?;
    check_eq("square", a.square(), refmod::mul(t.a, t.a), t)?;
    check_eq("double", a.double(), refmod::add(t.a, t.a), t)?;
    check_eq(
        "multiply_accumulate",
        a.multiply_accumulate(b, c),
        refmod::add(t.a, refmod::mul(t.b, t.c)),
        t,
    )?;
    let mut x = a;
    x += b;
    check_eq("add_assign", x, refmod::add(t.a, t.b), t)?;
    let mut x = a;
    x -= b;
    check_eq("sub_assign", x, refmod::sub(t.a, t.b), t)?;
    let mut x = a;
    x *= b;
    check_eq("mul_assign", x, refmod::mul(t.a, t.b), t)?;
    check_eq("to_canonical", F(a.to_canonical_u64()), t.a % P, t)?;
    if a.to_canonical_u64() >= P {
        return Err(format!("to_canonical_u64 not canonical for {:#x}", t.a));
    }
    if (a == b) != (t.a % P == t.b % P) {
        return Err(format!("eq disagrees with residues for {:#x} {:#x}", t.a, t.b));
    }
    // widening reductions
    let wide = ((t.a as u128) << 64) | t.b as u128;
    check_eq("from_noncanonical_u128", F::from_noncanonical_u128(wide), refmod::red(wide), t)?;
    let n96 = (t.a, t.b as u32);
    let v96 = ((n96.1 as u128) << 64) | n96.0 as u128;
    check_eq("from_noncanonical_u96", F::from_noncanonical_u96(n96), refmod::red(v96), t)?;
    check_eq("from_noncanonical_u64", F::from_noncanonical_u64(t.a), t.a % P, t)?;
    let i = t.a as i64;
    let want_i = if i >= 0 { (i as u64) % P } else { refmod::neg(i.unsigned_abs()) };
    check_eq("from_noncanonical_i64", F::from_noncanonical_i64(i), want_i, t)?;
    // documented precondition: rhs canonical
    let rc = t.b % P;
    check_eq("add_canonical_u64", unsafe { a.add_canonical_u64(rc) }, refmod::add(t.a, rc), t)?;
    check_eq("sub_canonical_u64", unsafe { a.sub_canonical_u64(rc) }, refmod::sub(t.a, rc), t)?;
    // inversion / exponentiation
    if t.a % P != 0 {
        let inv = a.inverse();
        check_eq("inverse", inv, refmod::inv(t.a), t)?;
        check_eq("a*inv", a * inv, 1, t)?;
        check_eq("div", b / a, refmod::mul(t.b, refmod::inv(t.a)), t)?;
    } else if a.try_inverse().is_some() {
        return Err(format!("try_inverse(0-residue {:#x}) returned Some", t.a));
    }
    check_eq("exp_u64", a.exp_u64(t.c), refmod::pow(t.a, t.c as u128), t)?;
    let k = (t.c % 70) as usize;
    check_eq("exp_power_of_2", a.exp_power_of_2(k), refmod::pow(t.a, 1u128 << k), t)?;
    Ok(())
}

pub fn run(ctx: &mut Ctx) {
    ctx.rule = "operand triples from the boundary-biased representation generator (incl. non-canonical \
                representations and correlated pairs around 2^64 and 0); non-trivial = some operand is \
                non-canonical or in a boundary class; distinct = distinct operand triple"
        .into();
    ctx.assumptions.push("oracle = u128 arithmetic modulo p".into());
    let cases = ctx.tier.pick(200_000, 20_000_000);
    ctx.run_sub("scalar_ops", cases, 16, triple, scalar_ops);
    let _ = canonical;
}
