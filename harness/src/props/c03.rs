//! C03 — accepted proofs are bound to each of their elements and to their circuit.
//! Fault enumeration over the serde tree of an accepted proof (plain and compressed).

use plonky2::plonk::config::GenericConfig;
use plonky2::plonk::proof::{CompressedProofWithPublicInputs, ProofWithPublicInputs};
use proptest::prelude::*;
use serde::{Deserialize, Serialize};
use serde_json::{json, Value};

use crate::circuit::{build_case, RawCircuit};
use crate::engine::{bx, catch, hash_of, Ctx, Stats};
use crate::gen::config::ConfigLimits;
use crate::gen::dsl::{raw_program, DslOpts, RawProgram, D, F};
use crate::gen::mutate::*;
use crate::props::common::*;
use crate::with_config;

#[derive(Clone, Debug, Serialize, Deserialize)]
pub struct Case {
    pub circuit: RawCircuit,
    pub other_program: RawProgram,
    pub edits: Vec<RawEdit>,
    /// 0 = sampled edits, 1 = every leaf (bounded) and every container
    pub exhaustive: bool,
    pub compressed: bool,
}

fn case(max_ops: usize, n_edits: usize, exhaustive: bool, compressed: bool) -> BoxedStrategy<Case> {
    bx((raw_circuit(max_ops), raw_program(max_ops), prop::collection::vec(raw_edit(), n_edits..=n_edits)).prop_map(
        move |(circuit, other_program, edits)| Case {
            circuit,
            other_program,
            edits,
            exhaustive,
            compressed,
        },
    ))
}

pub fn limits() -> ConfigLimits {
    ConfigLimits {
        min_queries: 10, // lde_bits >= 5 (degree >= 4 rows, rate >= 3) => margin >= 50
        max_queries: 14,
        max_queries_zk: 10,
        max_pow: 6,
        ..ConfigLimits::default()
    }
}

enum Verdict {
    Accepted,
    Rejected,
    Panicked(String),
}

fn run_edits<C: GenericConfig<D, F = F>>(c: &Case, known: &[String], st: &mut Stats) -> Result<(), String> {
    let opts = DslOpts::default();
    let lim = limits();
    let pr = prove_case::<C>(&c.circuit, &opts, &lim, st)?;
    let data = &pr.built.data;
    let keccak = pr.built.cfg.keccak;
    let asserted = pr.margin >= MARGIN;
    st.label(if asserted { "margin_ok" } else { "low_margin_unasserted" });
    let chash = hash_of(&c.circuit);

    // the value under test as a serde tree + a verifier closure over trees
    let comp: Option<CompressedProofWithPublicInputs<F, C, D>> = if c.compressed {
        Some(data.compress(pr.proof.clone()).map_err(|e| format!("compress failed on an accepted proof: {:#}", e))?)
    } else {
        None
    };
    let mut tree: Value = match &comp {
        Some(cp) => to_tree(cp),
        None => to_tree(&pr.proof),
    };
    let verify_tree = |t: &Value| -> Result<Verdict, String> {
        if c.compressed {
            let p: CompressedProofWithPublicInputs<F, C, D> = match Deserialize::deserialize(t) {
                Ok(p) => p,
                Err(e) => return Err(e.to_string()),
            };
            Ok(match catch(|| data.verify_compressed(p)) {
                Ok(Ok(())) => Verdict::Accepted,
                Ok(Err(_)) => Verdict::Rejected,
                Err(p) => Verdict::Panicked(p),
            })
        } else {
            let p: ProofWithPublicInputs<F, C, D> = match Deserialize::deserialize(t) {
                Ok(p) => p,
                Err(e) => return Err(e.to_string()),
            };
            Ok(match catch(|| data.verify(p)) {
                Ok(Ok(())) => Verdict::Accepted,
                Ok(Err(_)) => Verdict::Rejected,
                Err(p) => Verdict::Panicked(p),
            })
        }
    };
    // sanity: the unmodified tree is accepted (round trip through the tree is faithful)
    match verify_tree(&tree) {
        Ok(Verdict::Accepted) => {}
        Ok(Verdict::Rejected) => return Err("unmodified proof rejected after serde tree round trip".into()),
        Ok(Verdict::Panicked(p)) => return Err(format!("unmodified proof panics: {}", p)),
        Err(e) => return Err(format!("unmodified proof tree does not deserialise: {}", e)),
    }

    let leaves = numeric_leaves(&tree);
    st.label(&format!("leaves_log2_{}", (leaves.len() as f64).log2() as usize));
    // ---- value edits ----
    let mut plan: Vec<(usize, ValueEdit)> = vec![];
    if c.exhaustive && leaves.len() <= 12_000 {
        st.label("exhaustive_leaves");
        for i in 0..leaves.len() {
            plan.push((i, ValueEdit::Plus1));
            let r = &c.edits[i % c.edits.len()];
            plan.push((i, ValueEdit::Set(r.val)));
        }
    } else {
        for r in &c.edits {
            let i = frac32(r.pos, leaves.len());
            let e = match r.kind % 4 {
                0 => ValueEdit::Plus1,
                1 => ValueEdit::Minus1,
                2 => ValueEdit::Zero,
                _ => ValueEdit::Set(r.val),
            };
            plan.push((i, e));
        }
    }
    for (i, e) in plan {
        let path = &leaves[i];
        let class = class_of(path);
        let is_index_list = class.ends_with("indices[]");
        let old = get(&tree, path).cloned().unwrap();
        let modulus = if is_index_list { u64::MAX } else { leaf_modulus(path, keccak) };
        if !edit_value(&mut tree, path, e, modulus) {
            continue;
        }
        let verdict = verify_tree(&tree);
        *get_mut(&mut tree, path).unwrap() = old;
        st.evals(1);
        st.label(&format!("value:{}", class));
        match verdict {
            Err(_) => st.label("not_constructible"),
            Ok(v) => {
                if is_index_list {
                    // redundant list: the statement exempts it; record the outcome only
                    st.label(match v {
                        Verdict::Accepted => "indices_edit_accepted",
                        Verdict::Rejected => "indices_edit_rejected",
                        Verdict::Panicked(_) => "indices_edit_panicked",
                    });
                    continue;
                }
                st.nontrivial(&(chash, c.compressed, i, e.name()));
                match v {
                    Verdict::Accepted => {
                        if asserted {
                            return Err(format!(
                                "edited proof ACCEPTED: {} leaf {} edit {:?} (compressed={}, margin={})",
                                class,
                                path_string(path),
                                e,
                                c.compressed,
                                pr.margin
                            ));
                        }
                        st.label("accepted_low_margin");
                    }
                    Verdict::Rejected => {}
                    Verdict::Panicked(_) => st.label("rejected_by_panic"),
                }
            }
        }
    }
    // ---- shape edits ----
    let conts = containers(&tree);
    let mut shape_plan: Vec<(usize, ShapeEdit)> = vec![];
    if c.exhaustive && conts.len() <= 6_000 {
        for i in 0..conts.len() {
            for e in ShapeEdit::ALL {
                shape_plan.push((i, e));
            }
        }
    } else {
        for r in c.edits.iter().take(c.edits.len() / 4 + 1) {
            shape_plan.push((frac32(r.pos.rotate_left(13), conts.len()), ShapeEdit::ALL[(r.kind as usize >> 2) % 4]));
        }
    }
    for (i, e) in shape_plan {
        let (path, _, _) = &conts[i];
        let class = class_of(path);
        let old = get(&tree, path).cloned().unwrap();
        if !edit_shape(&mut tree, path, e) {
            continue;
        }
        let verdict = verify_tree(&tree);
        *get_mut(&mut tree, path).unwrap() = old;
        st.evals(1);
        st.label(&format!("shape:{}", class));
        match verdict {
            Err(_) => st.label("not_constructible"),
            Ok(v) => {
                if class.ends_with("indices") {
                    st.label("indices_shape_edit");
                    continue;
                }
                st.nontrivial(&(chash, c.compressed, "shape", i, e.name()));
                match v {
                    Verdict::Accepted => {
                        let sig = format!(
                            "{}|{}|{}|accepted",
                            if c.compressed { "compressed" } else { "plain" },
                            class.rsplit(|ch| ch == '.' || ch == ']').next().unwrap_or(""),
                            e.name()
                        );
                        if known.iter().any(|k| sig.contains(k.as_str())) {
                            st.known(&sig);
                            continue;
                        }
                        return Err(format!(
                            "shape-edited proof ACCEPTED: {} at {} edit {} (compressed={})",
                            class,
                            path_string(path),
                            e.name(),
                            c.compressed
                        ));
                    }
                    Verdict::Rejected => {}
                    Verdict::Panicked(_) => st.label("rejected_by_panic"),
                }
            }
        }
    }
    // ---- other circuit's verifier data ----
    let other_raw = RawCircuit {
        config: c.circuit.config.clone(),
        program: c.other_program.clone(),
    };
    let other = build_case::<C>(&other_raw, &opts, &lim);
    if other.data.verifier_only != data.verifier_only {
        let same_shape = other.data.common == data.common;
        st.label(if same_shape { "other_circuit_same_shape" } else { "other_circuit_other_shape" });
        st.nontrivial(&(chash, "other", hash_of(&c.other_program)));
        st.evals(1);
        let v = if c.compressed {
            catch(|| other.data.verify_compressed(comp.clone().unwrap())).map(|r| r.is_ok())
        } else {
            catch(|| other.data.verify(pr.proof.clone())).map(|r| r.is_ok())
        };
        if let Ok(true) = v {
            return Err(format!("proof ACCEPTED under another circuit's verifier data (same_shape={})", same_shape));
        }
        // same common data, swapped verifier-only data (digest / constants cap only)
        if same_shape && !c.compressed {
            let vd = plonky2::plonk::circuit_data::VerifierCircuitData {
                verifier_only: other.data.verifier_only.clone(),
                common: data.common.clone(),
            };
            st.evals(1);
            if let Ok(true) = catch(|| vd.verify(pr.proof.clone())).map(|r| r.is_ok()) {
                return Err("proof ACCEPTED under another circuit's verifier-only data".into());
            }
        }
    } else {
        st.label("other_circuit_identical_skipped");
    }
    st.sample(|| json!({"compressed": c.compressed, "leaves": leaves.len(), "containers": conts.len(),
        "config": format!("{:?}", pr.built.config), "ops": pr.built.elab.description(), "margin": pr.margin}));
    Ok(())
}

fn prop(c: &Case, known: &[String], st: &mut Stats) -> Result<(), String> {
    with_config!(c.circuit.config.keccak, run_edits, c, known, st)
}

pub fn run(ctx: &mut Ctx) {
    ctx.level = "fault_enumeration";
    ctx.rule = "accepted proof of a generated circuit (FRI margin >= 48 bits) x value edit (+1, -1, 0, random canonical \
                value; never an alias of the same residue) at a numeric leaf of its serde tree, or shape edit (drop last / \
                drop first / empty / duplicate) of a container, or another circuit's verifier data; thorough tier enumerates \
                every leaf (2 values each) and every container of proofs up to 12k leaves; non-trivial = the edit changed an existing \
                element and the result deserialised; distinct = (circuit, plain/compressed, position, edit)"
        .into();
    ctx.assumptions.push("rejections that depend on Fiat-Shamir re-randomisation are asserted only when lde_bits*queries+pow_bits >= 48".into());
    ctx.assumptions.push("edits of the compressed proof's redundant `indices` list are exempt (outcome recorded only)".into());
    ctx.shrink_iters = 40;
    let (n_cases, n_edits) = ctx.tier.pick((28, 250), (300, 400));
    let n_edits_c = ctx.tier.pick(40, 400);
    let max_ops = ctx.tier.pick(12, 30);
    let ex = ctx.tier == crate::engine::Tier::Thorough;
    let known = ctx.open_known_signatures();
    let k1 = known.clone();
    ctx.run_sub("plain_edits", n_cases, 14, move || case(max_ops, n_edits, ex, false), move |c, st| prop(c, &k1, st));
    let k2 = known.clone();
    ctx.run_sub("compressed_edits", n_cases, 14, move || case(max_ops, n_edits_c, ex, true), move |c, st| prop(c, &k2, st));
}
