//! C06 — the in-circuit verifier accepts exactly what the native verifier accepts.
//! Differential oracle: native verify(inner).is_ok() == (assignment + witness generation succeed
//! and the satisfaction oracle finds no violated gate row / copy class in the outer circuit).

use std::collections::BTreeMap;

use plonky2::field::types::{Field, PrimeField64};
use plonky2::hash::hash_types::HashOut;
use plonky2::iop::generator::generate_partial_witness;
use plonky2::iop::witness::{PartialWitness, PartitionWitness, WitnessWrite};
use plonky2::plonk::circuit_builder::CircuitBuilder;
use plonky2::plonk::circuit_data::{CircuitConfig, CircuitData, VerifierCircuitTarget};
use plonky2::plonk::config::{GenericConfig, Hasher};
use plonky2::plonk::proof::{ProofWithPublicInputs, ProofWithPublicInputsTarget};
use plonky2::plonk::prover::prove_with_partition_witness;
use plonky2::util::timing::TimingTree;
use plonky2::verif_hooks::{reset_knobs, set_knobs, Knobs};
use proptest::prelude::*;
use serde::{Deserialize, Serialize};
use serde_json::{json, Value};

use crate::circuit::{RawCircuit, KC, PC};
use crate::engine::{bx, catch, hash_of, Ctx, Stats};
use crate::gen::config::ConfigLimits;
use crate::gen::dsl::{DslOpts, D, F};
use crate::gen::mutate::*;
use crate::oracle::sat;
use crate::props::common::*;

#[derive(Clone, Debug, Serialize, Deserialize)]
pub struct Case {
    pub circuit: RawCircuit,
    pub outer_keccak: bool,
    /// raw choices for the outer circuit's own FRI parameters (independent of the inner ones)
    pub outer_fri: (u16, u16, u16, u16),
    pub edits: Vec<RawEdit>,
}

fn case(max_ops: usize, n: usize) -> BoxedStrategy<Case> {
    bx((
        raw_circuit(max_ops),
        prop::bool::weighted(0.25),
        (any::<u16>(), any::<u16>(), any::<u16>(), any::<u16>()),
        prop::collection::vec(raw_edit(), n..=n),
    )
        .prop_map(|(mut circuit, outer_keccak, outer_fri, edits)| {
            circuit.config.keccak = false; // the inner hasher must be algebraic
            Case {
                circuit,
                outer_keccak,
                outer_fri,
                edits,
            }
        }))
}

pub fn limits() -> ConfigLimits {
    ConfigLimits {
        min_queries: 1,
        max_queries: 10,
        max_queries_zk: 3,
        max_pow: 6,
        allow_keccak: false,
        ..ConfigLimits::default()
    }
}

pub struct Outer<OC: GenericConfig<D, F = F>> {
    pub data: CircuitData<F, OC, D>,
    pub instances: Vec<plonky2::gates::gate::GateInstance<F, D>>,
    pub pt: ProofWithPublicInputsTarget<D>,
    pub vdt: VerifierCircuitTarget,
}

/// Build the outer circuit verifying proofs of `inner`.
pub fn build_outer<OC: GenericConfig<D, F = F>>(inner: &CircuitData<F, PC, D>) -> Outer<OC> {
    build_outer_with::<OC>(inner, CircuitConfig::standard_recursion_config())
}

/// The standard recursion config with its own, generated FRI numbers (queries 1..=28, rate 3/4, cap 0..=4,
/// grinding 0..=10) — deliberately independent of the inner proof's parameters.
pub fn outer_config(raw: (u16, u16, u16, u16), inner_queries: usize) -> CircuitConfig {
    use crate::engine::frac;
    let mut c = CircuitConfig::standard_recursion_config();
    // half of the cases: no more query rounds than the inner proof has (often strictly fewer)
    c.fri_config.num_query_rounds = if raw.0 & 1 == 1 { 1 + frac(raw.0, inner_queries.max(1)) } else { 1 + frac(raw.0, 28) };
    c.fri_config.rate_bits = [3, 4][frac(raw.1, 2)];
    c.fri_config.cap_height = frac(raw.2, 5);
    c.fri_config.proof_of_work_bits = frac(raw.3, 11) as u32;
    c.security_bits = (c.fri_config.num_query_rounds * c.fri_config.rate_bits + c.fri_config.proof_of_work_bits as usize).min(100);
    c
}

pub fn build_outer_with<OC: GenericConfig<D, F = F>>(inner: &CircuitData<F, PC, D>, config: CircuitConfig) -> Outer<OC> {
    let mut builder = CircuitBuilder::<F, D>::new(config);
    let pt = builder.add_virtual_proof_with_pis(&inner.common);
    let vdt = builder.add_virtual_verifier_data(inner.common.config.fri_config.cap_height);
    builder.verify_proof::<PC>(&pt, &vdt, &inner.common);
    builder.register_public_inputs(&pt.public_inputs);
    let data = builder.build::<OC>();
    let instances = plonky2::verif_hooks::take_gate_instances::<F, D>().expect("recorder");
    Outer { data, instances, pt, vdt }
}

#[derive(Debug)]
pub enum CircuitVerdict {
    Accepts,
    AssignmentFailed(String),
    GenerationFailed(String),
    Violated(Vec<String>),
}

/// The verdict of the outer circuit on (proof, verifier data), through the library's own
/// assignment and witness-generation routines; on `Accepts`/`Violated` also returns the witness values.
pub fn circuit_verdict<OC: GenericConfig<D, F = F>>(
    outer: &Outer<OC>,
    proof: &ProofWithPublicInputs<F, PC, D>,
    vd: &plonky2::plonk::circuit_data::VerifierOnlyCircuitData<PC, D>,
) -> (CircuitVerdict, Option<Vec<Option<F>>>)
where
    OC::InnerHasher: Hasher<F, Hash = HashOut<F>>,
{
    let mut pw = PartialWitness::new();
    let assign = catch(|| -> anyhow::Result<()> {
        pw.set_proof_with_pis_target(&outer.pt, proof)?;
        pw.set_verifier_data_target(&outer.vdt, vd)?;
        Ok(())
    });
    match assign {
        Err(p) => return (CircuitVerdict::AssignmentFailed(p), None),
        Ok(Err(e)) => return (CircuitVerdict::AssignmentFailed(format!("{:#}", e)), None),
        Ok(Ok(())) => {}
    }
    let gen = catch(|| generate_partial_witness(pw, &outer.data.prover_only, &outer.data.common));
    let part = match gen {
        Err(p) => return (CircuitVerdict::GenerationFailed(p), None),
        Ok(Err(e)) => return (CircuitVerdict::GenerationFailed(format!("{:#}", e).chars().take(120).collect()), None),
        Ok(Ok(p)) => p,
    };
    let rep = sat::check_partition::<OC>(&outer.data, &outer.instances, &part, None);
    let vals = part.values.clone();
    if rep.clean() {
        (CircuitVerdict::Accepts, Some(vals))
    } else {
        (CircuitVerdict::Violated(rep.violated.iter().take(3).cloned().collect()), Some(vals))
    }
}

fn run_outer<OC: GenericConfig<D, F = F>>(c: &Case, st: &mut Stats) -> Result<(), String>
where
    OC::InnerHasher: Hasher<F, Hash = HashOut<F>>,
{
    let opts = DslOpts::default();
    let pr = prove_case::<PC>(&c.circuit, &opts, &limits(), st)?;
    let inner = &pr.built.data;
    let chash = hash_of(&c.circuit);
    let oconf = outer_config(c.outer_fri, pr.built.config.fri_config.num_query_rounds);
    st.label(if oconf.fri_config.num_query_rounds < pr.built.config.fri_config.num_query_rounds { "outer_fewer_queries_than_inner" } else { "outer_ge_queries" });
    let outer = catch(|| build_outer_with::<OC>(inner, oconf.clone())).map_err(|p| format!("building the outer verifier circuit PANICKED: {} [inner config {:?}]", p, pr.built.config))?;
    st.label(&format!("outer_degree_bits{}", outer.data.common.degree_bits()));
    st.label(if c.outer_keccak { "outer_keccak" } else { "outer_poseidon" });

    // ---- honest ----
    st.evals(1);
    let (v, _) = circuit_verdict(&outer, &pr.proof, &inner.verifier_only);
    if !matches!(v, CircuitVerdict::Accepts) {
        return Err(format!("outer circuit REJECTS an honest inner proof: {:?} [inner config {:?}]", v, pr.built.config));
    }
    let mut pw = PartialWitness::new();
    pw.set_proof_with_pis_target(&outer.pt, &pr.proof).map_err(|e| format!("{:#}", e))?;
    pw.set_verifier_data_target(&outer.vdt, &inner.verifier_only).map_err(|e| format!("{:#}", e))?;
    let outer_proof = outer.data.prove(pw).map_err(|e| format!("outer prove failed for an honest inner proof: {:#}", e))?;
    outer.data.verify(outer_proof.clone()).map_err(|e| format!("outer proof of an honest inner proof rejected: {:#}", e))?;
    let got: Vec<u64> = outer_proof.public_inputs.iter().map(|x| x.to_canonical_u64()).collect();
    let want: Vec<u64> = pr.proof.public_inputs.iter().map(|x| x.to_canonical_u64()).collect();
    if got != want {
        return Err("outer proof does not re-expose the inner public inputs".into());
    }

    // ---- candidate inner proofs: tampered, false statements, bad grinding ----
    let mut candidates: Vec<(String, ProofWithPublicInputs<F, PC, D>)> = vec![];
    let mut tree: Value = to_tree(&pr.proof);
    let leaves = numeric_leaves(&tree);
    let mut by_class: BTreeMap<String, Vec<usize>> = BTreeMap::new();
    for (i, p) in leaves.iter().enumerate() {
        by_class.entry(class_of(p)).or_default().push(i);
    }
    let classes: Vec<&String> = by_class.keys().collect();
    for r in &c.edits {
        let cls = classes[frac32(r.pos, classes.len())];
        let members = &by_class[cls];
        let li = members[frac32(r.pos.rotate_left(11), members.len())];
        let path = &leaves[li];
        let e = match r.kind % 3 {
            0 => ValueEdit::Plus1,
            1 => ValueEdit::Zero,
            _ => ValueEdit::Set(r.val),
        };
        let old = get(&tree, path).cloned().unwrap();
        edit_value(&mut tree, path, e, crate::gen::field::P);
        let p2: Result<ProofWithPublicInputs<F, PC, D>, _> = Deserialize::deserialize(&tree);
        *get_mut(&mut tree, path).unwrap() = old;
        if let Ok(p2) = p2 {
            candidates.push((format!("edit:{}", cls), p2));
        }
    }
    // false statement: corrupt the inner witness and let the real prover emit a proof
    {
        let inputs = pr.built.elab.witness();
        if let Ok(mut part) = generate_partial_witness(inputs, &inner.prover_only, &inner.common) {
            let r = &c.edits[0];
            let cell = frac32(r.pos, inner.common.degree() * inner.common.config.num_wires);
            let rep = inner.prover_only.representative_map[cell];
            part.values[rep] = Some(part.values[rep].unwrap_or(F::ZERO) + F::ONE);
            let mut k = Knobs::default();
            k.lenient_quotient = true;
            set_knobs(k);
            let res = catch(|| prove_with_partition_witness(&inner.prover_only, &inner.common, part, &mut TimingTree::default()));
            reset_knobs();
            if let Ok(Ok(p)) = res {
                candidates.push(("false_statement".to_string(), p));
            }
        }
        // bad grinding: honest witness, overridden proof-of-work witness
        let mut k = Knobs::default();
        k.pow_witness = Some(c.edits[0].val);
        set_knobs(k);
        let res = catch(|| inner.prove(pr.built.elab.witness()));
        reset_knobs();
        if let Ok(Ok(p)) = res {
            candidates.push(("pow_override".to_string(), p));
        }
    }
    // wrong verifier data: digest edited
    let mut vd_bad = inner.verifier_only.clone();
    vd_bad.circuit_digest.elements[0] += F::ONE;

    let mut n_checked = 0usize;
    for (what, p) in candidates.iter().map(|(w, p)| (w.clone(), p)).chain(std::iter::once(("wrong_verifier_digest".to_string(), &pr.proof))) {
        let vd = if what == "wrong_verifier_digest" { &vd_bad } else { &inner.verifier_only };
        let native = if what == "wrong_verifier_digest" {
            let vdata = plonky2::plonk::circuit_data::VerifierCircuitData {
                verifier_only: vd_bad.clone(),
                common: inner.common.clone(),
            };
            catch(|| vdata.verify(p.clone())).map(|r| r.is_ok()).unwrap_or(false)
        } else {
            catch(|| inner.verify(p.clone())).map(|r| r.is_ok()).unwrap_or(false)
        };
        st.evals(1);
        let (cv, vals) = circuit_verdict(&outer, p, vd);
        let circuit_ok = matches!(cv, CircuitVerdict::Accepts);
        st.label(&what);
        st.label(match (&cv, native) {
            (CircuitVerdict::Accepts, true) => "both_accept",
            (CircuitVerdict::Accepts, false) => "DISAGREE_circuit_accepts",
            (CircuitVerdict::AssignmentFailed(_), _) => "circuit_reject:assignment_failed",
            (CircuitVerdict::GenerationFailed(_), _) => "circuit_reject:generation_failed",
            (CircuitVerdict::Violated(_), _) => "circuit_reject:constraints_violated",
        });
        if native != circuit_ok {
            return Err(format!(
                "native verifier says {} but the in-circuit verifier says {:?} for `{}` [inner config {:?}]",
                native, cv, what, pr.built.config
            ));
        }
        if !native {
            st.nontrivial(&(chash, what.clone(), n_checked));
            // tie the satisfaction oracle to the real argument on a sample
            if let (Some(vals), true) = (vals, n_checked % 16 == 3) {
                let part = PartitionWitness {
                    values: vals,
                    representative_map: &outer.data.prover_only.representative_map,
                    num_wires: outer.data.common.config.num_wires,
                    degree: outer.data.common.degree(),
                };
                st.evals(1);
                st.label("outer_prover_on_rejected");
                let res = catch(|| prove_with_partition_witness(&outer.data.prover_only, &outer.data.common, part, &mut TimingTree::default()));
                if let Ok(Ok(op)) = res {
                    if catch(|| outer.data.verify(op)).map(|r| r.is_ok()).unwrap_or(false) {
                        return Err(format!("an ACCEPTED outer proof was obtained for a natively rejected inner proof (`{}`)", what));
                    }
                }
            }
        }
        n_checked += 1;
    }
    st.sample(|| json!({"inner_config": format!("{:?}", pr.built.config), "inner_ops": pr.built.elab.description(),
        "outer_degree_bits": outer.data.common.degree_bits(), "candidates": candidates.len()}));
    Ok(())
}

fn prop(c: &Case, st: &mut Stats) -> Result<(), String> {
    if c.outer_keccak {
        run_outer::<KC>(c, st)
    } else {
        run_outer::<PC>(c, st)
    }
}

pub fn run(ctx: &mut Ctx) {
    ctx.rule = "generated inner circuit (Poseidon config; with/without lookups and blinding, several FRI arities and cap heights) and an \
                outer recursive-verifier circuit (Poseidon or Keccak outer config); inner proofs: honest, value-edited in every component class, \
                a false statement emitted by the real prover, an overridden grinding witness, wrong verifier digest; oracle = native verdict == \
                (assignment + witness generation succeed and no gate row / copy class of the outer circuit is violated); \
                non-trivial = natively rejected inner proof; distinct = (inner circuit, tamper class, index)"
        .into();
    ctx.assumptions.push("the satisfaction oracle trusts each gate's eval_unfiltered (C07); on a sample of rejected cases the real outer prover is run and its proof must not verify".into());
    ctx.shrink_iters = 20;
    let (n, e) = ctx.tier.pick((56, 40), (600, 300));
    let max_ops = ctx.tier.pick(8, 25);
    ctx.run_sub("recursive_verifier", n, 14, move || case(max_ops, e), prop);
}
