//! C01 — honest proofs of satisfiable circuits verify and carry the right outputs.

use plonky2::field::types::PrimeField64;
use plonky2::plonk::config::GenericConfig;
use proptest::prelude::*;
use serde_json::json;

use crate::circuit::{build_case, RawCircuit, KC, PC};
use crate::engine::{bx, Ctx, Stats};
use crate::gen::config::{raw_config, ConfigLimits};
use crate::gen::dsl::{raw_program, DslOpts, D, F};

pub fn raw_circuit(max_ops: usize) -> BoxedStrategy<RawCircuit> {
    bx((raw_config(), raw_program(max_ops)).prop_map(|(config, program)| RawCircuit { config, program }))
}

fn honest<C: GenericConfig<D, F = F>>(raw: &RawCircuit, st: &mut Stats) -> Result<(), String> {
    let opts = DslOpts::default();
    let lim = ConfigLimits::default();
    let built = build_case::<C>(raw, &opts, &lim);
    for l in &built.cfg.labels {
        st.label(l);
    }
    for n in &built.elab.op_names {
        st.label(&format!("op:{}", n));
    }
    st.label(&format!("degree_bits{}", built.data.common.degree_bits()));
    if built.dry_build {
        st.label("dry_build");
    }
    if built.elab.boundary_values > 0 {
        st.label("boundary_values");
    }
    let fam = built.elab.families.len();
    if fam >= 2 && !built.elab.expected_pis.is_empty() {
        st.nontrivial(raw);
    }
    st.sample(|| {
        json!({"config": format!("{:?}", built.config), "ops": built.elab.description(),
               "inputs": built.elab.inputs.len(), "degree_bits": built.data.common.degree_bits()})
    });
    let pw = built.elab.witness();
    let proof = built.data.prove(pw).map_err(|e| format!("honest prove failed: {:#} [{}]", e, built.elab.description()))?;
    let want: Vec<u64> = built.elab.expected_pis.iter().map(|x| x.to_canonical_u64()).collect();
    let got: Vec<u64> = proof.public_inputs.iter().map(|x| x.to_canonical_u64()).collect();
    if want != got {
        return Err(format!("public inputs differ from reference: got {:?} want {:?} [{}]", got, want, built.elab.description()));
    }
    built
        .data
        .verify(proof.clone())
        .map_err(|e| format!("honest proof rejected: {:#} [{}]", e, built.elab.description()))?;
    // the stand-alone verifier data accepts too
    built
        .data
        .verifier_data()
        .verify(proof.clone())
        .map_err(|e| format!("honest proof rejected by verifier_data(): {:#}", e))?;
    // an independently built copy of the same program accepts the proof (cheap C19 echo)
    let again = build_case::<C>(raw, &opts, &lim);
    if again.data.verifier_only != built.data.verifier_only {
        return Err("second build of the same program gives different verifier data".into());
    }
    again.data.verify(proof).map_err(|e| format!("proof rejected by second build: {:#}", e))?;
    Ok(())
}

fn prop(raw: &RawCircuit, st: &mut Stats) -> Result<(), String> {
    // decide the hash config from the raw config (same rule as elaborate_config)
    if raw.config.keccak {
        honest::<KC>(raw, st)
    } else {
        honest::<PC>(raw, st)
    }
}

pub fn run(ctx: &mut Ctx) {
    ctx.rule = "case = (raw config choices, raw program) elaborated into a CircuitBuilder program with a reference \
                interpreter; non-trivial = ops from >= 2 gadget families and >= 1 public output; distinct = distinct raw case"
        .into();
    ctx.assumptions.push("reference interpreter uses Goldilocks field arithmetic (judged by C14) and native Poseidon hashing (judged by C13)".into());
    ctx.assumptions.push("prover blinding salts come from OsRng and are not seeded; the property must hold for all of them".into());
    ctx.shrink_iters = 80;
    let cases = ctx.tier.pick(400, 12_000);
    let max_ops = ctx.tier.pick(30, 120);
    ctx.run_sub("honest", cases, 14, move || raw_circuit(max_ops), prop);
}
