//! C02 — no accepted proof exists for an assignment that violates the circuit.
//! Fault enumeration: corrupt an honest witness (class overwrite, single cell, class split during
//! generation, public-input link) and let the *real* prover run, also with degenerate strategies
//! (all-zero Z, perturbed quotient, lenient truncation, grinding override). The satisfaction
//! oracle decides whether the corruption violates anything; if so nothing may verify.

use std::collections::BTreeMap;

use plonky2::field::types::{Field, PrimeField64};
use plonky2::hash::hash_types::HashOut;
use plonky2::iop::generator::generate_partial_witness;
use plonky2::iop::target::Target;
use plonky2::iop::witness::{PartitionWitness, Witness, WitnessWrite};
use plonky2::plonk::config::{GenericConfig, Hasher};
use plonky2::plonk::prover::prove_with_partition_witness;
use plonky2::util::timing::TimingTree;
use plonky2::verif_hooks::{reset_knobs, set_knobs, Knobs};
use proptest::prelude::*;
use serde::{Deserialize, Serialize};
use serde_json::json;

use crate::circuit::{build_case, Built, RawCircuit};
use crate::engine::{bx, catch, hash_of, Ctx, Stats};
use crate::gen::config::ConfigLimits;
use crate::gen::dsl::{DslOpts, D, F};
use crate::oracle::sat;
use crate::props::common::*;
use crate::with_config;

#[derive(Clone, Debug, Serialize, Deserialize, PartialEq, Eq, Hash)]
pub struct RawCorr {
    /// corruption family (F1 class overwrite, F2 single cell, F3 class split, F4 public input, F5 asserted variable)
    pub family: u8,
    pub pos: u32,
    pub val: u64,
    /// prover strategy
    pub strat: u8,
    pub sa: u32,
    pub sb: u64,
}

#[derive(Clone, Debug, Serialize, Deserialize)]
pub struct Case {
    pub circuit: RawCircuit,
    pub corrs: Vec<RawCorr>,
    /// enumerate every cell (F2) and every copy class (F1) of small circuits
    pub exhaustive: bool,
}

fn raw_corr() -> BoxedStrategy<RawCorr> {
    bx((any::<u8>(), any::<u32>(), crate::gen::field::canonical(), any::<u8>(), any::<u32>(), crate::gen::field::canonical_nonzero())
        .prop_map(|(family, pos, val, strat, sa, sb)| RawCorr { family, pos, val, strat, sa, sb }))
}

fn case(max_ops: usize, n: usize, exhaustive: bool) -> BoxedStrategy<Case> {
    bx((raw_circuit(max_ops), prop::collection::vec(raw_corr(), n..=n)).prop_map(move |(circuit, corrs)| Case {
        circuit,
        corrs,
        exhaustive,
    }))
}

pub fn limits() -> ConfigLimits {
    ConfigLimits {
        min_queries: 1,
        max_queries: 6,
        max_queries_zk: 3,
        max_pow: 5,
        ..ConfigLimits::default()
    }
}

pub fn dsl_opts() -> DslOpts {
    DslOpts {
        lookups: false, // lookup arguments are judged by C08 with their own oracle
        ..DslOpts::default()
    }
}

fn knobs_for(c: &RawCorr, num_challenges: usize, quotient_degree: usize, lenient_needed: bool) -> (Knobs, &'static str) {
    let mut k = Knobs::default();
    k.lenient_quotient = lenient_needed;
    let name = match c.strat % 8 {
        0 | 1 | 2 => "S0_honest_path",
        3 => {
            k.zero_zs = true;
            "S1_zero_z"
        }
        4 => {
            k.quotient_perturb = Some((c.sa as usize % num_challenges, c.sa as usize % quotient_degree.max(1), c.sb));
            "S2_quotient_perturbed"
        }
        5 => {
            k.scale_zs = Some(c.sb);
            "S1b_scaled_z"
        }
        6 => {
            k.pow_witness = Some(c.sb);
            "S4_pow_override"
        }
        _ => {
            k.zero_zs = true;
            k.quotient_perturb = Some((c.sa as usize % num_challenges, 0, c.sb));
            k.pow_witness = Some(c.sb ^ 0x5555);
            "S1+S2+S4"
        }
    };
    (k, name)
}

/// Run the real prover on `pw` with `knobs`, then the verifiers. Err(reason) iff something verified.
fn attempt<C: GenericConfig<D, F = F>>(
    built: &Built<C>,
    pw: PartitionWitness<F>,
    knobs: Knobs,
    st: &mut Stats,
) -> Result<&'static str, String> {
    let data = &built.data;
    set_knobs(knobs);
    let res = catch(|| prove_with_partition_witness(&data.prover_only, &data.common, pw, &mut TimingTree::default()));
    reset_knobs();
    st.evals(1);
    match res {
        Err(_) => Ok("prover_panicked"),
        Ok(Err(_)) => Ok("prover_err"),
        Ok(Ok(proof)) => {
            let v = catch(|| data.verify(proof.clone())).map(|r| r.is_ok()).unwrap_or(false);
            if v {
                return Err("verify ACCEPTED a proof for a violating assignment".into());
            }
            let vc = catch(|| data.compress(proof.clone()))
                .ok()
                .and_then(|r| r.ok())
                .map(|cp| catch(|| data.verify_compressed(cp)).map(|r| r.is_ok()).unwrap_or(false))
                .unwrap_or(false);
            if vc {
                return Err("verify_compressed ACCEPTED a proof for a violating assignment".into());
            }
            Ok("proof_emitted_rejected")
        }
    }
}

fn sat_of<C: GenericConfig<D, F = F>>(built: &Built<C>, pw: &PartitionWitness<F>, claimed_pis: Option<&[F]>) -> sat::SatReport {
    let data = &built.data;
    let pis: Vec<F> = match claimed_pis {
        Some(p) => p.to_vec(),
        None => data.prover_only.public_inputs.iter().map(|&t| pw.try_get_target(t).unwrap_or(F::ZERO)).collect(),
    };
    let pih: HashOut<F> = <C::InnerHasher as Hasher<F>>::hash_no_pad(&pis).into_hashout();
    let copy = PartitionWitness {
        values: pw.values.clone(),
        representative_map: pw.representative_map,
        num_wires: pw.num_wires,
        degree: pw.degree,
    };
    let matrix = copy.full_witness();
    sat::check(
        &built.instances,
        &matrix,
        &pih,
        &data.prover_only.representative_map,
        data.common.config.num_wires,
        data.common.config.num_routed_wires,
    )
}

trait IntoHashOut {
    fn into_hashout(self) -> HashOut<F>;
}
impl IntoHashOut for HashOut<F> {
    fn into_hashout(self) -> HashOut<F> {
        self
    }
}

fn run_case<C: GenericConfig<D, F = F>>(c: &Case, st: &mut Stats) -> Result<(), String>
where
    C::InnerHasher: Hasher<F, Hash = HashOut<F>>,
{
    let opts = dsl_opts();
    let lim = limits();
    let built = build_case::<C>(&c.circuit, &opts, &lim);
    for l in &built.cfg.labels {
        st.label(l);
    }
    let data = &built.data;
    let common = &data.common;
    let chash = hash_of(&c.circuit);
    let num_wires = common.config.num_wires;
    let routed = common.config.num_routed_wires;
    let degree = common.degree();
    let qdf = common.quotient_degree_factor;
    let lenient_needed = !qdf.is_power_of_two();
    let inputs = built.elab.witness();
    let honest = generate_partial_witness(inputs.clone(), &data.prover_only, common).map_err(|e| format!("honest witness generation failed: {:#}", e))?;
    // oracle sanity on the honest witness
    let rep0 = sat_of(&built, &honest, None);
    if !rep0.clean() {
        return Err(format!("satisfaction oracle reports violations on the HONEST witness: {:?}", rep0.violated));
    }
    let honest_values = honest.values.clone();
    let repmap = &data.prover_only.representative_map;

    // plan of corruptions
    let mut plan: Vec<RawCorr> = c.corrs.clone();
    if c.exhaustive && degree <= 64 {
        st.label("exhaustive_cells");
        let proto = c.corrs[0].clone();
        for row in 0..degree {
            for col in 0..num_wires {
                let mut r = c.corrs[(row * num_wires + col) % c.corrs.len()].clone();
                r.family = 1; // F2 at an exact cell
                r.pos = (row * num_wires + col) as u32 | 0x8000_0000;
                plan.push(r);
            }
        }
        let _ = proto;
    }

    for corr in &plan {
        let fam = corr.family % 8;
        let newv = F::from_canonical_u64(corr.val % crate::gen::field::P);
        // ---- build the corrupted witness ----
        let mut owned_map: Option<Vec<usize>> = None;
        let mut values = honest_values.clone();
        let mut claimed_pis: Option<Vec<F>> = None;
        let fam_name: &'static str;
        match fam {
            0 | 5 => {
                // F1: overwrite a whole copy class (chosen through one of its wires)
                fam_name = "F1_class_overwrite";
                let cell = frac32(corr.pos, degree * num_wires);
                let r = repmap[cell];
                let old = values[r].unwrap_or(F::ZERO);
                values[r] = Some(if newv == old { old + F::ONE } else { newv });
            }
            1 | 6 => {
                // F2: single cell detached from its class
                fam_name = "F2_single_cell";
                let cell = if corr.pos & 0x8000_0000 != 0 && c.exhaustive {
                    (corr.pos & 0x7fff_ffff) as usize % (degree * num_wires)
                } else {
                    frac32(corr.pos, degree * num_wires)
                };
                let mut m = repmap.clone();
                let old = values[m[cell]].unwrap_or(F::ZERO);
                values.push(Some(if newv == old { old + F::ONE } else { newv }));
                m[cell] = values.len() - 1;
                owned_map = Some(m);
            }
            2 => {
                // F4a: a different public-input vector is claimed (witness untouched)
                fam_name = "F4_claimed_pi";
                let mut pis: Vec<F> = data.prover_only.public_inputs.iter().map(|&t| honest.get_target(t)).collect();
                if pis.is_empty() {
                    continue;
                }
                let i = frac32(corr.pos, pis.len());
                pis[i] = if newv == pis[i] { pis[i] + F::ONE } else { newv };
                claimed_pis = Some(pis);
            }
            3 if corr.val & 1 == 1 => {
                // F4c: one hash wire of the public-input gate detached from its class
                fam_name = "F4_pi_gate_wire";
                let Some(pi_row) = built.instances.iter().position(|g| g.gate_ref.0.id().starts_with("PublicInputGate")) else { continue };
                let cell = pi_row * num_wires + (corr.pos as usize % 4);
                let mut m = repmap.clone();
                let old = values[m[cell]].unwrap_or(F::ZERO);
                values.push(Some(if newv == old { old + F::ONE } else { newv }));
                m[cell] = values.len() - 1;
                owned_map = Some(m);
            }
            3 => {
                // F4b: overwrite the class of a public-input target
                fam_name = "F4_pi_class";
                let pts = &data.prover_only.public_inputs;
                if pts.is_empty() {
                    continue;
                }
                let t = pts[frac32(corr.pos, pts.len())];
                let r = repmap[t.index(num_wires, degree)];
                let old = values[r].unwrap_or(F::ZERO);
                values[r] = Some(if newv == old { old + F::ONE } else { newv });
            }
            4 => {
                // F5: overwrite an explicitly asserted variable (range / bool / equality)
                fam_name = "F5_asserted_var";
                if built.elab.asserted.is_empty() {
                    continue;
                }
                let (t, kind) = built.elab.asserted[frac32(corr.pos, built.elab.asserted.len())];
                let r = repmap[t.index(num_wires, degree)];
                let old = values[r].unwrap_or(F::ZERO);
                let v = match kind {
                    "bool" => F::from_canonical_u64(2 + corr.val % 5),
                    "range" => F::from_canonical_u64(old.to_canonical_u64() | (1 << 63)),
                    _ => newv,
                };
                values[r] = Some(if v == old { old + F::ONE } else { v });
            }
            _ => {
                // F3: class split during generation — handled below (needs its own generation run)
                fam_name = "F3_class_split";
            }
        }

        let (knobs, strat_name) = knobs_for(corr, common.config.num_challenges, common.quotient_degree(), lenient_needed);

        if fam == 7 {
            match split_class_witness::<C>(&built, &c.circuit, corr, st) {
                Some((vals, map)) => {
                    values = vals;
                    owned_map = Some(map);
                }
                None => {
                    st.label("F3_not_applicable");
                    continue;
                }
            }
        }
        let map_ref: &[usize] = owned_map.as_deref().unwrap_or(repmap);
        let pw = PartitionWitness {
            values,
            representative_map: map_ref,
            num_wires,
            degree,
        };
        let report = sat_of(&built, &pw, claimed_pis.as_deref());
        if report.clean() {
            st.label("benign_discarded");
            continue;
        }
        let kinds: Vec<&str> = report.kinds().into_iter().collect();
        let outcome = if let Some(pis) = &claimed_pis {
            // honest proof, different claimed public inputs
            let proof = data.prove(inputs.clone()).map_err(|e| format!("honest prove failed: {:#}", e))?;
            let mut p2 = proof.clone();
            p2.public_inputs = pis.clone();
            st.evals(1);
            if catch(|| data.verify(p2)).map(|r| r.is_ok()).unwrap_or(false) {
                return Err("verify ACCEPTED a proof with altered public inputs".into());
            }
            "proof_emitted_rejected"
        } else {
            attempt::<C>(&built, pw, knobs, st).map_err(|m| {
                format!(
                    "{} [family {} strategy {} violated {:?} config {:?} ops {}]",
                    m,
                    fam_name,
                    strat_name,
                    report.violated.iter().take(4).collect::<Vec<_>>(),
                    built.config,
                    built.elab.description()
                )
            })?
        };
        st.label(fam_name);
        st.label(strat_name);
        st.label(outcome);
        for k in &kinds {
            st.label(&format!("violates:{}", k));
        }
        if kinds == ["copy"] {
            st.label("violates_only_copy");
        }
        if outcome == "proof_emitted_rejected" {
            st.nontrivial(&(chash, corr));
        }
    }
    st.sample(|| json!({"ops": built.elab.description(), "degree": degree, "config": format!("{:?}", built.config), "corruptions": plan.len()}));
    Ok(())
}

/// F3: re-run witness generation on a copy of the circuit in which one copy class is split in
/// two; the half that no generator determines gets another value. Every gate row is then
/// satisfied by construction (generators ran consistently); only the permutation is violated.
/// Returns (values, representative map) for a `PartitionWitness`, or None if the chosen class
/// cannot be split meaningfully.
fn split_class_witness<C: GenericConfig<D, F = F>>(
    built: &Built<C>,
    raw: &RawCircuit,
    corr: &RawCorr,
    st: &mut Stats,
) -> Option<(Vec<Option<F>>, Vec<usize>)> {
    let data = &built.data;
    let common = &data.common;
    let num_wires = common.config.num_wires;
    let routed = common.config.num_routed_wires;
    let degree = common.degree();
    let repmap = &data.prover_only.representative_map;
    // classes with >= 2 routed wires
    let mut classes: BTreeMap<usize, Vec<usize>> = BTreeMap::new();
    for row in 0..degree {
        for col in 0..routed {
            let idx = row * num_wires + col;
            classes.entry(repmap[idx]).or_default().push(idx);
        }
    }
    let multi: Vec<(&usize, &Vec<usize>)> = classes.iter().filter(|(_, v)| v.len() >= 2).collect();
    if multi.is_empty() {
        return None;
    }
    let (_, members) = multi[frac32(corr.pos, multi.len())];
    // split point: members[k..] move to a fresh representative
    let k = 1 + (corr.sa as usize % (members.len() - 1));
    let moved: Vec<usize> = members[k..].to_vec();
    // a second, identical build whose prover data we are allowed to alter
    let mut alt = build_case::<C>(raw, &super::c02::dsl_opts(), &super::c02::limits());
    if alt.data.prover_only.representative_map != *repmap {
        return None; // builds are expected to be deterministic; C19 judges that
    }
    let new_rep = moved[0];
    let old_rep = alt.data.prover_only.representative_map[new_rep];
    // also move virtual targets? No: only wire targets move, virtual targets stay with the first half.
    for &m in &moved {
        alt.data.prover_only.representative_map[m] = new_rep;
    }
    // if the old representative itself moved, re-root the remaining members
    if moved.contains(&old_rep) {
        let keep_rep = members[0];
        let n = alt.data.prover_only.representative_map.len();
        for i in 0..n {
            if alt.data.prover_only.representative_map[i] == old_rep && !moved.contains(&i) {
                alt.data.prover_only.representative_map[i] = keep_rep;
            }
        }
    }
    // re-index generators by their watched representatives
    let mut by_watch: BTreeMap<usize, Vec<usize>> = BTreeMap::new();
    for (gi, g) in alt.data.prover_only.generators.iter().enumerate() {
        for w in g.0.watch_list() {
            let r = alt.data.prover_only.representative_map[w.index(num_wires, degree)];
            by_watch.entry(r).or_default().push(gi);
        }
    }
    for v in by_watch.values_mut() {
        v.dedup();
    }
    alt.data.prover_only.generator_indices_by_watches = by_watch;
    // generate: first a dry run to see which half is undetermined
    let inputs = built.elab.witness();
    let reps: Vec<usize> = {
        let m = &alt.data.prover_only.representative_map;
        vec![m[members[0]], m[moved[0]]]
    };
    let newv = F::from_canonical_u64(corr.val % crate::gen::field::P);
    let gen0 = catch(|| generate_partial_witness(inputs.clone(), &alt.data.prover_only, &alt.data.common));
    let free_rep = match &gen0 {
        Ok(Ok(pw)) => {
            if pw.values[reps[0]].is_some() && pw.values[reps[1]].is_some() {
                // both halves determined by generators (e.g. two computations connected): they agree
                if pw.values[reps[0]] == pw.values[reps[1]] {
                    return None;
                }
                return Some((pw.values.clone(), alt.data.prover_only.representative_map.clone()));
            }
            if pw.values[reps[0]].is_none() {
                reps[0]
            } else {
                reps[1]
            }
        }
        // generation failed because the undetermined half is an input of some generator
        _ => {
            // decide by trying each half
            reps[1]
        }
    };
    for cand in [free_rep, if free_rep == reps[0] { reps[1] } else { reps[0] }] {
        // set the free half through one of its wire targets
        let wire_idx = if cand == alt.data.prover_only.representative_map[moved[0]] { moved[0] } else { members[0] };
        let t = Target::wire(wire_idx / num_wires, wire_idx % num_wires);
        let mut inp = inputs.clone();
        if inp.set_target(t, newv).is_err() {
            continue;
        }
        if let Ok(Ok(pw)) = catch(|| generate_partial_witness(inp.clone(), &alt.data.prover_only, &alt.data.common)) {
            if pw.values[reps[0]].is_some() && pw.values[reps[1]].is_some() && pw.values[reps[0]] != pw.values[reps[1]] {
                st.label("F3_generated");
                return Some((pw.values.clone(), alt.data.prover_only.representative_map.clone()));
            }
        }
    }
    None
}

fn prop(c: &Case, st: &mut Stats) -> Result<(), String> {
    with_config!(c.circuit.config.keccak, run_case, c, st)
}

pub fn run(ctx: &mut Ctx) {
    ctx.level = "fault_enumeration";
    ctx.rule = "generated circuit + honest witness + one corruption (F1 copy-class overwrite, F2 single cell detached from its class, \
                F3 copy class split before witness generation so that only the permutation is violated, F4 public-input link, F5 asserted \
                variable) + one prover strategy (honest path, all-zero / scaled Z, perturbed quotient, lenient truncation, grinding override); \
                thorough tier also enumerates every cell of circuits with <= 64 rows; a corruption is kept only if the satisfaction oracle \
                reports a violated gate row / copy class / public-input link; non-trivial = the prover emitted a proof that reached the verifier; \
                distinct = (circuit, corruption, strategy)"
        .into();
    ctx.assumptions.push("satisfaction oracle trusts each gate's own eval_unfiltered (judged by C07) and the builder's copy classes".into());
    ctx.assumptions.push("lookup arguments are excluded here and judged by C08".into());
    ctx.shrink_iters = 40;
    let (n_cases, n_corr) = ctx.tier.pick((42, 60), (1200, 120));
    let max_ops = ctx.tier.pick(14, 40);
    let ex = ctx.tier == crate::engine::Tier::Thorough;
    ctx.run_sub("corrupt_and_prove", n_cases, 14, move || case(max_ops, n_corr, ex), prop);
}
