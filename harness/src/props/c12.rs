//! C12 — Merkle commitments open only to the committed leaf at the committed position
//! (see DESIGN.md §C12). Oracle: `oracle::merkle_ref` (level-by-level reference trees, textbook
//! path walk, set-based path compression). The primitive hashes `hash_or_noop` / `two_to_one` are
//! the library's (judged by C13); the tree logic is judged here.

use plonky2::hash::batch_merkle_tree::BatchMerkleTree;
use plonky2::hash::hash_types::{BytesHash, HashOut};
use plonky2::hash::keccak::KeccakHash;
use plonky2::hash::merkle_proofs::{
    verify_batch_merkle_proof_to_cap, verify_merkle_proof, verify_merkle_proof_to_cap, MerkleProof,
};
use plonky2::hash::merkle_tree::{MerkleCap, MerkleTree};
use plonky2::hash::poseidon::PoseidonHash;
use plonky2::plonk::config::{GenericHashOut, Hasher};
use plonky2::verif_hooks::{compress_merkle_proofs, decompress_merkle_proofs};
use plonky2_field::goldilocks_field::GoldilocksField as F;
use plonky2_field::types::Field;
use proptest::prelude::*;
use serde::{Deserialize, Serialize};
use serde_json::json;

use crate::engine::{bx, catch, frac, hash_of, Ctx, Stats};
use crate::gen::field::{canonical, refmod};
use crate::oracle::merkle_ref::{
    ref_batch_verify, ref_compress, ref_compressed_total, ref_verify, RefBatchTree, RefTree, Verdict,
};

// ------------------------------------------------------------------------------------------
// Hasher kinds
// ------------------------------------------------------------------------------------------

trait Hk: Hasher<F> + Send + Sync + 'static {
    const NAME: &'static str;
    /// A different digest: one limb (field element resp. byte) incremented by one.
    fn tweak(h: Self::Hash, limb: usize) -> Self::Hash;
}

impl Hk for PoseidonHash {
    const NAME: &'static str = "poseidon";
    fn tweak(h: HashOut<F>, limb: usize) -> HashOut<F> {
        let mut e = h.elements;
        let k = limb % e.len();
        e[k] += F::ONE;
        HashOut { elements: e }
    }
}

impl Hk for KeccakHash<25> {
    const NAME: &'static str = "keccak25";
    fn tweak(h: BytesHash<25>, limb: usize) -> BytesHash<25> {
        let mut b = h.0;
        let k = limb % b.len();
        b[k] = b[k].wrapping_add(1);
        BytesHash(b)
    }
}

macro_rules! dispatch {
    ($hasher:expr, $f:ident, $($arg:expr),*) => {
        if $hasher == 0 { $f::<PoseidonHash>($($arg),*) } else { $f::<KeccakHash<25>>($($arg),*) }
    };
}

// ------------------------------------------------------------------------------------------
// Shared generators / helpers
// ------------------------------------------------------------------------------------------

fn pool_strat() -> BoxedStrategy<Vec<u64>> {
    bx(prop::collection::vec(canonical(), 4..=24))
}

/// (mode, raw): mode 0 = anywhere, 1 = root, 2 = cap at the leaves, 3 = one level below the leaves' parents.
fn cap_sel() -> BoxedStrategy<(u8, u16)> {
    bx((prop_oneof![5 => Just(0u8), 1 => Just(1u8), 1 => Just(2u8), 2 => Just(3u8)], any::<u16>()))
}

fn cap_height_of(sel: (u8, u16), max: usize) -> usize {
    match sel.0 {
        0 => frac(sel.1, max + 1),
        1 => 0,
        2 => max,
        _ => max.saturating_sub(1),
    }
}

fn width_strat() -> BoxedStrategy<u8> {
    bx(prop_oneof![8 => 0u8..=12, 1 => 13u8..=40])
}

fn dup_mask_strat() -> BoxedStrategy<u16> {
    bx(prop_oneof![
        12 => Just(0u16),
        1 => Just(1u16),
        1 => Just(2u16),
        1 => Just(0xFFFFu16),
        1 => any::<u16>(),
    ])
}

/// Row `id` of matrix `salt`, `width` canonical elements, a fixed arithmetic function of the
/// proptest-generated pool. Element 0 is `pool[salt] + id`, so rows with different ids (< p) differ.
fn row(pool: &[u64], salt: usize, id: usize, width: usize) -> Vec<F> {
    let l = pool.len();
    (0..width)
        .map(|j| {
            let v = if j == 0 {
                refmod::add(pool[salt % l], id as u64)
            } else {
                let a = pool[(id + 3 * j + salt) % l];
                let b = pool[(id / l + 7 * j + salt) % l];
                refmod::add(refmod::mul(a, id as u64 + 1), refmod::add(b, j as u64))
            };
            F::from_canonical_u64(v)
        })
        .collect()
}

fn matrix(pool: &[u64], salt: usize, n: usize, width: usize, dup_mask: u16) -> Vec<Vec<F>> {
    (0..n).map(|i| row(pool, salt, i & !(dup_mask as usize), width)).collect()
}

fn bump(rowv: &[F], e: usize) -> Vec<F> {
    let mut r = rowv.to_vec();
    let k = e % r.len();
    r[k] += F::ONE;
    r
}

fn pick(picks: &[u16], k: usize, n: usize) -> usize {
    frac(picks[k % picks.len()], n.max(1))
}

/// An index in `0..n` different from `i` (n ≥ 2).
fn other_than(i: usize, raw: u16, n: usize) -> usize {
    let j = frac(raw, n - 1);
    if j >= i {
        j + 1
    } else {
        j
    }
}

fn positions_of(raws: &[u16], n: usize) -> Vec<usize> {
    let mut ps = vec![0, n - 1];
    ps.extend(raws.iter().map(|&r| frac(r, n)));
    ps.sort_unstable();
    ps.dedup();
    ps
}

fn canon(v: &[F]) -> Vec<u64> {
    use plonky2_field::types::PrimeField64;
    v.iter().map(|x| x.to_canonical_u64()).collect()
}

fn rows_eq(a: &[Vec<F>], b: &[Vec<F>]) -> bool {
    a.len() == b.len() && a.iter().zip(b).all(|(x, y)| canon(x) == canon(y))
}

fn width_class<H: Hk>(w: usize) -> &'static str {
    if w == 0 {
        "leafwidth:0"
    } else if w * 8 < H::HASH_SIZE {
        "leafwidth:shorter_than_digest(noop)"
    } else if w * 8 == H::HASH_SIZE {
        "leafwidth:equal_digest(noop)"
    } else if w <= 8 {
        "leafwidth:longer_than_digest(1 rate block)"
    } else {
        "leafwidth:longer_than_digest(>1 rate block)"
    }
}

fn cap_class(cap_height: usize, log_n: usize) -> &'static str {
    if cap_height == log_n {
        "cap:at_leaves"
    } else if cap_height + 1 == log_n {
        "cap:subtrees_of_2"
    } else if cap_height == 0 {
        "cap:root"
    } else {
        "cap:middle"
    }
}

/// Compare an implementation verdict with the reference verdict.
/// `got`: Ok(true)=accepted, Ok(false)=returned Err, Err(p)=panicked.
/// A panic is tolerated only where the reference calls the statement malformed.
fn judge(
    st: &mut Stats,
    what: &str,
    got: Result<bool, String>,
    want: Verdict,
    must_reject: bool,
) -> Result<(), String> {
    st.evals(1);
    if must_reject && want != Verdict::Reject {
        return Err(format!(
            "{}: a forged statement over distinct data must be rejected, but the reference walk says {:?} (implementation: {:?})",
            what, want, got
        ));
    }
    match (want, &got) {
        (Verdict::Accept, Ok(true)) => {
            // which forged statements are (legitimately) still valid: duplicates, unaddressed cap entries, no-op rows
            let kind: Vec<&str> = what
                .split('(')
                .next()
                .unwrap_or("")
                .split(' ')
                .filter(|w| !w.is_empty() && !w.chars().all(|ch| ch.is_ascii_digit()))
                .take(6)
                .collect();
            st.label(&format!("neg:accepted_by_reference_too:{}", kind.join(" ")))
        }
        (Verdict::Reject, Ok(false)) => st.label("neg:rejected"),
        (Verdict::Malformed, Ok(false)) => st.label("neg:malformed->Err"),
        (Verdict::Malformed, Err(_)) => st.label("neg:malformed->panic"),
        _ => {
            return Err(format!(
                "{}: implementation verdict {:?} (Ok(true)=accept, Ok(false)=Err, Err=panic) but reference verdict {:?}",
                what, got, want
            ))
        }
    }
    Ok(())
}

fn impl_verify<H: Hk>(
    leaf: &[F],
    index: usize,
    cap: &MerkleCap<F, H>,
    proof: &MerkleProof<F, H>,
) -> Result<bool, String> {
    catch(|| verify_merkle_proof_to_cap::<F, H>(leaf.to_vec(), index, cap, proof)).map(|r| r.is_ok())
}

fn impl_batch_verify<H: Hk>(
    rows: &[Vec<F>],
    heights: &[usize],
    index: usize,
    cap: &MerkleCap<F, H>,
    proof: &MerkleProof<F, H>,
) -> Result<bool, String> {
    catch(|| verify_batch_merkle_proof_to_cap::<F, H>(rows, heights, index, cap, proof)).map(|r| r.is_ok())
}

// ------------------------------------------------------------------------------------------
// Sub-check tree_model
// ------------------------------------------------------------------------------------------

#[derive(Clone, Debug, Serialize, Deserialize)]
pub struct TreeCase {
    /// 0 = PoseidonHash, 1 = KeccakHash<25>
    pub hasher: u8,
    pub log_n: u8,
    pub width: u8,
    pub cap_sel: (u8, u16),
    /// leaf `i` carries the data of id `i & !dup_mask`; 0 = all leaves distinct
    pub dup_mask: u16,
    pub pool: Vec<u64>,
    pub positions: Vec<u16>,
    pub picks: Vec<u16>,
}

fn tree_case(max_log: u8) -> BoxedStrategy<TreeCase> {
    bx((
        0u8..2,
        0u8..=max_log,
        width_strat(),
        cap_sel(),
        dup_mask_strat(),
        pool_strat(),
        prop::collection::vec(any::<u16>(), 0..=3),
        prop::collection::vec(any::<u16>(), 8),
    )
        .prop_map(|(hasher, log_n, width, cap_sel, dup_mask, pool, positions, picks)| TreeCase {
            hasher,
            log_n,
            width,
            cap_sel,
            dup_mask,
            pool,
            positions,
            picks,
        }))
}

fn tree_model(c: &TreeCase, st: &mut Stats) -> Result<(), String> {
    if c.pool.is_empty() || c.picks.is_empty() || c.log_n > 16 {
        return Ok(()); // hand-edited replay outside the generator's range
    }
    dispatch!(c.hasher, tree_model_h, c, st)
}

fn tree_model_h<H: Hk>(c: &TreeCase, st: &mut Stats) -> Result<(), String> {
    let log_n = c.log_n as usize;
    let n = 1usize << log_n;
    let w = c.width as usize;
    let cap_height = cap_height_of(c.cap_sel, log_n);
    let cap_len = 1usize << cap_height;
    let depth = log_n - cap_height;
    let eff_mask = c.dup_mask as usize & (n - 1);
    let distinct = eff_mask == 0 && w >= 1;
    let leaves = matrix(&c.pool, 0, n, w, c.dup_mask);

    st.label(&format!("hasher:{}", H::NAME));
    st.label(&format!("log_n:{:02}", log_n));
    st.label(width_class::<H>(w));
    st.label(cap_class(cap_height, log_n));
    st.label(if distinct { "leaves:all_distinct" } else { "leaves:with_duplicates" });
    if n >= 4 && cap_height < log_n {
        st.nontrivial(&(c.hasher, log_n, w, cap_height, eff_mask, hash_of(&c.pool), &c.positions));
    }
    st.sample(|| json!({"sub": "tree_model", "hasher": H::NAME, "log_n": log_n, "width": w, "cap_height": cap_height, "dup_mask": eff_mask}));

    let reference = RefTree::<F, H>::build(&leaves, cap_height);
    let tree = MerkleTree::<F, H>::new(leaves.clone(), cap_height);

    // --- structure ---
    if tree.cap.0 != reference.cap() {
        return Err(format!("cap differs from level-by-level reference (n={}, cap_height={}, width={})", n, cap_height, w));
    }
    if tree.cap.len() != cap_len || tree.cap.height() != cap_height {
        return Err(format!("cap has {} entries, expected {}", tree.cap.len(), cap_len));
    }
    let flat: Vec<F> = reference.cap().iter().flat_map(|h| h.to_vec()).collect();
    if canon(&tree.cap.flatten()) != canon(&flat) {
        return Err("cap.flatten() is not the concatenation of the cap digests".into());
    }
    if !rows_eq(&tree.leaves, &leaves) {
        return Err("tree.leaves differs from the committed leaves".into());
    }
    if tree.digests.len() != 2 * (n - cap_len) {
        return Err(format!("digests.len()={} expected {}", tree.digests.len(), 2 * (n - cap_len)));
    }
    if tree.digests != reference.documented_digest_layout() {
        return Err(format!("digests differ from the documented layout of the reference tree (n={}, cap_height={})", n, cap_height));
    }

    // --- openings ---
    let positions = positions_of(&c.positions, n);
    for (pi, &i) in positions.iter().enumerate() {
        let leaf = &leaves[i];
        if canon(tree.get(i)) != canon(leaf) {
            return Err(format!("get({}) is not leaf {}", i, i));
        }
        let proof = tree.prove(i);
        if proof.len() != depth || proof.is_empty() != (depth == 0) {
            return Err(format!("prove({}) has {} siblings, expected {}", i, proof.len(), depth));
        }
        if proof.siblings != reference.siblings(i) {
            return Err(format!("prove({}) siblings differ from the reference authentication path", i));
        }
        let cap_ref: Vec<H::Hash> = reference.cap().to_vec();
        if ref_verify::<F, H>(leaf, i, &proof.siblings, &cap_ref) != Verdict::Accept {
            return Err(format!("oracle self-check: reference walk rejects the reference path of leaf {}", i));
        }
        st.evals(1);
        match impl_verify::<H>(leaf, i, &tree.cap, &proof) {
            Ok(true) => {}
            other => return Err(format!("honest opening of leaf {} not accepted: {:?}", i, other)),
        }
        if cap_height == 0 {
            st.label("verify_merkle_proof(root)");
            let root = tree.cap.0[0];
            if verify_merkle_proof::<F, H>(leaf.clone(), i, root, &proof).is_err() {
                return Err(format!("verify_merkle_proof (root form) rejects honest opening of leaf {}", i));
            }
            let bad_root = H::tweak(root, pick(&c.picks, 0, 64));
            if verify_merkle_proof::<F, H>(leaf.clone(), i, bad_root, &proof).is_ok() {
                return Err(format!("verify_merkle_proof (root form) accepts an altered root for leaf {}", i));
            }
        }

        // ----- negative catalogue -----
        let chk = |st: &mut Stats,
                   what: &str,
                   lf: &[F],
                   idx: usize,
                   cap: &MerkleCap<F, H>,
                   pr: &MerkleProof<F, H>,
                   must_reject: bool|
         -> Result<(), String> {
            let want = ref_verify::<F, H>(lf, idx, &pr.siblings, &cap.0);
            let got = impl_verify::<H>(lf, idx, cap, pr);
            judge(st, &format!("{} (leaf {} of {}, cap_height {})", what, i, n, cap_height), got, want, must_reject)
        };

        // other leaf of the same width
        if n > 1 {
            let j = other_than(i, c.picks[(pi + 1) % c.picks.len()], n);
            chk(st, &format!("other leaf {}", j), &leaves[j], i, &tree.cap, &proof, distinct)?;
            let j = i ^ 1;
            chk(st, "sibling leaf", &leaves[j], i, &tree.cap, &proof, distinct)?;
        }
        if w >= 1 {
            let forged = bump(leaf, pick(&c.picks, pi + 2, w));
            chk(st, "leaf with one element +1", &forged, i, &tree.cap, &proof, true)?;
        }
        // other position
        if n > 1 {
            let j = other_than(i, c.picks[(pi + 3) % c.picks.len()], n);
            chk(st, &format!("other index {}", j), leaf, j, &tree.cap, &proof, distinct)?;
            chk(st, "index with lowest bit flipped", leaf, i ^ 1, &tree.cap, &proof, distinct)?;
            chk(st, "index with highest bit flipped", leaf, i ^ (n >> 1), &tree.cap, &proof, distinct)?;
        }
        chk(st, "index + n (outside the tree)", leaf, i + n, &tree.cap, &proof, false)?;
        // each sibling altered
        for s in 0..depth {
            let mut p = proof.clone();
            p.siblings[s] = H::tweak(p.siblings[s], pick(&c.picks, s + pi, 64));
            chk(st, &format!("sibling {} altered", s), leaf, i, &tree.cap, &p, true)?;
        }
        // cap entries altered
        let on_path = i >> depth;
        {
            let mut capv = tree.cap.clone();
            capv.0[on_path] = H::tweak(capv.0[on_path], pick(&c.picks, 4, 64));
            chk(st, "addressed cap entry altered", leaf, i, &capv, &proof, true)?;
        }
        if cap_len > 1 {
            let others: Vec<usize> = if cap_len <= 8 {
                (0..cap_len).filter(|&k| k != on_path).collect()
            } else {
                vec![other_than(on_path, c.picks[(pi + 5) % c.picks.len()], cap_len), on_path ^ 1]
            };
            for k in others {
                let mut capv = tree.cap.clone();
                capv.0[k] = H::tweak(capv.0[k], pick(&c.picks, 6, 64));
                // An entry the opening does not address is irrelevant to it: verdicts must agree (accept).
                chk(st, &format!("unaddressed cap entry {} altered", k), leaf, i, &capv, &proof, false)?;
            }
        }
        // malformed lengths
        if depth >= 1 {
            let mut p = proof.clone();
            p.siblings.pop();
            chk(st, "last sibling dropped", leaf, i, &tree.cap, &p, false)?;
            let mut p = proof.clone();
            p.siblings.remove(0);
            chk(st, "first sibling dropped", leaf, i, &tree.cap, &p, false)?;
        }
        {
            let mut p = proof.clone();
            p.siblings.push(tree.cap.0[0]);
            chk(st, "extra sibling appended", leaf, i, &tree.cap, &p, false)?;
            let mut p = proof.clone();
            p.siblings.insert(0, tree.cap.0[on_path]);
            chk(st, "extra sibling prepended", leaf, i, &tree.cap, &p, false)?;
        }
    }
    Ok(())
}

// ------------------------------------------------------------------------------------------
// Sub-check threads
// ------------------------------------------------------------------------------------------

#[derive(Clone, Debug, Serialize, Deserialize)]
pub struct ThreadCase {
    pub hasher: u8,
    pub log_n: u8,
    pub width: u8,
    pub cap_sel: (u8, u16),
    pub pool: Vec<u64>,
    /// height of a second (shorter) matrix for the batch tree, as a fraction of cap_height..log_n
    pub second: u16,
    pub second_width: u8,
}

fn thread_case(max_log: u8) -> BoxedStrategy<ThreadCase> {
    bx((0u8..2, 0u8..=max_log, width_strat(), cap_sel(), pool_strat(), any::<u16>(), 0u8..=9).prop_map(
        |(hasher, log_n, width, cap_sel, pool, second, second_width)| ThreadCase {
            hasher,
            log_n,
            width,
            cap_sel,
            pool,
            second,
            second_width,
        },
    ))
}

const THREAD_COUNTS: [usize; 4] = [1, 2, 3, 16];
const THREAD_REPS: usize = 3;

fn threads(c: &ThreadCase, st: &mut Stats) -> Result<(), String> {
    if c.pool.is_empty() || c.log_n > 16 {
        return Ok(());
    }
    dispatch!(c.hasher, threads_h, c, st)
}

fn threads_h<H: Hk>(c: &ThreadCase, st: &mut Stats) -> Result<(), String> {
    let log_n = c.log_n as usize;
    let n = 1usize << log_n;
    let w = c.width as usize;
    let cap_height = cap_height_of(c.cap_sel, log_n);
    let leaves = matrix(&c.pool, 0, n, w, 0);
    st.label(&format!("threads:hasher:{}", H::NAME));
    st.label(&format!("threads:log_n:{:02}", log_n));
    if n >= 4 && cap_height < log_n {
        st.nontrivial(&("threads", c.hasher, log_n, w, cap_height, hash_of(&c.pool)));
    }

    let reference = RefTree::<F, H>::build(&leaves, cap_height);
    let ref_digests = reference.documented_digest_layout();
    let ref_paths: Vec<Vec<H::Hash>> = (0..n).map(|i| reference.siblings(i)).collect();

    // batch tree with a second, shorter matrix when there is room for one
    let mats: Vec<Vec<Vec<F>>> = if log_n > cap_height {
        let h1 = cap_height + frac(c.second, log_n - cap_height);
        vec![leaves.clone(), matrix(&c.pool, 1, 1 << h1, c.second_width as usize, 0)]
    } else {
        vec![leaves.clone()]
    };
    let bref = RefBatchTree::<F, H>::build(&mats, cap_height);
    let bref_digests = bref.documented_digest_layout();

    for &k in THREAD_COUNTS.iter() {
        let pool = rayon::ThreadPoolBuilder::new()
            .num_threads(k)
            .build()
            .map_err(|e| format!("cannot build rayon pool: {}", e))?;
        for rep in 0..THREAD_REPS {
            st.evals(2);
            let tree = pool.install(|| MerkleTree::<F, H>::new(leaves.clone(), cap_height));
            if tree.cap.0 != reference.cap() {
                return Err(format!("cap differs from reference with {} threads (rep {}), n={}, cap_height={}", k, rep, n, cap_height));
            }
            if tree.digests != ref_digests {
                return Err(format!("digests differ from reference with {} threads (rep {}), n={}, cap_height={}", k, rep, n, cap_height));
            }
            for i in 0..n {
                if tree.prove(i).siblings != ref_paths[i] {
                    return Err(format!("prove({}) differs with {} threads (rep {})", i, k, rep));
                }
            }
            let bt = pool.install(|| BatchMerkleTree::<F, H>::new(mats.clone(), cap_height));
            if bt.cap.0 != bref.cap() || bt.digests != bref_digests {
                return Err(format!("batch tree cap/digests differ from reference with {} threads (rep {})", k, rep));
            }
        }
    }
    Ok(())
}

// ------------------------------------------------------------------------------------------
// Sub-check batch_tree
// ------------------------------------------------------------------------------------------

#[derive(Clone, Debug, Serialize, Deserialize)]
pub struct BatchCase {
    pub hasher: u8,
    /// strictly decreasing log-heights, 1..=4 of them
    pub heights: Vec<u8>,
    pub widths: Vec<u8>,
    pub cap_sel: (u8, u16),
    pub dup_mask: u16,
    pub pool: Vec<u64>,
    pub positions: Vec<u16>,
    pub picks: Vec<u16>,
}

fn batch_case(max_log: u8) -> BoxedStrategy<BatchCase> {
    let all: Vec<u8> = (0..=max_log).collect();
    bx((
        0u8..2,
        proptest::sample::subsequence(all, 1..=4),
        prop::collection::vec(width_strat(), 4),
        cap_sel(),
        dup_mask_strat(),
        pool_strat(),
        prop::collection::vec(any::<u16>(), 0..=3),
        prop::collection::vec(any::<u16>(), 8),
    )
        .prop_map(|(hasher, mut heights, widths, cap_sel, dup_mask, pool, positions, picks)| {
            heights.reverse();
            BatchCase {
                hasher,
                heights,
                widths,
                cap_sel,
                dup_mask,
                pool,
                positions,
                picks,
            }
        }))
}

fn batch_tree(c: &BatchCase, st: &mut Stats) -> Result<(), String> {
    // Replayed / shrunk cases must still respect the constructor's documented preconditions.
    if c.heights.is_empty()
        || c.heights.len() > c.widths.len()
        || !c.heights.windows(2).all(|p| p[0] > p[1])
        || c.heights[0] > 16
        || c.pool.is_empty()
        || c.picks.is_empty()
    {
        return Ok(());
    }
    dispatch!(c.hasher, batch_tree_h, c, st)
}

fn batch_tree_h<H: Hk>(c: &BatchCase, st: &mut Stats) -> Result<(), String> {
    let heights: Vec<usize> = c.heights.iter().map(|&h| h as usize).collect();
    let m = heights.len();
    let h0 = heights[0];
    let n0 = 1usize << h0;
    let cap_height = cap_height_of(c.cap_sel, *heights.last().unwrap());
    let cap_len = 1usize << cap_height;
    let depth = h0 - cap_height;
    let widths: Vec<usize> = c.widths[..m].iter().map(|&w| w as usize).collect();
    let mats: Vec<Vec<Vec<F>>> = (0..m)
        .map(|k| matrix(&c.pool, k + 1, 1 << heights[k], widths[k], c.dup_mask))
        .collect();
    let distinct: Vec<bool> = (0..m)
        .map(|k| (c.dup_mask as usize & ((1usize << heights[k]) - 1)) == 0 && widths[k] >= 1)
        .collect();

    st.label(&format!("batch:hasher:{}", H::NAME));
    st.label(&format!("batch:matrices:{}", m));
    st.label(&format!("batch:{}", cap_class(cap_height, h0)));
    if *heights.last().unwrap() == cap_height {
        st.label("batch:last_matrix_at_cap_height");
    }
    if m >= 2 && heights[0] == heights[1] + 1 {
        st.label("batch:adjacent_heights");
    }
    if widths.iter().skip(1).any(|&w| w == 0) {
        st.label("batch:empty_rows_in_upper_matrix");
    }
    if n0 >= 4 && cap_height < h0 {
        st.nontrivial(&("batch", c.hasher, &heights, &widths, cap_height, c.dup_mask, hash_of(&c.pool), &c.positions));
    }
    st.sample(|| json!({"sub": "batch_tree", "hasher": H::NAME, "heights": heights, "widths": widths, "cap_height": cap_height}));

    let reference = RefBatchTree::<F, H>::build(&mats, cap_height);
    let tree = BatchMerkleTree::<F, H>::new(mats.clone(), cap_height);

    if tree.cap.0 != reference.cap() {
        return Err(format!("batch cap differs from reference (heights {:?}, widths {:?}, cap_height {})", heights, widths, cap_height));
    }
    if tree.cap.len() != cap_len {
        return Err(format!("batch cap has {} entries, expected {}", tree.cap.len(), cap_len));
    }
    if tree.leaf_heights != heights {
        return Err(format!("leaf_heights {:?} expected {:?}", tree.leaf_heights, heights));
    }
    if tree.leaves.len() != m || !tree.leaves.iter().zip(&mats).all(|(a, b)| rows_eq(a, b)) {
        return Err("batch tree leaves differ from the committed matrices".into());
    }
    if tree.digests.len() != 2 * (n0 - cap_len) {
        return Err(format!("batch digests.len()={} expected {}", tree.digests.len(), 2 * (n0 - cap_len)));
    }
    if tree.digests != reference.documented_digest_layout() {
        return Err(format!("batch digests differ from the reference layout (heights {:?}, cap_height {})", heights, cap_height));
    }
    if m == 1 {
        // A single matrix is an ordinary Merkle tree.
        let plain = MerkleTree::<F, H>::new(mats[0].clone(), cap_height);
        let plain_ref = RefTree::<F, H>::build(&mats[0], cap_height);
        if plain.cap != tree.cap || plain.digests != tree.digests || plain_ref.cap() != reference.cap() {
            return Err("single-matrix batch tree differs from the plain Merkle tree".into());
        }
    }

    let positions = positions_of(&c.positions, n0);
    for (pi, &i) in positions.iter().enumerate() {
        let rows = reference.opened_rows(&mats, i);
        let got_rows = tree.values(i);
        if !rows_eq(&got_rows, &rows) {
            return Err(format!("values({}) are not the rows above position {}", i, i));
        }
        let proof = tree.open_batch(i);
        if proof.siblings.len() != depth {
            return Err(format!("open_batch({}) has {} siblings, expected {}", i, proof.siblings.len(), depth));
        }
        if proof.siblings != reference.siblings(i) {
            return Err(format!("open_batch({}) siblings differ from the reference authentication path", i));
        }
        let cap_ref: Vec<H::Hash> = reference.cap().to_vec();
        if ref_batch_verify::<F, H>(&rows, &heights, i, &proof.siblings, &cap_ref) != Verdict::Accept {
            return Err(format!("oracle self-check: reference batch walk rejects the reference path of position {}", i));
        }
        st.evals(1);
        match impl_batch_verify::<H>(&rows, &heights, i, &tree.cap, &proof) {
            Ok(true) => {}
            other => return Err(format!("honest batch opening of position {} not accepted: {:?}", i, other)),
        }

        let chk = |st: &mut Stats,
                   what: &str,
                   rs: &[Vec<F>],
                   hs: &[usize],
                   idx: usize,
                   cap: &MerkleCap<F, H>,
                   pr: &MerkleProof<F, H>,
                   must_reject: bool|
         -> Result<(), String> {
            let want = ref_batch_verify::<F, H>(rs, hs, idx, &pr.siblings, &cap.0);
            let got = impl_batch_verify::<H>(rs, hs, idx, cap, pr);
            judge(
                st,
                &format!("batch {} (position {}, heights {:?}, cap_height {})", what, i, heights, cap_height),
                got,
                want,
                must_reject,
            )
        };

        // other row of the same matrix / one element altered, for every matrix
        for k in 0..m {
            let nk = 1usize << heights[k];
            let rk = i >> (h0 - heights[k]);
            if nk > 1 {
                let j = other_than(rk, c.picks[(pi + k) % c.picks.len()], nk);
                let mut rs = rows.clone();
                rs[k] = mats[k][j].clone();
                chk(st, &format!("matrix {} opened with other row {}", k, j), &rs, &heights, i, &tree.cap, &proof, distinct[k])?;
            }
            if widths[k] >= 1 {
                let mut rs = rows.clone();
                rs[k] = bump(&rows[k], pick(&c.picks, pi + k + 1, widths[k]));
                chk(st, &format!("matrix {} row with one element +1", k), &rs, &heights, i, &tree.cap, &proof, true)?;
            }
        }
        // other position
        if n0 > 1 {
            let j = other_than(i, c.picks[(pi + 3) % c.picks.len()], n0);
            chk(st, &format!("other index {}", j), &rows, &heights, j, &tree.cap, &proof, distinct[0])?;
            chk(st, "index with lowest bit flipped", &rows, &heights, i ^ 1, &tree.cap, &proof, distinct[0])?;
            chk(st, "index with highest bit flipped", &rows, &heights, i ^ (n0 >> 1), &tree.cap, &proof, distinct[0])?;
        }
        chk(st, "index + n (outside the tree)", &rows, &heights, i + n0, &tree.cap, &proof, false)?;
        for s in 0..depth {
            let mut p = proof.clone();
            p.siblings[s] = H::tweak(p.siblings[s], pick(&c.picks, s + pi, 64));
            chk(st, &format!("sibling {} altered", s), &rows, &heights, i, &tree.cap, &p, true)?;
        }
        let on_path = i >> depth;
        {
            let mut capv = tree.cap.clone();
            capv.0[on_path] = H::tweak(capv.0[on_path], pick(&c.picks, 4, 64));
            chk(st, "addressed cap entry altered", &rows, &heights, i, &capv, &proof, true)?;
        }
        if cap_len > 1 {
            let k = other_than(on_path, c.picks[(pi + 5) % c.picks.len()], cap_len);
            let mut capv = tree.cap.clone();
            capv.0[k] = H::tweak(capv.0[k], pick(&c.picks, 6, 64));
            chk(st, &format!("unaddressed cap entry {} altered", k), &rows, &heights, i, &capv, &proof, false)?;
        }
        // malformed lengths / heights: only "never accepted unless the reference accepts"
        if depth >= 1 {
            let mut p = proof.clone();
            p.siblings.pop();
            chk(st, "last sibling dropped", &rows, &heights, i, &tree.cap, &p, false)?;
            let mut p = proof.clone();
            p.siblings.remove(0);
            chk(st, "first sibling dropped", &rows, &heights, i, &tree.cap, &p, false)?;
        }
        {
            let mut p = proof.clone();
            p.siblings.push(tree.cap.0[0]);
            chk(st, "extra sibling appended", &rows, &heights, i, &tree.cap, &p, false)?;
        }
        for k in 1..m {
            let alt = pick(&c.picks, pi + k + 2, h0 + 2);
            if alt != heights[k] {
                let mut hs = heights.clone();
                hs[k] = alt;
                chk(st, &format!("claimed height of matrix {} changed to {}", k, alt), &rows, &hs, i, &tree.cap, &proof, false)?;
            }
        }
        if m >= 2 {
            // drop the last opened row together with its height: the upper matrix is then not bound
            let rs = rows[..m - 1].to_vec();
            let hs = heights[..m - 1].to_vec();
            chk(st, "last matrix omitted from the opening", &rs, &hs, i, &tree.cap, &proof, false)?;
        }
    }
    Ok(())
}

// ------------------------------------------------------------------------------------------
// Sub-check path_compression
// ------------------------------------------------------------------------------------------

#[derive(Clone, Debug, Serialize, Deserialize)]
pub struct PcCase {
    pub hasher: u8,
    pub log_n: u8,
    pub width: u8,
    pub cap_sel: (u8, u16),
    pub pool: Vec<u64>,
    /// 0 random multiset, 1 single index, 2 all indices ascending, 3 all indices permuted,
    /// 4 sibling pairs, 5 one small aligned block (same sub-tree), 6 explicit repeats,
    /// 7 all indices permuted plus repeats
    pub mode: u8,
    pub raws: Vec<u16>,
    pub picks: Vec<u16>,
}

fn pc_case(max_log: u8) -> BoxedStrategy<PcCase> {
    bx((
        0u8..2,
        prop_oneof![1 => 0u8..=2, 4 => 3u8..=max_log],
        1u8..=6,
        prop_oneof![5 => cap_sel(), 3 => (Just(0u8), any::<u16>()), 2 => Just((1u8, 0u16))],
        pool_strat(),
        prop_oneof![4 => Just(0u8), 1 => Just(1u8), 1 => Just(2u8), 1 => Just(3u8), 2 => Just(4u8), 2 => Just(5u8), 2 => Just(6u8), 1 => Just(7u8)],
        prop::collection::vec(any::<u16>(), 1..=24),
        prop::collection::vec(any::<u16>(), 4),
    )
        .prop_map(|(hasher, log_n, width, cap_sel, pool, mode, raws, picks)| PcCase {
            hasher,
            log_n,
            width,
            cap_sel,
            pool,
            mode,
            raws,
            picks,
        }))
}

fn pc_indices(c: &PcCase, n: usize) -> Vec<usize> {
    let raws = &c.raws;
    let key = |i: usize| -> (u16, usize) { (raws[i % raws.len()].wrapping_mul(40503).wrapping_add((i as u16).wrapping_mul(raws[0] | 1)), i) };
    match c.mode {
        0 => raws.iter().map(|&r| frac(r, n)).collect(),
        1 => vec![frac(raws[0], n)],
        2 => (0..n).collect(),
        3 => {
            let mut v: Vec<usize> = (0..n).collect();
            v.sort_by_key(|&i| key(i));
            v
        }
        4 => raws.iter().flat_map(|&r| [frac(r, n), frac(r, n) ^ (if n > 1 { 1 } else { 0 })]).collect(),
        5 => {
            let blk = n.min(8);
            let base = frac(raws[0], n) & !(blk - 1);
            raws.iter().map(|&r| base + frac(r, blk)).collect()
        }
        6 => {
            let mut v: Vec<usize> = raws.iter().flat_map(|&r| [frac(r, n), frac(r, n)]).collect();
            v.push(frac(raws[0], n));
            v
        }
        _ => {
            let mut v: Vec<usize> = (0..n).collect();
            v.sort_by_key(|&i| key(i));
            v.extend(raws.iter().map(|&r| frac(r, n)));
            v
        }
    }
}

fn path_compression(c: &PcCase, st: &mut Stats) -> Result<(), String> {
    if c.raws.is_empty() || c.picks.is_empty() || c.pool.is_empty() || c.log_n > 16 {
        return Ok(());
    }
    dispatch!(c.hasher, path_compression_h, c, st)
}

fn path_compression_h<H: Hk>(c: &PcCase, st: &mut Stats) -> Result<(), String> {
    let log_n = c.log_n as usize;
    let n = 1usize << log_n;
    let w = c.width as usize;
    let cap_height = cap_height_of(c.cap_sel, log_n);
    let depth = log_n - cap_height;
    let leaves = matrix(&c.pool, 0, n, w, 0);
    let indices = pc_indices(c, n);
    let mut sorted = indices.clone();
    sorted.sort_unstable();
    sorted.dedup();
    let has_repeats = sorted.len() < indices.len();
    let full = sorted.len() == n;

    st.label(&format!("pc:hasher:{}", H::NAME));
    st.label(&format!("pc:mode:{}", c.mode));
    st.label(if has_repeats { "pc:indices_with_repeats" } else { "pc:indices_distinct" });
    if full {
        st.label("pc:all_leaves_opened");
    }
    if n >= 4 && cap_height < log_n {
        st.nontrivial(&("pc", c.hasher, log_n, cap_height, &indices, hash_of(&c.pool)));
    }
    st.sample(|| json!({"sub": "path_compression", "hasher": H::NAME, "log_n": log_n, "cap_height": cap_height, "indices": indices.iter().take(16).collect::<Vec<_>>()}));

    let reference = RefTree::<F, H>::build(&leaves, cap_height);
    let tree = MerkleTree::<F, H>::new(leaves.clone(), cap_height);
    let proofs: Vec<MerkleProof<F, H>> = indices.iter().map(|&i| tree.prove(i)).collect();
    let paths: Vec<Vec<H::Hash>> = indices.iter().map(|&i| reference.siblings(i)).collect();
    for (p, r) in proofs.iter().zip(&paths) {
        if &p.siblings != r {
            return Err("prove() differs from the reference path".into());
        }
    }
    let data: Vec<Vec<F>> = indices.iter().map(|&i| leaves[i].clone()).collect();

    st.evals(2);
    let compressed = compress_merkle_proofs::<F, H>(cap_height, &indices, &proofs);
    if compressed.len() != proofs.len() {
        return Err(format!("compress returned {} proofs for {} openings", compressed.len(), proofs.len()));
    }
    let total: usize = compressed.iter().map(|p| p.siblings.len()).sum();
    let original: usize = proofs.iter().map(|p| p.siblings.len()).sum();
    if total > original {
        return Err(format!("compressed form has {} siblings, more than the original {}", total, original));
    }
    let distinct_total: usize = sorted.len() * depth;
    if total > distinct_total {
        return Err(format!("compressed form has {} siblings, more than the {} of the distinct openings", total, distinct_total));
    }
    if full && !has_repeats && n >= 4 && depth >= 1 && total >= original {
        return Err(format!("opening all {} leaves is not compressed at all ({} siblings)", n, total));
    }
    let want_total = ref_compressed_total(log_n, cap_height, &indices);
    if total != want_total {
        return Err(format!("compressed form has {} siblings, the minimal multi-opening has {} (indices {:?})", total, want_total, indices));
    }
    let want = ref_compress(log_n, cap_height, &indices, &paths);
    for (k, (cp, wp)) in compressed.iter().zip(&want).enumerate() {
        if &cp.siblings != wp {
            return Err(format!("compressed proof {} (index {}) differs from the reference compressed form", k, indices[k]));
        }
    }
    if total == 0 {
        st.label("pc:fully_compressed(0 siblings)");
    }

    let decompressed = decompress_merkle_proofs::<F, H>(&data, &indices, &compressed, log_n, cap_height);
    if decompressed != proofs {
        return Err(format!("decompress(compress(proofs)) != proofs (n={}, cap_height={}, indices {:?})", n, cap_height, indices));
    }
    for (k, p) in decompressed.iter().enumerate() {
        if impl_verify::<H>(&data[k], indices[k], &tree.cap, p) != Ok(true) {
            return Err(format!("decompressed proof {} does not verify", k));
        }
    }

    // Tampering with the compressed form must surface after decompression.
    if total > 0 {
        let which = pick(&c.picks, 0, total);
        let mut bad = compressed.clone();
        let mut seen = 0usize;
        'outer: for p in bad.iter_mut() {
            for s in p.siblings.iter_mut() {
                if seen == which {
                    *s = H::tweak(*s, pick(&c.picks, 1, 64));
                    break 'outer;
                }
                seen += 1;
            }
        }
        st.evals(1);
        let dec = catch(|| decompress_merkle_proofs::<F, H>(&data, &indices, &bad, log_n, cap_height));
        if let Ok(dec) = dec {
            let all_ok = dec.len() == indices.len()
                && dec
                    .iter()
                    .enumerate()
                    .all(|(k, p)| impl_verify::<H>(&data[k], indices[k], &tree.cap, p) == Ok(true));
            if all_ok {
                return Err(format!("altered compressed sibling {} goes unnoticed after decompression (indices {:?})", which, indices));
            }
            st.label("pc:tampered_sibling_detected");
        }
    }
    {
        // A forged leaf value (distinct data) must not verify after decompression either.
        let k = pick(&c.picks, 2, indices.len());
        let mut bad_data = data.clone();
        bad_data[k] = bump(&data[k], pick(&c.picks, 3, w));
        st.evals(1);
        let dec = catch(|| decompress_merkle_proofs::<F, H>(&bad_data, &indices, &compressed, log_n, cap_height));
        if let Ok(dec) = dec {
            let all_ok = dec.len() == indices.len()
                && dec
                    .iter()
                    .enumerate()
                    .all(|(j, p)| impl_verify::<H>(&bad_data[j], indices[j], &tree.cap, p) == Ok(true));
            if all_ok {
                return Err(format!("forged leaf value at opening {} goes unnoticed after decompression (indices {:?})", k, indices));
            }
            st.label("pc:forged_leaf_detected");
        }
    }
    Ok(())
}

// ------------------------------------------------------------------------------------------
// Driver
// ------------------------------------------------------------------------------------------

pub fn run(ctx: &mut Ctx) {
    ctx.rule = "trees generated from (hasher in {Poseidon, Keccak<25>}, log n, leaf width 0..=12 (rarely up to 40), cap height \
                0..=log n biased to root / subtrees-of-2 / cap-at-leaves, a pool of boundary-biased canonical field elements \
                from which leaf i is derived with element 0 = pool[0]+id(i), duplicate mask); non-trivial = n >= 4 and \
                cap_height < log n (every negative verdict over all-distinct leaves is additionally required to be a \
                rejection); distinct = distinct (hasher, log n, width, cap height, duplicate mask, pool, positions / \
                heights / index multiset) tuple"
        .into();
    ctx.assumptions.push("hash_or_noop / two_to_one / Hash::to_vec are taken from the library (judged by C13) and assumed collision-free on the generated data".into());
    ctx.assumptions.push("MerkleTree::new / BatchMerkleTree::new are called only within their asserted preconditions (power-of-two sizes, strictly decreasing heights, cap_height <= smallest height)".into());
    ctx.assumptions.push("statements the reference calls malformed (cap entry addressed outside the cap, opened rows not consumed) only have to be 'not accepted' (Err or panic)".into());
    ctx.assumptions.push("scheduling is varied through rayon pool sizes 1/2/3/16 and repetition only".into());

    let thorough = ctx.tier == crate::engine::Tier::Thorough;
    let max_log: u8 = if thorough { 12 } else { 9 };
    let max_log_small: u8 = if thorough { 11 } else { 9 };

    let cases = ctx.tier.pick(10_000, 200_000);
    ctx.run_sub("tree_model", cases, 16, || tree_case(max_log), tree_model);
    let cases = ctx.tier.pick(6_000, 100_000);
    ctx.run_sub("batch_tree", cases, 16, || batch_case(max_log_small), batch_tree);
    let cases = ctx.tier.pick(8_000, 150_000);
    ctx.run_sub("path_compression", cases, 16, || pc_case(if thorough { 10 } else { 8 }), path_compression);
    let cases = ctx.tier.pick(250, 4_000);
    ctx.run_sub("threads", cases, 8, || thread_case(if thorough { 11 } else { 10 }), threads);
}
