//! C12 — Merkle commitments (see DESIGN.md §C12).

use crate::engine::Ctx;

pub fn run(ctx: &mut Ctx) {
    let _ = ctx;
}
