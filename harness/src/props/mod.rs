use crate::engine::Ctx;

pub mod c14;

/// Dispatch table: property id -> runner.
pub fn run(ctx: &mut Ctx) -> bool {
    match ctx.id.as_str() {
        "C14" => c14::run(ctx),
        _ => return false,
    }
    true
}
