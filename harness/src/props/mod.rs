use crate::engine::Ctx;

pub mod c12;
pub mod c13;
pub mod c14;
pub mod c15;

/// Dispatch table: property id -> runner.
pub fn run(ctx: &mut Ctx) -> bool {
    match ctx.id.as_str() {
        "C12" => c12::run(ctx),
        "C13" => c13::run(ctx),
        "C14" => c14::run(ctx),
        "C15" => c15::run(ctx),
        _ => return false,
    }
    true
}
