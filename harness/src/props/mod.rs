use crate::engine::Ctx;

pub mod c01;
pub mod c02;
pub mod c03;
pub mod c04;
#[cfg(not(pv_core))]
pub mod c05;
#[cfg(not(pv_core))]
pub mod c07;
pub mod c06;
pub mod c08;
pub mod c09;
pub mod c16;
pub mod c17;
pub mod c18;
pub mod c19;
pub mod c20;
pub mod common;
#[cfg(not(pv_core))]
#[cfg(not(pv_core))]
pub mod c10;
#[cfg(not(pv_core))]
pub mod c11;
#[cfg(not(pv_core))]
pub mod c12;
#[cfg(not(pv_core))]
pub mod c13;
#[cfg(not(pv_core))]
pub mod c14;
#[cfg(not(pv_core))]
pub mod c15;

/// Dispatch table: property id -> runner.
pub fn run(ctx: &mut Ctx) -> bool {
    match ctx.id.as_str() {
        "C01" => c01::run(ctx),
        "C02" => c02::run(ctx),
        "C03" => c03::run(ctx),
        "C04" => c04::run(ctx),
        #[cfg(not(pv_core))]
        "C05" => c05::run(ctx),
        #[cfg(not(pv_core))]
        "C07" => c07::run(ctx),
        "C06" => c06::run(ctx),
        "C08" => c08::run(ctx),
        "C09" => c09::run(ctx),
        "C16" => c16::run(ctx),
        "C17" => c17::run(ctx),
        "C18" => c18::run(ctx),
        #[cfg(not(pv_core))]
        "C10" => c10::run(ctx),
        #[cfg(not(pv_core))]
        "C11" => c11::run(ctx),
        #[cfg(not(pv_core))]
        "C12" => c12::run(ctx),
        #[cfg(not(pv_core))]
        "C13" => c13::run(ctx),
        #[cfg(not(pv_core))]
        "C14" => c14::run(ctx),
        #[cfg(not(pv_core))]
        "C15" => c15::run(ctx),
        "C19" => c19::run(ctx),
        "C20" => c20::run(ctx),
        _ => return false,
    }
    true
}
