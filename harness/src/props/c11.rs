//! C11 — in-circuit STARK verifier agrees with native (see DESIGN.md §C11).

use crate::engine::Ctx;

pub fn run(ctx: &mut Ctx) {
    let _ = ctx;
}
