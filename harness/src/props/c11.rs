//! C11 — the in-circuit STARK verifier agrees with the native STARK verifier (DESIGN.md §C11).
//!
//! Differential and exact: for one generated STARK definition + `StarkConfig` an outer plonky2
//! circuit embedding `verify_stark_proof_circuit` is built once (fixed-degree mode, or the mode in
//! which one circuit sized for a maximum trace length verifies every supported shorter length) and
//! then fed many proofs: honest ones, value-edited ones (every component class), wrong public
//! inputs, proofs the real prover emitted for violating traces, proofs of another trace length,
//! proofs whose transcript lacks the padding the circuit expects, a wrong `degree_bits`
//! assignment and proofs with an overridden proof-of-work witness.
//!
//! native  := `verify_stark_proof(stark, proof, config, verifier_params).is_ok()`
//!            ∧ the proof's length is the one the circuit was told ∧ that length is supported
//! circuit := `set_stark_proof_with_pis_target` ∧ `generate_partial_witness` succeed
//!            ∧ O-sat finds no violated gate row / copy class on the full outer witness
//! and `native == circuit` is required. When the library's witness generation stops at a copy
//! conflict, a conflict-tolerant re-run (first value wins) yields a full witness; O-sat must then
//! name a violated row (a clean report would mean the outer circuit is satisfiable for a proof
//! the native verifier rejects), and on a sample the real outer prover is run on that witness and
//! its proof must not verify.

use std::collections::BTreeMap;
use std::sync::Arc;

use plonky2::field::types::Field;
use plonky2::fri::reduction_strategies::FriReductionStrategy;
use plonky2::fri::{FriConfig, FriParams};
use plonky2::gates::gate::GateInstance;
use plonky2::hash::hash_types::HashOut;
use plonky2::iop::generator::{generate_partial_witness, GeneratedValues};
use plonky2::iop::target::Target;
use plonky2::iop::witness::{PartialWitness, PartitionWitness, WitnessWrite};
use plonky2::plonk::circuit_builder::CircuitBuilder;
use plonky2::plonk::circuit_data::{CircuitConfig, CircuitData, CommonCircuitData, ProverOnlyCircuitData};
use plonky2::iop::challenger::Challenger;
use plonky2::plonk::config::{GenericConfig, Hasher};
use plonky2::plonk::prover::prove_with_partition_witness;
use plonky2::util::timing::TimingTree;
use plonky2::verif_hooks::{reset_knobs, set_knobs, take_gate_instances, Knobs};
use proptest::prelude::*;
use serde::{Deserialize, Serialize};
use serde_json::{json, Value};
use starky::config::StarkConfig;
use starky::proof::{StarkProofWithPublicInputs, StarkProofWithPublicInputsTarget};
use starky::prover::{prove, prove_with_commitment};
use plonky2::fri::oracle::PolynomialBatch;
use plonky2::fri::prover::final_poly_coeff_len;
use starky::recursive_verifier::{add_virtual_stark_proof_with_pis, set_stark_proof_with_pis_target, verify_stark_proof_circuit};
use starky::verifier::verify_stark_proof;

use crate::circuit::PC;
use crate::engine::{bx, catch, frac, hash_of, Ctx, Stats};
use crate::gen::dsl::{D, F};
use crate::gen::field::P;
use crate::gen::mutate::*;
use crate::gen::stark::*;
use crate::oracle::sat;
use crate::props::common::frac32;
use crate::with_stark_shape;

type Proof = StarkProofWithPublicInputs<F, PC, D>;

// ------------------------------------------------------------------------------------------
// case
// ------------------------------------------------------------------------------------------

#[derive(Clone, Debug, Serialize, Deserialize, PartialEq, Eq, Hash)]
pub struct RawMulti {
    /// multi-degree mode (one circuit for a maximum length) or fixed-degree mode
    pub on: bool,
    pub a: u16,
    pub f: u16,
    pub r: u16,
    /// cap height above the minimal admissible one
    pub extra: u16,
    /// which maximum `degree_bits` of the admissible progression
    pub k: u16,
}

#[derive(Clone, Debug, Serialize, Deserialize, PartialEq, Eq, Hash)]
pub struct RawCopy {
    pub shifted: bool,
    pub filter: u8,
    pub fcol: u16,
}

#[derive(Clone, Debug, Serialize, Deserialize, PartialEq, Eq, Hash)]
pub struct RawLookup {
    pub terms: Vec<(u16, i8)>,
    pub constant: i8,
    pub copies: Vec<RawCopy>,
}

#[derive(Clone, Debug, Serialize, Deserialize, PartialEq, Eq, Hash)]
pub struct RawProof {
    pub kind: u8,
    /// which (supported / other) trace length
    pub len: u16,
    /// which wrong `degree_bits` value
    pub told: u16,
    /// component class, position in the class, edit kind, value
    pub cls: u16,
    pub pos: u32,
    pub ekind: u8,
    pub val: u64,
    /// trace corruption (violating-trace proofs)
    pub row_class: u8,
    pub row: u32,
    pub col: u16,
    /// < SAMPLE_OUTER: also run the outer prover on the rejected witness
    pub sample: u8,
}

#[derive(Clone, Debug, Serialize, Deserialize)]
pub struct Case {
    pub stark: RawStark,
    pub lookups: Vec<RawLookup>,
    pub multi: RawMulti,
    pub proofs: Vec<RawProof>,
}

/// ~5 % of the natively rejected, assignable proofs also go through the real outer prover.
const SAMPLE_OUTER: u8 = 13;
/// largest maximum `degree_bits` of a multi-degree circuit
const MAX_M: usize = 8;

fn raw_multi() -> BoxedStrategy<RawMulti> {
    bx((any::<bool>(), any::<u16>(), any::<u16>(), any::<u16>(), any::<u16>(), any::<u16>())
        .prop_map(|(on, a, f, r, extra, k)| RawMulti { on, a, f, r, extra, k }))
}

fn raw_lookup() -> BoxedStrategy<RawLookup> {
    let copy = (any::<bool>(), any::<u8>(), any::<u16>()).prop_map(|(shifted, filter, fcol)| RawCopy { shifted, filter, fcol });
    bx((
        prop::collection::vec((any::<u16>(), prop_oneof![Just(1i8), Just(-1i8), -3i8..=3i8]), 1..=2),
        -2i8..=2i8,
        prop::collection::vec(copy, 1..=4),
    )
        .prop_map(|(terms, constant, copies)| RawLookup { terms, constant, copies }))
}

fn raw_proof() -> BoxedStrategy<RawProof> {
    bx((
        (any::<u8>(), any::<u16>(), any::<u16>(), any::<u16>(), any::<u32>(), any::<u8>()),
        (crate::gen::field::canonical(), any::<u8>(), any::<u32>(), any::<u16>(), any::<u8>()),
    )
        .prop_map(|((kind, len, told, cls, pos, ekind), (val, row_class, row, col, sample))| RawProof {
            kind,
            len,
            told,
            cls,
            pos,
            ekind,
            val,
            row_class,
            row,
            col,
            sample,
        }))
}

fn case(n_proofs: usize) -> BoxedStrategy<Case> {
    let lookups = prop_oneof![
        3 => Just(vec![]).boxed(),
        2 => prop::collection::vec(raw_lookup(), 1..=1).boxed(),
        1 => prop::collection::vec(raw_lookup(), 2..=2).boxed(),
    ];
    bx((raw_stark(), lookups, raw_multi(), prop::collection::vec(raw_proof(), n_proofs..=n_proofs))
        .prop_map(|(stark, lookups, multi, proofs)| Case { stark, lookups, multi, proofs }))
}

fn limits(lookups: bool) -> StarkLimits {
    StarkLimits {
        min_log_n: 2,
        max_log_n: 6,
        min_queries: 1,
        max_queries: 6,
        max_pow: 4,
        // the library's lookup argument batches `constraint_degree - 1` columns and supports batches of 1 or 2 only
        min_degree: if lookups { 2 } else { 1 },
        max_degree: if lookups { 3 } else { 9 },
    }
}

// ------------------------------------------------------------------------------------------
// elaboration: lookups, multi-degree configuration
// ------------------------------------------------------------------------------------------

/// Lookups that hold for *every* trace: each looking column is the table column itself or the table
/// column one row ahead (cyclically — the same multiset), optionally filtered by a 0/1 column, and the
/// frequencies column counts the copies. Table and frequencies use current-row cells only (the
/// library's constraints evaluate them without the next row).
fn elaborate_lookups(raws: &[RawLookup], cols: usize, roles: &[&'static str]) -> Vec<LookupDef> {
    let bools: Vec<usize> = (0..cols).filter(|&j| roles[j] == "bool").collect();
    let const_col = |k: i64| ColDef {
        lin: vec![(0, 0)],
        next_lin: vec![],
        constant: k,
    };
    raws.iter()
        .map(|r| {
            let mut lin: Vec<(usize, i64)> = vec![];
            for &(c, k) in &r.terms {
                let c = frac(c, cols);
                let k = if k == 0 { 1 } else { k as i64 };
                match lin.iter_mut().find(|e| e.0 == c) {
                    Some(e) => {
                        e.1 += k;
                        if e.1 == 0 {
                            e.1 = 1;
                        }
                    }
                    None => lin.push((c, k)),
                }
            }
            let table = ColDef {
                lin: lin.clone(),
                next_lin: vec![],
                constant: r.constant as i64,
            };
            let shifted = ColDef {
                lin: vec![],
                next_lin: lin.clone(),
                constant: r.constant as i64,
            };
            let mut columns = vec![];
            let mut filters = vec![];
            let mut freq_const = 0i64;
            let mut freq_lin: Vec<(usize, i64)> = vec![];
            for cp in &r.copies {
                columns.push(if cp.shifted { shifted.clone() } else { table.clone() });
                match cp.filter % 3 {
                    1 if !bools.is_empty() => {
                        let b = bools[frac(cp.fcol, bools.len())];
                        filters.push(Some(if cp.shifted {
                            ColDef {
                                lin: vec![],
                                next_lin: vec![(b, 1)],
                                constant: 0,
                            }
                        } else {
                            ColDef::single(b)
                        }));
                        match freq_lin.iter_mut().find(|e| e.0 == b) {
                            Some(e) => e.1 += 1,
                            None => freq_lin.push((b, 1)),
                        }
                    }
                    2 => {
                        filters.push(Some(const_col(1)));
                        freq_const += 1;
                    }
                    _ => {
                        filters.push(None);
                        freq_const += 1;
                    }
                }
            }
            let freq = if freq_lin.is_empty() {
                const_col(freq_const)
            } else {
                ColDef {
                    lin: freq_lin,
                    next_lin: vec![],
                    constant: freq_const,
                }
            };
            LookupDef { columns, table, freq, filters }
        })
        .collect()
}

#[derive(Clone, Debug)]
struct Mode {
    multi: bool,
    config: StarkConfig,
    /// the circuit's (maximum) `degree_bits`
    max_bits: usize,
    min_bits: Option<usize>,
    /// trace lengths the circuit supports
    supported: Vec<usize>,
    /// other lengths for which the prover's own preconditions hold (fixed mode: "wrong length" proofs)
    others: Vec<usize>,
    verifier_params: Option<FriParams>,
    labels: Vec<String>,
}

fn min_rate_bits(degree: usize) -> usize {
    match degree {
        0..=3 => 1,
        4..=5 => 2,
        _ => 3,
    }
}

/// Is a trace of 2^m rows provable under `config` (the prover's asserts and the Merkle cap fit)?
fn length_admissible(config: &StarkConfig, m: usize) -> bool {
    let fc = &config.fri_config;
    if m + fc.rate_bits < fc.cap_height {
        return false;
    }
    // ConstantArityBits panics inside `reduction_arity_bits` for some (degree, arity) pairs: simulate it
    if let FriReductionStrategy::ConstantArityBits(a, f) = fc.reduction_strategy {
        let mut d = m;
        while d > f {
            if d + fc.rate_bits < a {
                return false; // the library's subtraction would underflow
            }
            if d + fc.rate_bits - a < fc.cap_height {
                break;
            }
            if d < a {
                return false;
            }
            d -= a;
        }
    }
    let p = config.fri_params(m);
    p.total_arities() + fc.cap_height <= m + fc.rate_bits && p.total_arities() <= m
}

/// Multi-degree family (derived from `starky::prover::prove`, `fri::prover`, `set_fri_proof_target`,
/// `verify_fri_proof_with_multiple_degree_bits` and `reduction_arity_bits`):
///  * strategy `ConstantArityBits(a, f)`; the circuit's final polynomial must have `2^(f+1)` coefficients,
///    i.e. the reduction loop for the maximum M must stop at `f+1` through its cap-height condition:
///    `f+1+r-a < cap <= f+1+r` and `M ≡ f+1 (mod a)`, `M >= f+1`;
///  * a shorter proof is assignable iff its final polynomial is not longer than the circuit's and it has
///    no more reduction steps; with `cap = f+2+r-a` that holds for every length, with a larger cap only
///    for some residues — the supported set is computed from `fri_params` directly;
///  * `min_degree_bits_to_support + r > cap` (asserted by the circuit);
///  * the strategy's own `assert!(degree_bits >= arity_bits)` / subtraction need `f >= a-2`, `f+1+r >= a`.
fn elaborate_mode(case: &Case, el: &ElabStark) -> Mode {
    if !case.multi.on {
        let config = el.config.clone();
        let others: Vec<usize> = (2..=7usize).filter(|&m| m != el.log_n && length_admissible(&config, m)).collect();
        return Mode {
            multi: false,
            config,
            max_bits: el.log_n,
            min_bits: None,
            supported: vec![el.log_n],
            others,
            verifier_params: None,
            labels: vec!["mode:fixed".into()],
        };
    }
    let rm = &case.multi;
    let a = 1 + frac(rm.a, 4);
    let r = (1 + frac(rm.r, 3)).max(min_rate_bits(el.def.degree));
    let f_lo = a.saturating_sub(2);
    let f_hi = 2 + a - r.min(2 + a); // cap_base = f+2+r-a <= 4
    let f_hi = f_hi.max(f_lo);
    let f = f_lo + frac(rm.f, f_hi - f_lo + 1);
    let cap_base = f + 2 + r - a;
    // three out of four cases use the minimal cap (every length supported)
    let extra_max = (a - 1).min(4usize.saturating_sub(cap_base));
    let extra = if rm.extra % 4 == 3 { frac(rm.extra, extra_max + 1) } else { 0 };
    let cap = cap_base + extra;
    let min_bits = (cap + 1).saturating_sub(r).max(2);
    let mut ms: Vec<usize> = (0..).map(|k| f + 1 + a * k).take_while(|&m| m <= MAX_M).filter(|&m| m >= min_bits).collect();
    if ms.is_empty() {
        ms.push(f + 1 + a * (min_bits.saturating_sub(f + 1)).div_ceil(a));
    }
    // biased towards the longer maxima (more shorter lengths to verify with one circuit)
    let max_bits = ms[((frac(rm.k, ms.len() * ms.len()) as f64).sqrt() as usize).min(ms.len() - 1)];
    let fc0 = &el.config.fri_config;
    let fri_config = FriConfig {
        rate_bits: r,
        cap_height: cap,
        proof_of_work_bits: fc0.proof_of_work_bits,
        reduction_strategy: FriReductionStrategy::ConstantArityBits(a, f),
        num_query_rounds: fc0.num_query_rounds,
    };
    let security_bits = (fc0.num_query_rounds * r + fc0.proof_of_work_bits as usize).min(100);
    let config = StarkConfig::new(security_bits, el.config.num_challenges, fri_config);
    let vp = config.fri_params(max_bits);
    let supported: Vec<usize> = (min_bits..=max_bits)
        .filter(|&m| {
            length_admissible(&config, m) && {
                let p = config.fri_params(m);
                p.final_poly_bits() <= f + 1 && p.reduction_arity_bits.len() <= vp.reduction_arity_bits.len()
            }
        })
        .collect();
    Mode {
        multi: true,
        labels: vec![
            "mode:multi".into(),
            format!("multi:arity{}", a),
            format!("multi:max{}", max_bits),
            format!("multi:steps{}", vp.reduction_arity_bits.len()),
            format!("multi:supported{}", supported.len()),
            format!("multi:cap_extra{}", extra),
            format!("rate{}", r),
            format!("cap{}", cap),
        ],
        config,
        max_bits,
        min_bits: Some(min_bits),
        supported,
        others: vec![],
        verifier_params: Some(vp),
    }
}

// ------------------------------------------------------------------------------------------
// outer circuit, witness generation, O-sat
// ------------------------------------------------------------------------------------------

struct Outer {
    data: CircuitData<F, PC, D>,
    instances: Vec<GateInstance<F, D>>,
    pt: StarkProofWithPublicInputsTarget<D>,
    zero: Target,
    pih: HashOut<F>,
}

fn build_outer<const COLS: usize, const PIS: usize>(stark: &GenStark<COLS, PIS>, mode: &Mode) -> Result<Outer, String> {
    catch(|| {
        let mut builder = CircuitBuilder::<F, D>::new(CircuitConfig::standard_recursion_config());
        let zero = builder.zero();
        let pt = add_virtual_stark_proof_with_pis(&mut builder, stark, &mode.config, mode.max_bits, 0, 0);
        verify_stark_proof_circuit::<F, PC, GenStark<COLS, PIS>, D>(&mut builder, stark.clone(), pt.clone(), &mode.config, mode.min_bits);
        let data = builder.build::<PC>();
        // recorded by `build` on this thread
        let instances = take_gate_instances::<F, D>().expect("gate-instance recorder");
        let pih = <<PC as GenericConfig<D>>::InnerHasher as Hasher<F>>::hash_no_pad(&[]);
        Outer { data, instances, pt, zero, pih }
    })
}

fn sat_report(outer: &Outer, pw: &PartitionWitness<F>) -> sat::SatReport {
    let copy = PartitionWitness {
        values: pw.values.clone(),
        representative_map: pw.representative_map,
        num_wires: pw.num_wires,
        degree: pw.degree,
    };
    let matrix = copy.full_witness();
    let common = &outer.data.common;
    sat::check(
        &outer.instances,
        &matrix,
        &outer.pih,
        &outer.data.prover_only.representative_map,
        common.config.num_wires,
        common.config.num_routed_wires,
    )
}

/// The library's generation loop, except that a value conflicting with an already populated copy
/// class is dropped (first value wins) and a panicking generator is retired. Returns the witness
/// and (conflicts, generator panics). Inputs are applied in target order (not hash-map order).
fn forgiving_witness<'a>(
    inputs: &PartialWitness<F>,
    po: &'a ProverOnlyCircuitData<F, PC, D>,
    common: &'a CommonCircuitData<F, D>,
) -> (PartitionWitness<'a, F>, usize, usize) {
    let num_wires = common.config.num_wires;
    let degree = common.degree();
    let mut witness = PartitionWitness::new(num_wires, degree, &po.representative_map);
    let mut conflicts = 0usize;
    let mut panics = 0usize;
    let mut ins: Vec<(usize, Target, F)> = inputs.target_values.iter().map(|(&t, &v)| (t.index(num_wires, degree), t, v)).collect();
    ins.sort_by_key(|e| e.0);
    for (_, t, v) in ins {
        if witness.set_target(t, v).is_err() {
            conflicts += 1;
        }
    }
    let generators = &po.generators;
    let mut pending: Vec<usize> = (0..generators.len()).collect();
    let mut expired = vec![false; generators.len()];
    let mut buffer = GeneratedValues::empty();
    while !pending.is_empty() {
        let mut next = Vec::new();
        for &gi in &pending {
            if expired[gi] {
                continue;
            }
            let finished = match catch(|| generators[gi].0.run(&witness, &mut buffer)) {
                Ok(f) => f,
                Err(_) => {
                    panics += 1;
                    buffer.target_values.clear();
                    true
                }
            };
            if finished {
                expired[gi] = true;
            }
            let mut new_reps = Vec::with_capacity(buffer.target_values.len());
            for (t, v) in buffer.target_values.drain(..) {
                match witness.set_target_returning_rep(t, v) {
                    Ok(reps) => new_reps.extend(reps),
                    Err(_) => conflicts += 1,
                }
            }
            for rep in new_reps {
                if let Some(ws) = po.generator_indices_by_watches.get(&rep) {
                    for &w in ws {
                        if !expired[w] {
                            next.push(w);
                        }
                    }
                }
            }
        }
        pending = next;
    }
    (witness, conflicts, panics)
}

/// Run the real outer prover on a witness the oracle judged violating; Err iff its proof verifies.
fn outer_attempt(outer: &Outer, pw: PartitionWitness<F>, st: &mut Stats) -> Result<&'static str, String> {
    let data = &outer.data;
    let res = catch(|| prove_with_partition_witness(&data.prover_only, &data.common, pw, &mut TimingTree::default()));
    st.evals(1);
    match res {
        Err(_) => Ok("outer_prover_panicked"),
        Ok(Err(_)) => Ok("outer_prover_err"),
        Ok(Ok(proof)) => {
            if catch(|| data.verify(proof)).map(|r| r.is_ok()).unwrap_or(false) {
                return Err("the OUTER proof built from a violating witness VERIFIES".into());
            }
            Ok("outer_proof_rejected")
        }
    }
}

// ------------------------------------------------------------------------------------------
// the property
// ------------------------------------------------------------------------------------------

struct Honest {
    proof: Proof,
    tree: Value,
    leaves: Vec<Path>,
    /// (class, indices into `leaves`), sorted by class name
    classes: Vec<(String, Vec<usize>)>,
    trace: Vec<Vec<F>>,
    pis: Vec<F>,
}

fn short_class(c: &str) -> String {
    c.replace("proof.opening_proof.", "fri.").replace("proof.openings.", "openings.").replace("proof.", "").replace("query_round_proofs[]", "q[]")
}

struct Run<'a, const COLS: usize, const PIS: usize> {
    case: &'a Case,
    lim: StarkLimits,
    stark: GenStark<COLS, PIS>,
    mode: Mode,
    outer: Outer,
    honest: BTreeMap<(usize, bool), Option<Honest>>,
    outer_honest_budget: usize,
    proved_lengths: Vec<usize>,
}

impl<'a, const COLS: usize, const PIS: usize> Run<'a, COLS, PIS> {
    fn prove_trace(&self, trace: &[Vec<F>], pis: &[F], padded: bool, knobs: Knobs) -> Result<anyhow::Result<Proof>, String> {
        let cols = trace_columns(trace, COLS);
        let vp = if padded { self.mode.verifier_params.clone() } else { None };
        set_knobs(knobs);
        let r = catch(|| prove::<F, PC, GenStark<COLS, PIS>, D>(self.stark.clone(), &self.mode.config, cols, pis, vp, &mut TimingTree::default()));
        reset_knobs();
        r
    }

    /// Adversarial prover for the fixed-length mode: a satisfying trace of 2^(max_bits - k) rows is committed at rate
    /// `rate_bits + k`, so every oracle has exactly the LDE size, Merkle path lengths, reduction layers and (zero-padded)
    /// final polynomial of a proof of 2^max_bits rows; the transcript observes the circuit's configuration. Only public
    /// functions of the library are used (`PolynomialBatch::from_values`, `prove_with_commitment`).
    fn prove_short_at_higher_rate(&self, trace: &[Vec<F>], pis: &[F], k: usize, m: usize) -> Result<anyhow::Result<Proof>, String> {
        let cfg = &self.mode.config;
        // the FRI shape of an honest proof of 2^m rows (in the multi-degree mode: padded to the circuit's shape)
        let shape = cfg.fri_params(m);
        let mut cfg2 = cfg.clone();
        cfg2.fri_config.rate_bits += k;
        cfg2.fri_config.reduction_strategy = FriReductionStrategy::Fixed(shape.reduction_arity_bits.clone());
        let cols = trace_columns(trace, COLS);
        let (final_len, steps) = match &self.mode.verifier_params {
            Some(vp) => (final_poly_coeff_len(vp.degree_bits, &vp.reduction_arity_bits), Some(vp.reduction_arity_bits.len())),
            None => (final_poly_coeff_len(shape.degree_bits, &shape.reduction_arity_bits), None),
        };
        catch(|| {
            let mut timing = TimingTree::default();
            let tc = PolynomialBatch::<F, PC, D>::from_values(cols.clone(), cfg2.fri_config.rate_bits, false, cfg2.fri_config.cap_height, &mut timing, None);
            let mut ch = Challenger::<F, <PC as GenericConfig<D>>::Hasher>::new();
            ch.observe_elements(pis);
            cfg.observe(&mut ch);
            ch.observe_cap(&tc.merkle_tree.cap);
            prove_with_commitment(&self.stark, &cfg2, &cols, &tc, None, None, &mut ch, pis, Some(final_len), steps, &mut timing)
        })
    }

    /// Honest proof for a trace of 2^m rows (`padded`: with the circuit's FRI parameters, as the
    /// multi-degree mode requires). Cached.
    fn honest(&mut self, m: usize, padded: bool) -> Result<&Honest, String> {
        if !self.honest.contains_key(&(m, padded)) {
            let lim = StarkLimits {
                min_log_n: m,
                max_log_n: m,
                ..self.lim
            };
            let el = elaborate_stark(&self.case.stark, &lim);
            if el.def.constraints != self.stark.def.constraints || el.log_n != m {
                return Err("generator bug: the definition depends on the trace length".into());
            }
            let proof = self
                .prove_trace(&el.trace, &el.pis, padded, Knobs::default())
                .map_err(|p| format!("STARK prover PANICKED on a satisfying trace (log_n {}, {:?}): {}", m, self.mode.labels, p))?
                .map_err(|e| format!("STARK prover failed on a satisfying trace (log_n {}, {:?}): {:#}", m, self.mode.labels, e))?;
            let tree = to_tree(&proof);
            let leaves = numeric_leaves(&tree);
            let mut by: BTreeMap<String, Vec<usize>> = BTreeMap::new();
            for (i, p) in leaves.iter().enumerate() {
                by.entry(short_class(&class_of(p))).or_default().push(i);
            }
            let h = Honest {
                proof,
                tree,
                leaves,
                classes: by.into_iter().collect(),
                trace: el.trace,
                pis: el.pis,
            };
            self.honest.insert((m, padded), Some(h));
        }
        Ok(self.honest[&(m, padded)].as_ref().unwrap())
    }

    /// (query indices, proof-of-work response) the native transcript derives for `proof` — used only to
    /// *search* for adversarial inputs, never to judge.
    fn challenges(&self, proof: &Proof) -> Result<(Vec<usize>, u64), String> {
        use plonky2::field::types::PrimeField64;
        let mut challenger = Challenger::<F, <PC as GenericConfig<D>>::Hasher>::new();
        let ch = catch(|| proof.get_challenges(&self.stark, &mut challenger, None, None, false, &self.mode.config, self.mode.verifier_params.clone()))
            .map_err(|p| format!("native challenge derivation panicked: {}", p))?;
        Ok((ch.fri_challenges.fri_query_indices.clone(), ch.fri_challenges.fri_pow_response.to_canonical_u64()))
    }

    /// Compare the two verifiers on one proof. `told` is the `degree_bits` value assigned to the circuit.
    fn judge(&mut self, proof: &Proof, told: usize, class: &str, honest: bool, spec: &RawProof, idx: usize, st: &mut Stats) -> Result<(), String> {
        let chash = hash_of(&self.case.stark) ^ hash_of(&self.case.multi) ^ hash_of(&self.case.lookups);
        // shape-changed proofs: the library's assignment routines zero-pad short components, so the verdicts are
        // compared and reported in the histogram but a difference is not asserted
        let asserted = !class.starts_with("shape:");
        st.evals(1);
        // ---- native ----
        let pdeg = catch(|| proof.proof.recover_degree_bits(&self.mode.config)).ok();
        let nat = catch(|| verify_stark_proof(self.stark.clone(), proof.clone(), &self.mode.config, self.mode.verifier_params.clone()));
        let (native_ok, native_name) = match &nat {
            Ok(Ok(())) => (true, "accept"),
            Ok(Err(_)) => (false, "reject"),
            Err(_) => (false, "reject_panicked"),
        };
        let length_ok = pdeg.map(|d| self.mode.supported.contains(&d)).unwrap_or(false);
        let told_ok = pdeg == Some(told);
        let expected = native_ok && length_ok && told_ok;
        let native_label = if native_ok && !length_ok {
            "accept_but_other_length"
        } else if native_ok && !told_ok {
            "accept_but_told_wrong_degree"
        } else {
            native_name
        };
        if honest && !native_ok {
            return Err(format!(
                "the native verifier rejects an HONEST proof ({}; log_n {:?}, {:?}): {:?}",
                class, pdeg, self.mode.labels, nat
            ));
        }
        // ---- circuit ----
        let outer = &self.outer;
        let data = &outer.data;
        let mut inputs = PartialWitness::<F>::new();
        let assigned = catch(|| set_stark_proof_with_pis_target(&mut inputs, &outer.pt, proof, told, outer.zero));
        let mut circuit_ok = false;
        let mut kind: String;
        let mut violating: Option<PartitionWitness<F>> = None;
        let mut satisfying: Option<PartitionWitness<F>> = None;
        match assigned {
            Err(_) => kind = "assign_panicked".into(),
            Ok(Err(_)) => kind = "assign_err".into(),
            Ok(Ok(())) => match catch(|| generate_partial_witness(inputs.clone(), &data.prover_only, &data.common)) {
                Ok(Ok(pw)) => {
                    let rep = sat_report(outer, &pw);
                    if rep.clean() {
                        circuit_ok = true;
                        kind = "accept".into();
                        satisfying = Some(pw);
                    } else {
                        kind = format!("sat:{}", rep.kinds().into_iter().collect::<Vec<_>>().join("+"));
                        violating = Some(pw);
                    }
                }
                other => {
                    kind = if other.is_err() { "witgen_panicked".into() } else { "witgen_conflict".into() };
                    // conflict-tolerant witness: which constraint does the assignment break?
                    let (fw, conflicts, panics) = forgiving_witness(&inputs, &data.prover_only, &data.common);
                    let rep = sat_report(outer, &fw);
                    if rep.clean() {
                        if conflicts == 0 && panics == 0 {
                            return Err(format!(
                                "generate_partial_witness failed but an identical re-run succeeds with a satisfied circuit ({}, {:?})",
                                class, self.mode.labels
                            ));
                        }
                        if !expected && asserted {
                            return Err(format!(
                                "the OUTER CIRCUIT IS SATISFIABLE for a proof the native verifier rejects: witness generation reported a conflict, \
                                 yet keeping the first value of each conflicting class satisfies every gate row and copy class \
                                 ({}; native {}; told {} proof log_n {:?}; {:?})",
                                class, native_label, told, pdeg, self.mode.labels
                            ));
                        }
                        kind.push_str("+sat:clean");
                    } else {
                        kind.push_str(&format!("+sat:{}", rep.kinds().into_iter().collect::<Vec<_>>().join("+")));
                        violating = Some(fw);
                    }
                }
            },
        }
        st.label(&format!("{} | native={} | circuit={}", class, native_label, kind));
        if std::env::var("PV_TRACE").is_ok() {
            eprintln!("[trace] #{} {} told {} pdeg {:?} native {} circuit {}", idx, class, told, pdeg, native_label, kind);
        }
        if expected != circuit_ok && !asserted {
            st.label(&format!("UNASSERTED shape-edit difference: {} | native={} | circuit={}", class, native_label, kind));
            st.sample(|| json!({"unasserted_shape_difference": class, "native": native_label, "circuit": kind, "told": told, "proof_log_n": pdeg,
                                "mode": self.mode.labels, "config": format!("{:?}", self.mode.config)}));
            return Ok(());
        }
        if expected != circuit_ok {
            return Err(format!(
                "native and in-circuit STARK verifiers DISAGREE on proof #{} ({}): native {} (expected circuit verdict: {}), circuit {} \
                 [told degree_bits {}, proof log_n {:?}, circuit max {} min {:?}, {:?}, config {:?}]",
                idx,
                class,
                native_label,
                if expected { "accept" } else { "reject" },
                kind,
                told,
                pdeg,
                self.mode.max_bits,
                self.mode.min_bits,
                self.mode.labels,
                self.mode.config
            ));
        }
        // ---- non-trivial cases, ties to the real outer argument ----
        let shorter = self.mode.multi && pdeg.map(|d| d < self.mode.max_bits).unwrap_or(false);
        if shorter && circuit_ok {
            st.label("accepted_shorter_than_max");
        }
        if shorter || (!expected && !kind.starts_with("assign")) {
            st.nontrivial(&(chash, idx, spec));
        }
        if circuit_ok {
            let d = pdeg.unwrap_or(0);
            if honest && self.outer_honest_budget > 0 && !self.proved_lengths.contains(&d) {
                self.outer_honest_budget -= 1;
                self.proved_lengths.push(d);
                let pw = satisfying.take().unwrap();
                st.evals(1);
                let p = catch(|| prove_with_partition_witness(&data.prover_only, &data.common, pw, &mut TimingTree::default()))
                    .map_err(|p| format!("outer prover PANICKED on an honest inner proof (log_n {}): {}", d, p))?
                    .map_err(|e| format!("outer prover failed on an honest inner proof (log_n {}): {:#}", d, e))?;
                catch(|| data.verify(p))
                    .map_err(|p| format!("outer verifier panicked: {}", p))?
                    .map_err(|e| format!("outer proof of an honest inner proof (log_n {}) rejected: {:#}", d, e))?;
                st.label("outer_prove_verify_ok");
            }
        } else if let Some(pw) = violating {
            if spec.sample < SAMPLE_OUTER {
                let o = outer_attempt(outer, pw, st).map_err(|m| format!("{} ({}, native {}, circuit {}, {:?})", m, class, native_label, kind, self.mode.labels))?;
                st.label(o);
            }
        }
        Ok(())
    }

    fn one(&mut self, idx: usize, spec: &RawProof, st: &mut Stats) -> Result<(), String> {
        let sup = self.mode.supported.clone();
        let m = sup[frac(spec.len, sup.len())];
        let multi = self.mode.multi;
        let max_bits = self.mode.max_bits;
        match spec.kind % 20 {
            // ---- honest ----
            0 | 1 => {
                let p = self.honest(m, multi)?.proof.clone();
                self.judge(&p, m, "honest", true, spec, idx, st)
            }
            // ---- value edit at a numeric leaf of a chosen component class ----
            2..=8 => {
                let h = self.honest(m, multi)?;
                let (cname, members) = &h.classes[frac(spec.cls, h.classes.len())];
                let path = h.leaves[members[frac32(spec.pos, members.len())]].clone();
                let e = match spec.ekind % 4 {
                    0 => ValueEdit::Plus1,
                    1 => ValueEdit::Zero,
                    2 => ValueEdit::Minus1,
                    _ => ValueEdit::Set(spec.val),
                };
                let mut tree = h.tree.clone();
                let cname = cname.clone();
                edit_value(&mut tree, &path, e, P);
                let p2: Result<Proof, _> = Deserialize::deserialize(&tree);
                let Ok(p2) = p2 else {
                    st.label("edit_not_deserialisable");
                    return Ok(());
                };
                self.judge(&p2, m, &format!("edit:{}", cname), false, spec, idx, st)
            }
            // ---- final-polynomial coefficient edited by a grinding adversary: the value is searched so that the
            //      re-derived query indices stay the same and the proof-of-work still passes; then the
            //      final-polynomial evaluation is the only check left to fail ----
            9 => {
                let mut p = self.honest(m, multi)?.proof.clone();
                let fc = self.mode.config.fri_config.clone();
                let n_coeffs = p.proof.opening_proof.final_poly.coeffs.len();
                if n_coeffs == 0 {
                    st.label("empty_final_poly");
                    return Ok(());
                }
                let ci = frac(spec.cls, n_coeffs);
                let limb = (spec.ekind % 2) as usize;
                let space_bits = (m + fc.rate_bits) * fc.num_query_rounds + fc.proof_of_work_bits as usize;
                let tries: u64 = if space_bits <= 11 { 1 << (space_bits + 2) } else { 1 };
                let ch0 = self.challenges(&p)?;
                let old = p.proof.opening_proof.final_poly.coeffs[ci].0[limb];
                let mut found = false;
                for j in 0..tries {
                    let v = F::from_canonical_u64((spec.val % P + j) % P);
                    if v == old {
                        continue;
                    }
                    p.proof.opening_proof.final_poly.coeffs[ci].0[limb] = v;
                    if tries == 1 {
                        break;
                    }
                    let ch = self.challenges(&p)?;
                    if ch.0 == ch0.0 && ch.1.leading_zeros() >= fc.proof_of_work_bits {
                        found = true;
                        break;
                    }
                }
                if p.proof.opening_proof.final_poly.coeffs[ci].0[limb] == old {
                    p.proof.opening_proof.final_poly.coeffs[ci].0[limb] = old + F::ONE;
                }
                let class = if found { "grind:final_poly_same_queries" } else { "edit:fri.final_poly.coeffs[][]" };
                self.judge(&p, m, class, false, spec, idx, st)
            }
            // ---- wrong public inputs ----
            10 => {
                let mut p = self.honest(m, multi)?.proof.clone();
                if PIS == 0 {
                    st.label("no_public_inputs");
                    return Ok(());
                }
                let k = spec.col as usize % PIS;
                let v = F::from_canonical_u64(spec.val % P);
                p.public_inputs[k] = if p.public_inputs[k] == v { v + F::ONE } else { v };
                self.judge(&p, m, "wrong_public_input", false, spec, idx, st)
            }
            // ---- honest trace, but the prover perturbs ONE quotient polynomial (one challenge's identity fails) or one
            //      auxiliary (lookup) polynomial value before committing ----
            12 => {
                let (trace, pis) = {
                    let h = self.honest(m, multi)?;
                    (h.trace.clone(), h.pis.clone())
                };
                let mut k = Knobs::default();
                k.lenient_quotient = true;
                let delta = 1 + spec.val % (P - 1);
                let class = if !self.stark.def.lookups.is_empty() && spec.ekind % 2 == 0 {
                    k.aux_perturb = Some((spec.col as usize, spec.row as usize, delta));
                    "aux_poly_perturbed"
                } else {
                    let nc = self.mode.config.num_challenges;
                    let ch = spec.col as usize % nc;
                    k.quotient_perturb = Some((ch, spec.row as usize, delta));
                    if ch == 0 {
                        "quotient_perturbed_challenge0"
                    } else {
                        "quotient_perturbed_later_challenge"
                    }
                };
                match self.prove_trace(&trace, &pis, multi, k) {
                    Ok(Ok(p)) => self.judge(&p, m, class, false, spec, idx, st),
                    _ => {
                        st.label(&format!("{}: prover refused", class));
                        Ok(())
                    }
                }
            }
            // ---- proof emitted by the real prover for a corrupted trace ----
            11 => {
                let h = self.honest(m, multi)?;
                let mut trace = h.trace.clone();
                let mut pis = h.pis.clone();
                let n = trace.len();
                let row = match spec.row_class % 5 {
                    0 => 0,
                    1 => n - 1,
                    2 => n - 2,
                    _ => frac32(spec.row, n),
                };
                let v = F::from_canonical_u64(spec.val % P);
                if spec.ekind % 5 == 0 && PIS > 0 {
                    let k = spec.col as usize % PIS;
                    pis[k] = if pis[k] == v { v + F::ONE } else { v };
                } else {
                    let c = spec.col as usize % COLS;
                    trace[row][c] = if trace[row][c] == v { v + F::ONE } else { v };
                }
                let viol = !violations(&self.stark.def, &trace, &pis).is_empty();
                let mut k = Knobs::default();
                k.lenient_quotient = true;
                match self.prove_trace(&trace, &pis, multi, k) {
                    Ok(Ok(p)) => self.judge(&p, m, if viol { "violating_trace" } else { "benign_trace_change" }, false, spec, idx, st),
                    _ => {
                        st.label("violating_trace: prover refused");
                        Ok(())
                    }
                }
            }
            // ---- a proof of another length / without the padding the circuit expects ----
            13 | 14 => {
                if multi {
                    // generated without the circuit's FRI parameters: its transcript lacks the zero padding
                    let p = self.honest(m, false)?.proof.clone();
                    let class = if m == max_bits { "unpadded_proof_max_length" } else { "unpadded_proof" };
                    self.judge(&p, m, class, false, spec, idx, st)
                } else {
                    let others = self.mode.others.clone();
                    if others.is_empty() {
                        st.label("no_other_length_admissible");
                        return Ok(());
                    }
                    let m2 = others[frac(spec.len, others.len())];
                    let p = self.honest(m2, false)?.proof.clone();
                    let told = if spec.told % 2 == 0 { m2 } else { max_bits };
                    let class = if m2 < max_bits { "other_length_shorter" } else { "other_length_longer" };
                    self.judge(&p, told, class, false, spec, idx, st)
                }
            }
            // ---- honest proof, wrong degree_bits told to the circuit ----
            15 | 16 => {
                let (p, constant_trace) = {
                    let h = self.honest(m, multi)?;
                    (h.proof.clone(), h.trace.iter().all(|r| *r == h.trace[0]))
                };
                let mut cands: Vec<usize> = sup.iter().copied().filter(|&t| t != m).collect();
                let class;
                let told = if !cands.is_empty() && spec.told % 4 != 3 {
                    class = "told_other_supported_degree";
                    cands[frac(spec.told, cands.len())]
                } else {
                    class = "told_unsupported_degree";
                    cands = vec![0, 1, m + 1, max_bits + 1, m + 96, m + 192, 64, m.saturating_sub(1)];
                    cands.retain(|&t| t != m && !sup.contains(&t));
                    cands[frac(spec.told, cands.len())]
                };
                // A constant trace makes every constraint vanish identically and every opening valid at every point, so
                // nothing in the proof depends on the trace length: the verdict for a wrong `degree_bits` is reported,
                // not asserted (the native verifier accepts the same proof, so "accept" is not a disagreement).
                let class = if constant_trace { format!("shape:degenerate_constant_trace:{}", class) } else { class.to_string() };
                self.judge(&p, told, &class, false, spec, idx, st)
            }
            // ---- fixed-length circuit, proof of a SHORTER satisfying trace committed at a higher rate, and the shorter
            //      degree_bits told to the circuit (the native verifier recovers the full length from the proof's shape) ----
            17 | 18 if m >= 2 => {
                // `m`: the supported length whose FRI shape the forged proof imitates (the circuit's length in the fixed mode)
                let k = 1 + frac(spec.told, m - 1);
                let m2 = m - k;
                let lim = StarkLimits {
                    min_log_n: m2,
                    max_log_n: m2,
                    ..self.lim
                };
                let el = elaborate_stark(&self.case.stark, &lim);
                if el.def.constraints != self.stark.def.constraints || el.log_n != m2 {
                    st.label("short_trace_not_available");
                    return Ok(());
                }
                let constant_trace = el.trace.iter().all(|r| *r == el.trace[0]);
                // told: the short length the proof was built for, or (every fourth case) the length its shape suggests
                let told = if spec.told % 4 == 3 { m } else { m2 };
                match self.prove_short_at_higher_rate(&el.trace, &el.pis, k, m) {
                    Ok(Ok(p)) => {
                        let class = format!(
                            "{}shorter_trace_at_higher_rate{}",
                            if constant_trace { "shape:degenerate_constant_trace:" } else { "" },
                            if told == m { ":told_shape_length" } else { "" }
                        );
                        self.judge(&p, told, &class, false, spec, idx, st)
                    }
                    Ok(Err(_)) | Err(_) => {
                        st.label("shorter_trace_at_higher_rate: prover refused");
                        Ok(())
                    }
                }
            }
            // ---- shape edit of one container of the proof (reported, not asserted) ----
            19 => {
                let h = self.honest(m, multi)?;
                // fixed-size arrays (extension-field limbs, digest words) cannot change shape: skip them
                let cs: Vec<Path> = containers(&h.tree)
                    .into_iter()
                    .map(|c| c.0)
                    .filter(|p| {
                        let all_numbers = get(&h.tree, p).and_then(|v| v.as_array()).map(|a| a.iter().all(|x| x.is_number())).unwrap_or(false);
                        let c = class_of(p);
                        !all_numbers || c == "public_inputs" || c.ends_with("evals_proofs[][]")
                    })
                    .collect();
                let path = cs[frac32(spec.pos, cs.len())].clone();
                let e = ShapeEdit::ALL[spec.ekind as usize % 4];
                let mut tree = h.tree.clone();
                if !edit_shape(&mut tree, &path, e) {
                    st.label("shape_edit_noop");
                    return Ok(());
                }
                let p2: Result<Proof, _> = Deserialize::deserialize(&tree);
                let Ok(p2) = p2 else {
                    st.label("shape_edit_not_deserialisable");
                    return Ok(());
                };
                self.judge(&p2, m, &format!("shape:{}:{}", short_class(&class_of(&path)), e.name()), false, spec, idx, st)
            }
            // ---- proof-of-work witness chosen without grinding (everything else consistent) ----
            _ => {
                let (trace, pis) = {
                    let h = self.honest(m, multi)?;
                    (h.trace.clone(), h.pis.clone())
                };
                let mut k = Knobs::default();
                k.pow_witness = Some(spec.val % P);
                match self.prove_trace(&trace, &pis, multi, k) {
                    Ok(Ok(p)) => self.judge(&p, m, "pow_witness_override", false, spec, idx, st),
                    _ => {
                        st.label("pow_witness_override: prover refused");
                        Ok(())
                    }
                }
            }
        }
    }
}

fn run_shape<const COLS: usize, const PIS: usize>(case: &Case, el: &ElabStark, lim: StarkLimits, st: &mut Stats) -> Result<(), String> {
    let mut def = el.def.clone();
    def.lookups = elaborate_lookups(&case.lookups, COLS, &el.roles);
    let mode = elaborate_mode(case, el);
    for l in el.labels.iter().filter(|l| !mode.multi || !(l.starts_with("fri_") || l.starts_with("rate") || l.starts_with("cap") || l.starts_with("log_n"))) {
        st.label(l);
    }
    for l in &mode.labels {
        st.label(l);
    }
    st.label(&format!("lookups{}", def.lookups.len()));
    st.label(&format!("pow_bits{}", mode.config.fri_config.proof_of_work_bits));
    st.label(&format!("queries{}", mode.config.fri_config.num_query_rounds));
    if mode.supported.is_empty() {
        return Err(format!("generator bug: no supported length ({:?})", mode.labels));
    }
    let stark = GenStark::<COLS, PIS> { def: Arc::new(def) };
    let outer = build_outer(&stark, &mode).map_err(|p| format!("building the outer circuit PANICKED ({:?}, config {:?}): {}", mode.labels, mode.config, p))?;
    let rows = outer.data.common.degree_bits();
    st.label(&format!("outer_rows_2^{}", rows));
    let mut run = Run {
        case,
        lim,
        stark,
        mode,
        outer,
        honest: BTreeMap::new(),
        outer_honest_budget: 2,
        proved_lengths: vec![],
    };
    // every supported length at least once, honestly (the longest first)
    let sup = run.mode.supported.clone();
    let multi = run.mode.multi;
    let base = RawProof {
        kind: 0,
        len: 0,
        told: 0,
        cls: 0,
        pos: 0,
        ekind: 0,
        val: 0,
        row_class: 0,
        row: 0,
        col: 0,
        sample: 255,
    };
    for (i, &m) in sup.iter().rev().enumerate() {
        let p = run.honest(m, multi)?.proof.clone();
        run.judge(&p, m, "honest", true, &base, 10_000 + i, st)?;
    }
    for (i, spec) in case.proofs.iter().enumerate() {
        run.one(i, spec, st)?;
    }
    st.sample(|| {
        json!({"labels": el.labels, "mode": run.mode.labels, "supported": run.mode.supported, "lookups": run.stark.def.lookups.len(),
               "constraints": run.stark.def.constraints.len(), "outer_degree_bits": rows, "config": format!("{:?}", run.mode.config)})
    });
    Ok(())
}

fn prop(c: &Case, st: &mut Stats) -> Result<(), String> {
    let lim = limits(!c.lookups.is_empty());
    let el = elaborate_stark(&c.stark, &lim);
    with_stark_shape!(el.shape, run_shape, c, &el, lim, st)
}

pub fn run(ctx: &mut Ctx) {
    ctx.level = "exploration";
    ctx.rule = "run-time STARK definition (1-16 columns, declared degree 1..9, 0-4 public inputs, with 0-2 always-satisfied logUp lookups) x StarkConfig \
                (1-6 queries, 0-4 grinding bits, 1-3 challenges, all three reduction strategies in fixed-degree mode; the ConstantArityBits family \
                admissible for multi-degree verification otherwise) -> ONE outer circuit (standard recursion config) embedding the STARK verifier, \
                fed with: honest proofs of every supported length, value edits at a numeric leaf of every component class, wrong public inputs, \
                proofs the real prover emitted for a corrupted trace or with one perturbed quotient / lookup polynomial, proofs of another length / without the transcript padding, a wrong degree_bits \
                assignment, a proof-of-work witness chosen without grinding, a final-polynomial coefficient ground so that the query indices stay \
                the same, and (reported but not asserted) shape edits; verdicts of verify_stark_proof and of (assignment + witness generation + \
                O-sat) must agree; non-trivial = multi-degree case with a proof shorter than the maximum, or a natively rejected proof whose \
                assignment succeeded so that the circuit's verdict comes from its constraints; distinct = (definition, config, proof spec)"
        .into();
    ctx.assumptions.push("inner hashing is Poseidon (the recursive verifier needs an algebraic hasher); the outer circuit uses CircuitConfig::standard_recursion_config()".into());
    ctx.assumptions.push(
        "multi-degree mode is exercised only inside the family the library asserts/documents: ConstantArityBits(a,f), cap_height in (f+1+r-a, f+1+r], \
         maximum degree_bits = f+1 (mod a), min_degree_bits_to_support + r > cap_height, proof lengths whose final polynomial and step count fit the circuit"
            .into(),
    );
    ctx.assumptions.push(
        "a proof whose length differs from the one told to the circuit, or is not supported by it, is expected to be rejected by the circuit \
         (the native verifier derives the length from the proof itself)"
            .into(),
    );
    ctx.assumptions.push("satisfaction oracle trusts each gate's own eval_unfiltered (judged by C07) and the builder's copy classes".into());
    ctx.assumptions.push(
        "shape-changed proofs are compared but not asserted: set_stark_proof_with_pis_target / set_fri_proof_target ignore surplus trailing \
         elements and zero-pad short ones, so the circuit accepts some proofs the native shape validation rejects (see the UNASSERTED histogram labels)"
            .into(),
    );
    ctx.shrink_iters = 6;
    let (cases, proofs) = ctx.tier.pick((70, 40), (500, 300));
    ctx.run_sub("circuit_vs_native", cases, 14, move || case(proofs), prop);
}
