use plonky2_field::goldilocks_field::GoldilocksField as F;
use plonky2_field::polynomial::PolynomialCoeffs;
use plonky2_field::types::Field;
fn main() {
    let a = PolynomialCoeffs::new(vec![F::ONE, F::ZERO, F::ONE]);
    for n in 1..12 {
        let inv = a.inv_mod_xn(n);
        // check a*inv == 1 mod x^n
        let prod = &a * &inv;
        let ok = prod.coeffs.iter().take(n).enumerate().all(|(i, c)| if i == 0 { *c == F::ONE } else { *c == F::ZERO });
        println!("n={} len={} ok={}", n, inv.len(), ok);
    }
    let x = PolynomialCoeffs::new([1u64, 2, 1, 0, 0, 1].iter().map(|&v| F::from_canonical_u64(v)).collect());
    let (q, r) = x.div_rem(&a);
    let (q2, r2) = x.div_rem_long_division(&a);
    println!("{:?} {:?} | {:?} {:?}", q.trimmed().coeffs, r.trimmed().coeffs, q2.trimmed().coeffs, r2.trimmed().coeffs);
}
