//! `pv <Cnn> [--tier quick|thorough] [--seed N] [--replay FILE] [--sub NAME]`
use std::path::PathBuf;

use pv::engine::{install_panic_hook, Ctx, Tier};

fn variant_name() -> String {
    std::env::var("PV_VARIANT").unwrap_or_else(|_| "rel".to_string())
}

fn main() {
    let args: Vec<String> = std::env::args().collect();
    if args.len() < 2 {
        eprintln!("usage: pv <Cnn> [--tier quick|thorough] [--seed N] [--replay FILE] [--sub NAME]");
        std::process::exit(2);
    }
    if args[1] == "__c18_decode" {
        install_panic_hook();
        std::process::exit(pv::props::c18::decode_probe_main(&args[2]));
    }
    let id = args[1].clone();
    let mut tier = match std::env::var("VERIF_TIER").ok().as_deref() {
        Some("thorough") => Tier::Thorough,
        _ => Tier::Quick,
    };
    let mut seed: u64 = std::env::var("VERIF_SEED")
        .ok()
        .and_then(|s| s.trim().parse::<i128>().ok())
        .map(|v| v as u64)
        .unwrap_or(0);
    let mut replay: Option<PathBuf> = None;
    let mut sub: Option<String> = None;
    let mut i = 2;
    while i < args.len() {
        match args[i].as_str() {
            "--tier" => {
                i += 1;
                tier = if args[i] == "thorough" { Tier::Thorough } else { Tier::Quick };
            }
            "--seed" => {
                i += 1;
                seed = args[i].parse::<i128>().map(|v| v as u64).unwrap_or(0);
            }
            "--replay" => {
                i += 1;
                replay = Some(PathBuf::from(&args[i]));
            }
            "--sub" => {
                i += 1;
                sub = Some(args[i].clone());
            }
            other => {
                eprintln!("unknown argument {}", other);
                std::process::exit(2);
            }
        }
        i += 1;
    }
    install_panic_hook();
    // Watchdog: a hang is "inconclusive" (exit 2), never a violation.
    let budget_s: u64 = std::env::var("PV_WATCHDOG_S").ok().and_then(|s| s.parse().ok()).unwrap_or(match tier {
        Tier::Quick => 1500,
        Tier::Thorough => 6 * 3600,
    });
    std::thread::spawn(move || {
        std::thread::sleep(std::time::Duration::from_secs(budget_s));
        eprintln!("INCONCLUSIVE: watchdog after {} s", budget_s);
        std::process::exit(2);
    });
    let mut ctx = Ctx::new(&id, tier, seed, &variant_name());
    ctx.only_sub = sub;
    if let Some(p) = replay {
        let text = match std::fs::read_to_string(&p) {
            Ok(t) => t,
            Err(e) => {
                eprintln!("cannot read replay file {}: {}", p.display(), e);
                std::process::exit(2);
            }
        };
        let v: serde_json::Value = match serde_json::from_str(&text) {
            Ok(v) => v,
            Err(e) => {
                eprintln!("replay file {} is not JSON: {}", p.display(), e);
                std::process::exit(2);
            }
        };
        ctx.replay = Some((p, v));
    }
    if !pv::props::run(&mut ctx) {
        eprintln!("unknown property id {}", id);
        std::process::exit(2);
    }
    let code = ctx.finish();
    std::process::exit(code);
}
