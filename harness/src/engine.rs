//! Shared engine: sharded proptest runners, counters, evidence writer, replay files,
//! panic capture and the known-findings list.

use std::collections::{BTreeMap, HashSet};
use std::fmt::Debug;
use std::hash::{Hash, Hasher};
use std::panic::{catch_unwind, AssertUnwindSafe};
use std::path::{Path, PathBuf};
use std::sync::Mutex;
use std::time::Instant;

use proptest::strategy::{BoxedStrategy, Strategy};
use proptest::test_runner::{Config, RngAlgorithm, TestCaseError, TestError, TestRng, TestRunner};
use serde::de::DeserializeOwned;
use serde::Serialize;
use serde_json::{json, Value};

pub const VERIF_ROOT_DEFAULT: &str = "/verif";

/// Root directory for corpus/, replays/, evidence/, known_findings.json (env PV_ROOT overrides; used by tools/mutant.sh).
pub fn verif_root() -> PathBuf {
    PathBuf::from(std::env::var("PV_ROOT").unwrap_or_else(|_| VERIF_ROOT_DEFAULT.to_string()))
}

#[derive(Clone, Copy, Debug, PartialEq, Eq)]
pub enum Tier {
    Quick,
    Thorough,
}

impl Tier {
    pub fn pick<T>(self, quick: T, thorough: T) -> T {
        match self {
            Tier::Quick => quick,
            Tier::Thorough => thorough,
        }
    }
    pub fn name(self) -> &'static str {
        self.pick("quick", "thorough")
    }
}

// ------------------------------------------------------------------------------------------
// Panic capture
// ------------------------------------------------------------------------------------------

thread_local! {
    static LAST_PANIC: std::cell::RefCell<Option<String>> = const { std::cell::RefCell::new(None) };
}
static GLOBAL_LAST_PANIC: Mutex<Vec<(String, String)>> = Mutex::new(Vec::new());

/// Install a quiet panic hook that records `file: message` of the last panic.
pub fn install_panic_hook() {
    std::panic::set_hook(Box::new(|info| {
        let loc = info
            .location()
            .map(|l| l.file().to_string())
            .unwrap_or_else(|| "?".into());
        let msg = payload_msg(info.payload());
        let full = format!("{}: {}", loc, msg);
        LAST_PANIC.with(|c| *c.borrow_mut() = Some(full.clone()));
        if let Ok(mut g) = GLOBAL_LAST_PANIC.lock() {
            if g.len() > 64 {
                g.remove(0);
            }
            g.push((msg, full));
        }
        if std::env::var("PV_SHOW_PANICS").is_ok() {
            eprintln!("[panic] {}", info);
        }
    }));
}

fn payload_msg(p: &(dyn std::any::Any + Send)) -> String {
    if let Some(s) = p.downcast_ref::<&str>() {
        s.to_string()
    } else if let Some(s) = p.downcast_ref::<String>() {
        s.clone()
    } else {
        "<non-string panic payload>".into()
    }
}

/// Run `f`, turning a panic into `Err("file: message")`.
pub fn catch<T>(f: impl FnOnce() -> T) -> Result<T, String> {
    LAST_PANIC.with(|c| *c.borrow_mut() = None);
    match catch_unwind(AssertUnwindSafe(f)) {
        Ok(v) => Ok(v),
        Err(p) => {
            let msg = payload_msg(&*p);
            let local = LAST_PANIC.with(|c| c.borrow_mut().take());
            if let Some(l) = local {
                if l.ends_with(&msg) {
                    return Err(l);
                }
            }
            // Panic happened on another (rayon) thread: look the location up by message.
            if let Ok(g) = GLOBAL_LAST_PANIC.lock() {
                if let Some((_, full)) = g.iter().rev().find(|(m, _)| *m == msg) {
                    return Err(full.clone());
                }
            }
            Err(format!("?: {}", msg))
        }
    }
}

/// Normalise a panic/error text into a signature fragment: digits collapsed, repo prefix removed.
pub fn normalise(msg: &str) -> String {
    let mut out = String::new();
    let mut prev_digit = false;
    for ch in msg.replace("/repo/", "").chars() {
        if ch.is_ascii_digit() {
            if !prev_digit {
                out.push('N');
            }
            prev_digit = true;
        } else {
            prev_digit = false;
            out.push(ch);
        }
    }
    out.chars().take(160).collect()
}

// ------------------------------------------------------------------------------------------
// Known findings
// ------------------------------------------------------------------------------------------

#[derive(Clone, Debug, serde::Deserialize)]
pub struct KnownFinding {
    pub property: String,
    pub signature: String,
    pub what: String,
    pub status: String,
    #[serde(default)]
    pub commit: Option<String>,
}

pub fn load_known_findings() -> Vec<KnownFinding> {
    let p = verif_root().join("known_findings.json");
    match std::fs::read_to_string(&p) {
        Ok(s) => {
            let v: Value = serde_json::from_str(&s).expect("known_findings.json must parse");
            serde_json::from_value(v["findings"].clone()).expect("known_findings.json: findings")
        }
        Err(_) => vec![],
    }
}

// ------------------------------------------------------------------------------------------
// Stats
// ------------------------------------------------------------------------------------------

#[derive(Default, Debug)]
pub struct Stats {
    pub evaluations: u64,
    pub nontrivial: HashSet<u64>,
    pub hist: BTreeMap<String, u64>,
    pub samples: Vec<Value>,
    pub known_hits: BTreeMap<String, u64>,
    pub frozen: bool,
    pub max_samples: usize,
}

pub fn hash_of<T: Hash>(t: &T) -> u64 {
    let mut h = std::collections::hash_map::DefaultHasher::new();
    t.hash(&mut h);
    h.finish()
}

impl Stats {
    pub fn new() -> Self {
        Stats {
            max_samples: 3,
            ..Default::default()
        }
    }
    /// Count one executed case (or one executed sub-evaluation).
    pub fn eval(&mut self) {
        if !self.frozen {
            self.evaluations += 1;
        }
    }
    pub fn evals(&mut self, n: u64) {
        if !self.frozen {
            self.evaluations += n;
        }
    }
    pub fn label(&mut self, l: &str) {
        if !self.frozen {
            *self.hist.entry(l.to_string()).or_insert(0) += 1;
        }
    }
    pub fn label_n(&mut self, l: &str, n: u64) {
        if !self.frozen && n > 0 {
            *self.hist.entry(l.to_string()).or_insert(0) += n;
        }
    }
    /// Record a case that is non-trivial by the property's rule; `key` identifies it.
    pub fn nontrivial<K: Hash>(&mut self, key: &K) {
        // Capped so that thorough tiers with tens of millions of cases stay in memory; beyond the
        // cap the count is a conservative under-estimate.
        if !self.frozen && self.nontrivial.len() < 4_000_000 {
            self.nontrivial.insert(hash_of(key));
        }
    }
    /// Count a violation whose signature is listed as an open known finding.
    pub fn known(&mut self, sig: &str) {
        if !self.frozen {
            *self.known_hits.entry(sig.to_string()).or_insert(0) += 1;
        }
    }
    pub fn sample(&mut self, v: impl FnOnce() -> Value) {
        if !self.frozen && self.samples.len() < self.max_samples {
            self.samples.push(v());
        }
    }
    pub fn merge(&mut self, o: Stats) {
        self.evaluations += o.evaluations;
        self.nontrivial.extend(o.nontrivial);
        for (k, v) in o.hist {
            *self.hist.entry(k).or_insert(0) += v;
        }
        for (k, v) in o.known_hits {
            *self.known_hits.entry(k).or_insert(0) += v;
        }
        for s in o.samples {
            if self.samples.len() < 10 {
                self.samples.push(s);
            }
        }
    }
}

// ------------------------------------------------------------------------------------------
// Context
// ------------------------------------------------------------------------------------------

pub struct Ctx {
    pub id: String,
    pub tier: Tier,
    pub seed: u64,
    pub variant: String,
    pub replay: Option<(PathBuf, Value)>,
    pub only_sub: Option<String>,
    pub level: &'static str,
    pub rule: String,
    pub assumptions: Vec<String>,
    pub stats: Stats,
    pub sub_stats: BTreeMap<String, (u64, usize)>,
    pub violations: Vec<(String, String)>,
    pub known: Vec<KnownFinding>,
    pub known_printed: HashSet<String>,
    pub extra: BTreeMap<String, Value>,
    pub started: Instant,
    pub scale: f64,
    pub shrink_iters: u32,
}

fn seed32(seed: u64, id: &str, sub: &str, shard: usize) -> [u8; 32] {
    // Simple, stable derivation (FNV-style mixing); no dependence on std hashers.
    let mut out = [0u8; 32];
    let mut h: u64 = 0xcbf29ce484222325 ^ seed.wrapping_mul(0x9E3779B97F4A7C15);
    let feed = |h: &mut u64, b: u8| {
        *h ^= b as u64;
        *h = h.wrapping_mul(0x100000001b3);
        *h ^= *h >> 29;
    };
    for b in id.bytes().chain([0xff]).chain(sub.bytes()).chain([0xfe]) {
        feed(&mut h, b);
    }
    for b in (shard as u64).to_le_bytes() {
        feed(&mut h, b);
    }
    for i in 0..4 {
        for b in seed.to_le_bytes() {
            feed(&mut h, b.wrapping_add(i as u8));
        }
        out[i * 8..i * 8 + 8].copy_from_slice(&h.to_le_bytes());
    }
    out
}

impl Ctx {
    pub fn new(id: &str, tier: Tier, seed: u64, variant: &str) -> Self {
        Ctx {
            id: id.to_string(),
            tier,
            seed,
            variant: variant.to_string(),
            replay: None,
            only_sub: None,
            level: "exploration",
            rule: String::new(),
            assumptions: vec![],
            stats: Stats::new(),
            sub_stats: BTreeMap::new(),
            violations: vec![],
            known: load_known_findings(),
            known_printed: HashSet::new(),
            extra: BTreeMap::new(),
            started: Instant::now(),
            scale: std::env::var("PV_SCALE")
                .ok()
                .and_then(|s| s.parse().ok())
                .unwrap_or(1.0),
            shrink_iters: 300,
        }
    }

    /// Is `signature` listed as an open known finding for this property? Prints the
    /// KNOWN-FINDING line once per signature.
    pub fn is_known_open(&mut self, signature: &str) -> bool {
        let hit = self
            .known
            .iter()
            .find(|k| k.property == self.id && k.status == "open" && signature.contains(&k.signature))
            .cloned();
        if let Some(k) = hit {
            if self.known_printed.insert(k.signature.clone()) {
                println!("KNOWN-FINDING: property={} {}", self.id, k.what);
            }
            true
        } else {
            false
        }
    }

    pub fn open_known_signatures(&self) -> Vec<String> {
        self.known
            .iter()
            .filter(|k| k.property == self.id && k.status == "open")
            .map(|k| k.signature.clone())
            .collect()
    }

    fn wants(&self, sub: &str) -> bool {
        if let Some((_, v)) = &self.replay {
            return v["sub"].as_str() == Some(sub);
        }
        match &self.only_sub {
            Some(s) => s == sub,
            None => true,
        }
    }

    pub fn scaled(&self, n: u32) -> u32 {
        ((n as f64 * self.scale).ceil() as u32).max(1)
    }

    /// Run one sub-check: `cases` generated cases split over `shards` threads.
    /// `prop` returns Err(reason) on a violation; panics inside `prop` are violations too.
    pub fn run_sub<C, S, P>(&mut self, sub: &str, cases: u32, shards: usize, strat: S, prop: P)
    where
        C: Debug + Clone + Serialize + DeserializeOwned + Send + 'static,
        S: Fn() -> BoxedStrategy<C> + Sync,
        P: Fn(&C, &mut Stats) -> Result<(), String> + Sync,
    {
        if !self.wants(sub) {
            return;
        }
        let t0 = Instant::now();
        // ---- replay mode ----
        if let Some((path, v)) = self.replay.clone() {
            let case: C = match serde_json::from_value(v["case"].clone()) {
                Ok(c) => c,
                Err(e) => {
                    eprintln!("replay file {} does not decode for {}/{}: {}", path.display(), self.id, sub, e);
                    std::process::exit(2);
                }
            };
            let mut st = Stats::new();
            st.eval();
            let r = catch(|| prop(&case, &mut st)).unwrap_or_else(|p| Err(format!("panic: {}", p)));
            self.stats.merge(st);
            if let Err(reason) = r {
                println!("replay {}: FAIL: {}", path.display(), reason);
                println!("VIOLATION property={} replay={}", self.id, path.display());
                self.violations.push((sub.to_string(), reason));
            } else {
                println!("replay {}: pass", path.display());
            }
            return;
        }
        // ---- corpus (committed regression cases) ----
        let corpus_dir = verif_root().join("corpus").join(&self.id);
        if let Ok(rd) = std::fs::read_dir(&corpus_dir) {
            let mut files: Vec<_> = rd.filter_map(|e| e.ok()).map(|e| e.path()).collect();
            files.sort();
            for f in files {
                let Ok(s) = std::fs::read_to_string(&f) else { continue };
                let Ok(v) = serde_json::from_str::<Value>(&s) else { continue };
                if v["sub"].as_str() != Some(sub) {
                    continue;
                }
                let Ok(case) = serde_json::from_value::<C>(v["case"].clone()) else {
                    continue; // stale corpus entry (case format changed): ignore
                };
                let mut st = Stats::new();
                st.eval();
                st.label("corpus_case");
                let r = catch(|| prop(&case, &mut st)).unwrap_or_else(|p| Err(format!("panic: {}", p)));
                self.stats.merge(st);
                if let Err(reason) = r {
                    println!("corpus case {} FAILS: {}", f.display(), reason);
                    println!("VIOLATION property={} replay={}", self.id, f.display());
                    self.violations.push((sub.to_string(), reason));
                    return;
                }
            }
        }
        // ---- generated cases ----
        let cases = self.scaled(cases);
        let shards = shards.max(1).min(cases as usize);
        let per = (cases as usize).div_ceil(shards) as u32;
        let id = self.id.clone();
        let seed = self.seed;
        let shrink_iters = self.shrink_iters;
        let results: Vec<(Stats, Option<(C, String)>)> = std::thread::scope(|scope| {
            let handles: Vec<_> = (0..shards)
                .map(|shard| {
                    let strat = &strat;
                    let prop = &prop;
                    let id = id.clone();
                    scope.spawn(move || {
                        let config = Config {
                            cases: per,
                            failure_persistence: None,
                            max_shrink_iters: shrink_iters,
                            verbose: 0,
                            max_global_rejects: 65536,
                            ..Config::default()
                        };
                        let rng = TestRng::from_seed(RngAlgorithm::ChaCha, &seed32(seed, &id, sub, shard));
                        let mut runner = TestRunner::new_with_rng(config, rng);
                        let stats = std::cell::RefCell::new(Stats::new());
                        let last_reason = std::cell::RefCell::new(String::new());
                        let res = runner.run(&strat(), |case: C| {
                            let mut st = stats.borrow_mut();
                            st.eval();
                            let r = catch(|| prop(&case, &mut st))
                                .unwrap_or_else(|p| Err(format!("panic: {}", p)));
                            match r {
                                Ok(()) => Ok(()),
                                Err(reason) => {
                                    st.frozen = true;
                                    *last_reason.borrow_mut() = reason.clone();
                                    Err(TestCaseError::fail(reason))
                                }
                            }
                        });
                        let fail = match res {
                            Ok(()) => None,
                            Err(TestError::Fail(reason, case)) => Some((case, reason.message().to_string())),
                            Err(TestError::Abort(reason)) => {
                                eprintln!("[{}:{}] proptest aborted: {}", id, sub, reason.message());
                                None
                            }
                        };
                        (stats.into_inner(), fail)
                    })
                })
                .collect();
            handles.into_iter().map(|h| h.join().expect("shard thread")).collect()
        });
        let mut sub_eval = 0u64;
        let before_nt = self.stats.nontrivial.len();
        let mut first_fail: Option<(C, String)> = None;
        for (st, fail) in results {
            sub_eval += st.evaluations;
            self.stats.merge(st);
            if first_fail.is_none() {
                first_fail = fail;
            }
        }
        let nt = self.stats.nontrivial.len() - before_nt;
        self.sub_stats.insert(sub.to_string(), (sub_eval, nt));
        let hit: Vec<String> = self.stats.known_hits.keys().cloned().collect();
        for sig in hit {
            let _ = self.is_known_open(&sig);
        }
        eprintln!(
            "[{} {}] sub={} evals={} nontrivial+={} {:.1}s",
            self.id,
            self.variant,
            sub,
            sub_eval,
            nt,
            t0.elapsed().as_secs_f64()
        );
        if let Some((case, reason)) = first_fail {
            let path = self.write_replay(sub, &case, &reason);
            println!("[{}:{}] violation: {}", self.id, sub, reason);
            println!("VIOLATION property={} replay={}", self.id, path.display());
            self.violations.push((sub.to_string(), reason));
        }
    }

    pub fn write_replay<C: Serialize + Debug>(&self, sub: &str, case: &C, reason: &str) -> PathBuf {
        let dir = verif_root().join("replays").join(&self.id);
        let _ = std::fs::create_dir_all(&dir);
        let v = json!({
            "property": self.id, "sub": sub, "case": case, "reason": reason,
            "seed": self.seed, "tier": self.tier.name(), "variant": self.variant,
            "debug": format!("{:?}", case).chars().take(4000).collect::<String>(),
        });
        let text = serde_json::to_string_pretty(&v).unwrap();
        let h = hash_of(&text);
        let path = dir.join(format!("{}-{:016x}.json", sub, h));
        std::fs::write(&path, text).expect("write replay");
        path
    }

    /// Report a violation found outside `run_sub` (e.g. by a driver-level comparison).
    pub fn violation<C: Serialize + Debug>(&mut self, sub: &str, case: &C, reason: &str) {
        let path = self.write_replay(sub, case, reason);
        println!("[{}:{}] violation: {}", self.id, sub, reason);
        println!("VIOLATION property={} replay={}", self.id, path.display());
        self.violations.push((sub.to_string(), reason.to_string()));
    }

    /// Write the evidence part for this (property, variant) and return the process exit code.
    pub fn finish(mut self) -> i32 {
        let wall = self.started.elapsed().as_secs_f64();
        let mut coverage = serde_json::Map::new();
        coverage.insert("evaluations".into(), json!(self.stats.evaluations));
        coverage.insert("distinct_nontrivial".into(), json!(self.stats.nontrivial.len()));
        coverage.insert("rule".into(), json!(self.rule));
        coverage.insert("samples".into(), json!(self.stats.samples));
        coverage.insert("histogram".into(), json!(self.stats.hist));
        coverage.insert(
            "sub_checks".into(),
            json!(self
                .sub_stats
                .iter()
                .map(|(k, (e, n))| (k.clone(), json!({"evaluations": e, "distinct_nontrivial": n})))
                .collect::<serde_json::Map<_, _>>()),
        );
        coverage.insert("variants".into(), json!([self.variant]));
        coverage.insert("known_findings_hit".into(), json!(self.stats.known_hits));
        for (k, v) in std::mem::take(&mut self.extra) {
            coverage.insert(k, v);
        }
        let ev = json!({
            "property_id": self.id,
            "tier": self.tier.name(),
            "seed": self.seed,
            "level": self.level,
            "coverage": coverage,
            "assumptions": self.assumptions,
            "wall_s": wall,
            "violations": self.violations.len(),
        });
        let dir = verif_root().join("evidence").join(".parts");
        let _ = std::fs::create_dir_all(&dir);
        let mode = if self.replay.is_some() { "replay" } else { "run" };
        if mode == "run" {
            let suffix = std::env::var("PV_PART_SUFFIX").unwrap_or_default();
            let path = dir.join(format!("{}.{}{}.json", self.id, self.variant, suffix));
            std::fs::write(&path, serde_json::to_string_pretty(&ev).unwrap()).expect("write evidence part");
        }
        if self.violations.is_empty() {
            0
        } else {
            1
        }
    }
}

/// Convenience: box a strategy.
pub fn bx<T: Debug + 'static>(s: impl Strategy<Value = T> + 'static) -> BoxedStrategy<T> {
    s.boxed()
}

/// Map a raw u16 "fraction" monotonically onto 0..n (n ≥ 1).
pub fn frac(raw: u16, n: usize) -> usize {
    debug_assert!(n >= 1);
    ((raw as usize) * n) >> 16
}
