//! A counting global allocator: records the largest single allocation request made by the
//! current thread between `start()` and `stop()`. Used by C18 to detect decoders that size an
//! allocation from an attacker-controlled length field. (A request the system cannot satisfy makes
//! the process abort; the driver reports an abnormal exit of the harness as exit 2 and the replay
//! file of the running case is not available then — see DESIGN.md §C18 limits.)

use std::alloc::{GlobalAlloc, Layout, System};
use std::cell::Cell;

pub struct CountingAlloc;

thread_local! {
    static ACTIVE: Cell<bool> = const { Cell::new(false) };
    static MAX_SEEN: Cell<usize> = const { Cell::new(0) };
}

unsafe impl GlobalAlloc for CountingAlloc {
    unsafe fn alloc(&self, layout: Layout) -> *mut u8 {
        note(layout.size());
        System.alloc(layout)
    }
    unsafe fn dealloc(&self, ptr: *mut u8, layout: Layout) {
        System.dealloc(ptr, layout)
    }
    unsafe fn alloc_zeroed(&self, layout: Layout) -> *mut u8 {
        note(layout.size());
        System.alloc_zeroed(layout)
    }
    unsafe fn realloc(&self, ptr: *mut u8, layout: Layout, new_size: usize) -> *mut u8 {
        note(new_size);
        System.realloc(ptr, layout, new_size)
    }
}

#[inline]
fn note(size: usize) {
    // try_with: TLS may be gone during thread teardown
    let _ = ACTIVE.try_with(|a| {
        if a.get() {
            let _ = MAX_SEEN.try_with(|m| {
                if size > m.get() {
                    m.set(size);
                }
            });
        }
    });
}

#[global_allocator]
static GLOBAL: CountingAlloc = CountingAlloc;

pub fn start() {
    MAX_SEEN.with(|m| m.set(0));
    ACTIVE.with(|a| a.set(true));
}

/// Stops the probe and returns the largest single allocation request seen on this thread.
pub fn stop() -> usize {
    ACTIVE.with(|a| a.set(false));
    MAX_SEEN.with(|m| m.get())
}
