//! G-mut: generic mutators over the serde tree of a proof value.
//!
//! A value is converted to `serde_json::Value`; every numeric leaf and every array/map is
//! addressable by a path. Edits are applied on the JSON tree and the result is deserialised back,
//! so the mutator walks whatever fields exist and cannot forget a component.

use serde::de::DeserializeOwned;
use serde::{Deserialize, Serialize};
use serde_json::Value;

use crate::gen::field::P;

#[derive(Clone, Debug, PartialEq, Eq, Hash, Serialize, Deserialize)]
pub enum Seg {
    Key(String),
    Idx(usize),
}

pub type Path = Vec<Seg>;

/// Path with indices erased and numeric map keys replaced by `#`: the "component class".
pub fn class_of(path: &Path) -> String {
    let mut s = String::new();
    for seg in path {
        match seg {
            Seg::Key(k) => {
                if !s.is_empty() {
                    s.push('.');
                }
                if k.chars().all(|c| c.is_ascii_digit()) {
                    s.push('#');
                } else {
                    s.push_str(k);
                }
            }
            Seg::Idx(_) => s.push_str("[]"),
        }
    }
    s
}

pub fn path_string(path: &Path) -> String {
    let mut s = String::new();
    for seg in path {
        match seg {
            Seg::Key(k) => {
                if !s.is_empty() {
                    s.push('.');
                }
                s.push_str(k);
            }
            Seg::Idx(i) => s.push_str(&format!("[{}]", i)),
        }
    }
    s
}

/// All numeric leaves, in document order (object keys in serde_json's order, which is
/// deterministic: BTreeMap-backed).
pub fn numeric_leaves(v: &Value) -> Vec<Path> {
    let mut out = vec![];
    fn walk(v: &Value, cur: &mut Path, out: &mut Vec<Path>) {
        match v {
            Value::Number(_) => out.push(cur.clone()),
            Value::Array(a) => {
                for (i, x) in a.iter().enumerate() {
                    cur.push(Seg::Idx(i));
                    walk(x, cur, out);
                    cur.pop();
                }
            }
            Value::Object(m) => {
                for (k, x) in m.iter() {
                    cur.push(Seg::Key(k.clone()));
                    walk(x, cur, out);
                    cur.pop();
                }
            }
            _ => {}
        }
    }
    walk(v, &mut vec![], &mut out);
    out
}

/// All containers (arrays and objects with numeric keys = maps), with their length.
pub fn containers(v: &Value) -> Vec<(Path, usize, bool)> {
    let mut out = vec![];
    fn walk(v: &Value, cur: &mut Path, out: &mut Vec<(Path, usize, bool)>) {
        match v {
            Value::Array(a) => {
                out.push((cur.clone(), a.len(), false));
                for (i, x) in a.iter().enumerate() {
                    cur.push(Seg::Idx(i));
                    walk(x, cur, out);
                    cur.pop();
                }
            }
            Value::Object(m) => {
                let is_map = !m.is_empty() && m.keys().all(|k| k.chars().all(|c| c.is_ascii_digit()));
                if is_map {
                    out.push((cur.clone(), m.len(), true));
                }
                for (k, x) in m.iter() {
                    cur.push(Seg::Key(k.clone()));
                    walk(x, cur, out);
                    cur.pop();
                }
            }
            _ => {}
        }
    }
    walk(v, &mut vec![], &mut out);
    out
}

pub fn get<'a>(v: &'a Value, path: &Path) -> Option<&'a Value> {
    let mut cur = v;
    for seg in path {
        cur = match seg {
            Seg::Key(k) => cur.get(k)?,
            Seg::Idx(i) => cur.get(*i)?,
        };
    }
    Some(cur)
}

pub fn get_mut<'a>(v: &'a mut Value, path: &Path) -> Option<&'a mut Value> {
    let mut cur = v;
    for seg in path {
        cur = match seg {
            Seg::Key(k) => cur.get_mut(k)?,
            Seg::Idx(i) => cur.get_mut(*i)?,
        };
    }
    Some(cur)
}

#[derive(Clone, Copy, Debug, PartialEq, Eq, Hash, Serialize, Deserialize)]
pub enum ValueEdit {
    Plus1,
    Minus1,
    Zero,
    /// replace by this canonical value (if equal to the old one, +1 is used instead)
    Set(u64),
}

impl ValueEdit {
    pub fn name(&self) -> &'static str {
        match self {
            ValueEdit::Plus1 => "plus1",
            ValueEdit::Minus1 => "minus1",
            ValueEdit::Zero => "zero",
            ValueEdit::Set(_) => "set",
        }
    }
}

/// Apply a value edit to the numeric leaf at `path`, working modulo `modulus` (p for field
/// elements, 256 for digest bytes). Returns false if the leaf does not exist. The new value is
/// always canonical and always different from the old residue.
pub fn edit_value(v: &mut Value, path: &Path, edit: ValueEdit, modulus: u64) -> bool {
    let Some(leaf) = get_mut(v, path) else { return false };
    let Some(old) = leaf.as_u64() else { return false };
    let oldr = old % modulus;
    let m = modulus as u128;
    let mut new = match edit {
        ValueEdit::Plus1 => ((oldr as u128 + 1) % m) as u64,
        ValueEdit::Minus1 => ((oldr as u128 + m - 1) % m) as u64,
        ValueEdit::Zero => 0,
        ValueEdit::Set(x) => x % modulus,
    };
    if new == oldr {
        new = ((oldr as u128 + 1) % m) as u64;
    }
    *leaf = Value::from(new);
    true
}

#[derive(Clone, Copy, Debug, PartialEq, Eq, Hash, Serialize, Deserialize)]
pub enum ShapeEdit {
    DropLast,
    Empty,
    DupLast,
    DropFirst,
}

impl ShapeEdit {
    pub const ALL: [ShapeEdit; 4] = [ShapeEdit::DropLast, ShapeEdit::Empty, ShapeEdit::DupLast, ShapeEdit::DropFirst];
    pub fn name(&self) -> &'static str {
        match self {
            ShapeEdit::DropLast => "drop_last",
            ShapeEdit::Empty => "empty",
            ShapeEdit::DupLast => "dup_last",
            ShapeEdit::DropFirst => "drop_first",
        }
    }
}

/// Apply a shape edit to the container at `path`. Returns false if nothing changed.
pub fn edit_shape(v: &mut Value, path: &Path, edit: ShapeEdit) -> bool {
    let Some(c) = get_mut(v, path) else { return false };
    match c {
        Value::Array(a) => match edit {
            ShapeEdit::DropLast => a.pop().is_some(),
            ShapeEdit::DropFirst => {
                if a.is_empty() {
                    false
                } else {
                    a.remove(0);
                    true
                }
            }
            ShapeEdit::Empty => {
                let had = !a.is_empty();
                a.clear();
                had
            }
            ShapeEdit::DupLast => {
                if let Some(l) = a.last().cloned() {
                    a.push(l);
                    true
                } else {
                    false
                }
            }
        },
        Value::Object(m) => {
            let keys: Vec<String> = m.keys().cloned().collect();
            match edit {
                ShapeEdit::DropLast => keys.last().map(|k| m.remove(k).is_some()).unwrap_or(false),
                ShapeEdit::DropFirst => keys.first().map(|k| m.remove(k).is_some()).unwrap_or(false),
                ShapeEdit::Empty => {
                    let had = !m.is_empty();
                    m.clear();
                    had
                }
                ShapeEdit::DupLast => {
                    // "duplicate" in a map: re-insert the last value under a fresh numeric key
                    if let Some(k) = keys.last() {
                        let val = m[k].clone();
                        let fresh = keys.iter().filter_map(|k| k.parse::<u64>().ok()).max().unwrap_or(0) + 1;
                        m.insert(fresh.to_string(), val);
                        true
                    } else {
                        false
                    }
                }
            }
        }
        _ => false,
    }
}

pub fn to_tree<T: Serialize>(t: &T) -> Value {
    serde_json::to_value(t).expect("proof types serialise")
}

pub fn from_tree<T: DeserializeOwned>(v: &Value) -> Result<T, String> {
    serde_json::from_value(v.clone()).map_err(|e| e.to_string())
}

/// Modulus for the numeric leaf at `path`: 256 for Keccak digest bytes (leaves under a cap or a
/// sibling list when the hasher is Keccak), p otherwise. `indices`/map keys are handled by callers.
pub fn leaf_modulus(path: &Path, keccak: bool) -> u64 {
    if keccak {
        let c = class_of(path);
        if c.contains("cap") || c.contains("siblings") {
            return 256;
        }
    }
    P
}
