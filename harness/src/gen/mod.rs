pub mod config;
pub mod dsl;
pub mod field;
pub mod mutate;
pub mod stark;
#[cfg(not(pv_core))]
pub mod stark_lookup;
