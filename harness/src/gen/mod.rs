pub mod config;
pub mod dsl;
pub mod field;
