pub mod field;
