//! G-field: boundary-biased generators of Goldilocks *representations* (any u64) and of
//! canonical values (< p).

use proptest::prelude::*;

pub const P: u64 = 0xFFFF_FFFF_0000_0001;
pub const EPS: u64 = 0xFFFF_FFFF; // 2^32 - 1 = 2^64 mod p

/// Small offset, biased to 0..=3.
fn small() -> impl Strategy<Value = u64> {
    prop_oneof![4 => 0u64..4, 1 => 0u64..70_000]
}

/// Any 64-bit representation, boundary-biased.
pub fn any_repr() -> BoxedStrategy<u64> {
    prop_oneof![
        3 => any::<u64>(),
        2 => small(),                                             // 0,1,2,...
        2 => small().prop_map(|k| P.wrapping_sub(k)),             // p-k (canonical for k>=1)
        2 => small().prop_map(|k| P.wrapping_add(k)),             // p+k (non-canonical)
        2 => small().prop_map(|k| u64::MAX - k),                  // 2^64-1-k (non-canonical)
        1 => small().prop_map(|k| EPS.wrapping_sub(k)),           // eps-k
        1 => small().prop_map(|k| EPS + 1 + k),                   // 2^32+k
        1 => (0u32..64).prop_map(|k| 1u64 << k),                  // 2^k
        1 => (1u32..=64).prop_map(|k| if k == 64 { u64::MAX } else { (1u64 << k) - 1 }), // 2^k-1
        1 => small().prop_map(|k| (1u64 << 63).wrapping_add(k)),
        1 => small().prop_map(|k| (1u64 << 63).wrapping_sub(k)),
        1 => Just(0xFFFF_FFFF_0000_0000u64),
        1 => Just(0x0000_0000_FFFF_FFFFu64),
        1 => any::<u32>().prop_map(|x| (x as u64) << 32),         // low limb zero
        1 => any::<u32>().prop_map(|x| 0xFFFF_FFFF_0000_0000 | x as u64), // high limb all ones
        1 => any::<u32>().prop_map(|x| x as u64),                 // high limb zero
    ]
    .boxed()
}

/// Canonical value (< p), boundary-biased.
pub fn canonical() -> BoxedStrategy<u64> {
    any_repr().prop_map(|x| if x >= P { x - P } else { x }).boxed()
}

/// Canonical non-zero value.
pub fn canonical_nonzero() -> BoxedStrategy<u64> {
    canonical().prop_map(|x| if x == 0 { 1 } else { x }).boxed()
}

/// Coarse class label of a representation (for histograms).
pub fn class_of(x: u64) -> &'static str {
    if x >= P {
        "noncanonical"
    } else if x < 4 {
        "tiny"
    } else if P - x < 70_000 {
        "near_p"
    } else if x.is_power_of_two() || (x + 1).is_power_of_two() {
        "pow2ish"
    } else if x >> 32 == 0 || x & 0xFFFF_FFFF == 0 || x >> 32 == 0xFFFF_FFFF {
        "limb_pattern"
    } else {
        "generic"
    }
}

pub fn is_boundary(x: u64) -> bool {
    class_of(x) != "generic"
}

/// Reference arithmetic mod p on u128.
pub mod refmod {
    use super::P;
    pub fn red(x: u128) -> u64 {
        (x % (P as u128)) as u64
    }
    pub fn add(a: u64, b: u64) -> u64 {
        red(a as u128 + b as u128)
    }
    pub fn sub(a: u64, b: u64) -> u64 {
        red((a as u128 % P as u128) + P as u128 - (b as u128 % P as u128))
    }
    pub fn neg(a: u64) -> u64 {
        sub(0, a)
    }
    pub fn mul(a: u64, b: u64) -> u64 {
        red((a as u128 % P as u128) * (b as u128 % P as u128))
    }
    pub fn pow(mut b: u64, mut e: u128) -> u64 {
        let mut acc = 1u64;
        b = red(b as u128);
        while e > 0 {
            if e & 1 == 1 {
                acc = mul(acc, b);
            }
            b = mul(b, b);
            e >>= 1;
        }
        acc
    }
    pub fn inv(a: u64) -> u64 {
        pow(a, (P - 2) as u128)
    }
}
