//! G-stark: a STARK family defined at run time.
//!
//! `GenStark<COLS, PIS>` implements `Stark<F, D>` by interpreting a run-time list of polynomial
//! constraints. Definitions are generated *with* a satisfying trace: columns are state columns
//! (next = f(local)), derived columns (local = g(earlier locals)), boolean or free advice
//! columns; first/last-row ties link cells to public inputs. The harness's own row-by-row
//! evaluator is the violation oracle.

use std::sync::Arc;

use plonky2::field::extension::{Extendable, FieldExtension};
use plonky2::field::packed::PackedField;
use plonky2::field::polynomial::PolynomialValues;
use plonky2::field::types::Field;
use plonky2::fri::reduction_strategies::FriReductionStrategy;
use plonky2::fri::FriConfig;
use plonky2::iop::ext_target::ExtensionTarget;
use plonky2::plonk::circuit_builder::CircuitBuilder;
use proptest::prelude::*;
use serde::{Deserialize, Serialize};
use starky::config::StarkConfig;
use starky::constraint_consumer::{ConstraintConsumer, RecursiveConstraintConsumer};
use starky::evaluation_frame::{StarkEvaluationFrame, StarkFrame};
use starky::lookup::{Column, Filter, Lookup};
use starky::stark::Stark;

use crate::engine::frac;
use crate::gen::config::repair_fixed;
use crate::gen::dsl::{D, F};
use crate::gen::field::{canonical, P};

pub const SHAPES: [(usize, usize); 12] = [(2, 1), (1, 0), (2, 0), (3, 2), (4, 2), (5, 3), (8, 4), (12, 2), (16, 4), (6, 0), (3, 1), (10, 4)];

#[derive(Clone, Copy, Debug, PartialEq, Eq, Hash, Serialize, Deserialize)]
pub enum Var {
    Local(usize),
    Next(usize),
    Pi(usize),
}

#[derive(Clone, Debug, PartialEq, Eq, Hash, Serialize, Deserialize)]
pub struct Poly {
    /// sum of coeff * product(vars)
    pub terms: Vec<(i64, Vec<Var>)>,
}

impl Poly {
    pub fn degree(&self) -> usize {
        self.terms.iter().map(|t| t.1.len()).max().unwrap_or(0)
    }
    /// reference evaluation over the base field
    pub fn eval(&self, local: &[F], next: &[F], pis: &[F]) -> F {
        let mut acc = F::ZERO;
        for (c, vars) in &self.terms {
            let mut t = F::from_noncanonical_i64(*c);
            for v in vars {
                t *= match *v {
                    Var::Local(i) => local[i],
                    Var::Next(i) => next[i],
                    Var::Pi(i) => pis[i],
                };
            }
            acc += t;
        }
        acc
    }
}

#[derive(Clone, Copy, Debug, PartialEq, Eq, Hash, Serialize, Deserialize)]
pub enum Kind {
    First,
    Last,
    Transition,
    Every,
}

#[derive(Clone, Debug, PartialEq, Eq, Hash, Serialize, Deserialize)]
pub struct Constraint {
    pub kind: Kind,
    pub poly: Poly,
}

/// A lookup `Column`: linear combination of current-row and next-row cells plus a constant.
#[derive(Clone, Debug, PartialEq, Eq, Hash, Serialize, Deserialize)]
pub struct ColDef {
    pub lin: Vec<(usize, i64)>,
    pub next_lin: Vec<(usize, i64)>,
    pub constant: i64,
}

impl ColDef {
    pub fn single(c: usize) -> Self {
        ColDef {
            lin: vec![(c, 1)],
            next_lin: vec![],
            constant: 0,
        }
    }
    pub fn to_column(&self) -> Column<F> {
        Column::linear_combination_and_next_row_with_constant(
            self.lin.iter().map(|&(c, k)| (c, F::from_noncanonical_i64(k))).collect::<Vec<_>>(),
            self.next_lin.iter().map(|&(c, k)| (c, F::from_noncanonical_i64(k))).collect::<Vec<_>>(),
            F::from_noncanonical_i64(self.constant),
        )
    }
    /// reference evaluation at `row` (next row wraps around, as the library's table evaluation does)
    pub fn eval(&self, trace: &[Vec<F>], row: usize) -> F {
        let n = trace.len();
        let mut acc = F::from_noncanonical_i64(self.constant);
        for &(c, k) in &self.lin {
            acc += trace[row][c] * F::from_noncanonical_i64(k);
        }
        for &(c, k) in &self.next_lin {
            acc += trace[(row + 1) % n][c] * F::from_noncanonical_i64(k);
        }
        acc
    }
}

#[derive(Clone, Debug, PartialEq, Eq, Hash, Serialize, Deserialize)]
pub struct LookupDef {
    pub columns: Vec<ColDef>,
    pub table: ColDef,
    pub freq: ColDef,
    /// one optional simple (single column, 0/1 valued) filter per looking column
    pub filters: Vec<Option<ColDef>>,
}

impl LookupDef {
    pub fn to_lookup(&self) -> Lookup<F> {
        Lookup {
            columns: self.columns.iter().map(|c| c.to_column()).collect(),
            table_column: self.table.to_column(),
            frequencies_column: self.freq.to_column(),
            filter_columns: self
                .filters
                .iter()
                .map(|f| match f {
                    Some(c) => Filter::new_simple(c.to_column()),
                    None => Filter::default(),
                })
                .collect(),
        }
    }
}

#[derive(Clone, Debug)]
pub struct StarkDef {
    pub cols: usize,
    pub pis: usize,
    pub degree: usize,
    pub constraints: Vec<Constraint>,
    pub lookups: Vec<LookupDef>,
    pub requires_ctls: bool,
}

#[derive(Clone, Debug)]
pub struct GenStark<const COLS: usize, const PIS: usize> {
    pub def: Arc<StarkDef>,
}

impl<const COLS: usize, const PIS: usize> Stark<F, D> for GenStark<COLS, PIS> {
    type EvaluationFrame<FE, P, const D2: usize>
        = StarkFrame<P, P::Scalar, COLS, PIS>
    where
        FE: FieldExtension<D2, BaseField = F>,
        P: PackedField<Scalar = FE>;

    type EvaluationFrameTarget = StarkFrame<ExtensionTarget<D>, ExtensionTarget<D>, COLS, PIS>;

    fn eval_packed_generic<FE, P, const D2: usize>(
        &self,
        vars: &Self::EvaluationFrame<FE, P, D2>,
        yield_constr: &mut ConstraintConsumer<P>,
    ) where
        FE: FieldExtension<D2, BaseField = F>,
        P: PackedField<Scalar = FE>,
    {
        let local = vars.get_local_values();
        let next = vars.get_next_values();
        let pis = vars.get_public_inputs();
        for c in &self.def.constraints {
            let mut acc = P::ZEROS;
            for (coeff, vs) in &c.poly.terms {
                let k = FE::from_basefield(F::from_noncanonical_i64(*coeff));
                let mut t: P = P::from(k);
                for v in vs {
                    match *v {
                        Var::Local(i) => t *= local[i],
                        Var::Next(i) => t *= next[i],
                        Var::Pi(i) => t *= pis[i],
                    }
                }
                acc += t;
            }
            match c.kind {
                Kind::First => yield_constr.constraint_first_row(acc),
                Kind::Last => yield_constr.constraint_last_row(acc),
                Kind::Transition => yield_constr.constraint_transition(acc),
                Kind::Every => yield_constr.constraint(acc),
            }
        }
    }

    fn eval_ext_circuit(
        &self,
        builder: &mut CircuitBuilder<F, D>,
        vars: &Self::EvaluationFrameTarget,
        yield_constr: &mut RecursiveConstraintConsumer<F, D>,
    ) {
        let local = vars.get_local_values();
        let next = vars.get_next_values();
        let pis = vars.get_public_inputs();
        for c in &self.def.constraints {
            let mut acc = builder.zero_extension();
            for (coeff, vs) in &c.poly.terms {
                let k = F::from_noncanonical_i64(*coeff);
                let mut t = builder.constant_extension(<<F as Extendable<D>>::Extension as FieldExtension<D>>::from_basefield(k));
                for v in vs {
                    let x = match *v {
                        Var::Local(i) => local[i],
                        Var::Next(i) => next[i],
                        Var::Pi(i) => pis[i],
                    };
                    t = builder.mul_extension(t, x);
                }
                acc = builder.add_extension(acc, t);
            }
            match c.kind {
                Kind::First => yield_constr.constraint_first_row(builder, acc),
                Kind::Last => yield_constr.constraint_last_row(builder, acc),
                Kind::Transition => yield_constr.constraint_transition(builder, acc),
                Kind::Every => yield_constr.constraint(builder, acc),
            }
        }
    }

    fn constraint_degree(&self) -> usize {
        self.def.degree
    }

    fn lookups(&self) -> Vec<Lookup<F>> {
        self.def.lookups.iter().map(|l| l.to_lookup()).collect()
    }

    fn requires_ctls(&self) -> bool {
        self.def.requires_ctls
    }
}

// ------------------------------------------------------------------------------------------
// raw generation
// ------------------------------------------------------------------------------------------

#[derive(Clone, Debug, PartialEq, Eq, Hash, Serialize, Deserialize)]
pub struct RawTerm {
    pub coeff: i8,
    pub vars: Vec<u16>,
}

#[derive(Clone, Debug, PartialEq, Eq, Hash, Serialize, Deserialize)]
pub struct RawCol {
    pub role: u16,
    pub terms: Vec<RawTerm>,
    pub init: u64,
    pub frees: Vec<u64>,
}

#[derive(Clone, Debug, PartialEq, Eq, Hash, Serialize, Deserialize)]
pub struct RawStarkConfig {
    pub rate: u16,
    pub cap: u16,
    pub pow: u16,
    pub queries: u16,
    pub challenges: u16,
    pub strat: u16,
    pub arity: u16,
    pub final_bits: u16,
    pub fixed: Vec<u16>,
}

#[derive(Clone, Debug, PartialEq, Eq, Hash, Serialize, Deserialize)]
pub struct RawStark {
    pub shape: u16,
    pub degree: u16,
    pub log_n: u16,
    pub cols: Vec<RawCol>,
    pub ties: Vec<(u16, u16)>,
    pub config: RawStarkConfig,
}

fn raw_term() -> impl Strategy<Value = RawTerm> {
    (prop_oneof![Just(1i8), Just(-1i8), -3i8..=3i8], prop::collection::vec(any::<u16>(), 0..10)).prop_map(|(coeff, vars)| RawTerm { coeff, vars })
}

fn raw_col() -> impl Strategy<Value = RawCol> {
    (any::<u16>(), prop::collection::vec(raw_term(), 1..4), canonical(), prop::collection::vec(canonical(), 1..6))
        .prop_map(|(role, terms, init, frees)| RawCol { role, terms, init, frees })
}

pub fn raw_stark_config() -> BoxedStrategy<RawStarkConfig> {
    (
        any::<u16>(),
        any::<u16>(),
        any::<u16>(),
        any::<u16>(),
        any::<u16>(),
        any::<u16>(),
        any::<u16>(),
        any::<u16>(),
        prop::collection::vec(any::<u16>(), 0..4),
    )
        .prop_map(|(rate, cap, pow, queries, challenges, strat, arity, final_bits, fixed)| RawStarkConfig {
            rate,
            cap,
            pow,
            queries,
            challenges,
            strat,
            arity,
            final_bits,
            fixed,
        })
        .boxed()
}

pub fn raw_stark() -> BoxedStrategy<RawStark> {
    (
        any::<u16>(),
        any::<u16>(),
        any::<u16>(),
        prop::collection::vec(raw_col(), 16..=16),
        prop::collection::vec((any::<u16>(), any::<u16>()), 4..=4),
        raw_stark_config(),
    )
        .prop_map(|(shape, degree, log_n, cols, ties, config)| RawStark {
            shape,
            degree,
            log_n,
            cols,
            ties,
            config,
        })
        .boxed()
}

#[derive(Clone, Copy, Debug)]
pub struct StarkLimits {
    pub min_log_n: usize,
    pub max_log_n: usize,
    pub min_queries: usize,
    pub max_queries: usize,
    pub max_pow: u32,
    /// restrict the declared constraint degree (lookups need 2 or 3)
    pub min_degree: usize,
    pub max_degree: usize,
}

impl Default for StarkLimits {
    fn default() -> Self {
        StarkLimits {
            min_log_n: 2,
            max_log_n: 8,
            min_queries: 1,
            max_queries: 20,
            max_pow: 8,
            min_degree: 0,
            max_degree: 9,
        }
    }
}

#[derive(Clone, Debug)]
pub struct ElabStark {
    pub shape: usize,
    pub def: StarkDef,
    pub config: StarkConfig,
    pub log_n: usize,
    /// rows x cols
    pub trace: Vec<Vec<F>>,
    pub pis: Vec<F>,
    pub roles: Vec<&'static str>,
    pub labels: Vec<String>,
}

/// Elaborate the FRI/stark config for a trace of 2^log_n rows; repairs, never rejects.
pub fn elaborate_stark_config(raw: &RawStarkConfig, log_n: usize, lim: &StarkLimits, min_rate_bits: usize) -> (StarkConfig, Vec<String>) {
    let mut labels = vec![];
    let rate_bits = (1 + frac(raw.rate, 3)).max(min_rate_bits);
    let proof_of_work_bits = frac(raw.pow, lim.max_pow as usize + 1) as u32;
    let num_query_rounds = (lim.min_queries + frac(raw.queries, lim.max_queries - lim.min_queries + 1)).max(1);
    let num_challenges = [2usize, 1, 3][frac(raw.challenges, 3)];
    let mut cap_height = frac(raw.cap, 5);
    let lde_bits = log_n + rate_bits;
    let strategy = match frac(raw.strat, 4) {
        0 | 1 => {
            let a = 1 + frac(raw.arity, 4);
            let f = frac(raw.final_bits, 6).max(a - 1);
            labels.push("fri_constant_arity".to_string());
            FriReductionStrategy::ConstantArityBits(a, f)
        }
        2 => {
            labels.push("fri_min_size".to_string());
            cap_height = cap_height.min(rate_bits);
            FriReductionStrategy::MinSize([None, Some(1), Some(2), Some(3)][frac(raw.arity, 4)])
        }
        _ => {
            labels.push("fri_fixed".to_string());
            cap_height = cap_height.min(lde_bits);
            let req: Vec<usize> = raw.fixed.iter().map(|&r| 1 + frac(r, 3)).collect();
            FriReductionStrategy::Fixed(repair_fixed(&req, log_n, rate_bits, cap_height))
        }
    };
    // the prover asserts total_arities <= degree_bits + rate_bits - cap_height; Merkle caps need cap_height <= tree height
    let total: usize = strategy.reduction_arity_bits(log_n, rate_bits, cap_height, num_query_rounds).iter().sum();
    if total + cap_height > lde_bits {
        cap_height = lde_bits - total.min(lde_bits);
    }
    let fri_config = FriConfig {
        rate_bits,
        cap_height,
        proof_of_work_bits,
        reduction_strategy: strategy,
        num_query_rounds,
    };
    let security_bits = (num_query_rounds * rate_bits + proof_of_work_bits as usize).min(100);
    labels.push(format!("rate{}", rate_bits));
    labels.push(format!("cap{}", cap_height));
    labels.push(format!("challenges{}", num_challenges));
    (StarkConfig::new(security_bits, num_challenges, fri_config), labels)
}

pub fn elaborate_stark(raw: &RawStark, lim: &StarkLimits) -> ElabStark {
    let shape = frac(raw.shape, SHAPES.len());
    let (cols, pis_n) = SHAPES[shape];
    let log_n = lim.min_log_n + frac(raw.log_n, lim.max_log_n - lim.min_log_n + 1);
    let n = 1usize << log_n;
    // declared degree 0..=9 biased to small; rate must satisfy degree <= 2^rate + 1
    let deg_choices = [2usize, 3, 1, 2, 3, 0, 4, 5, 2, 3, 9, 7];
    let degree = deg_choices[frac(raw.degree, deg_choices.len())].clamp(lim.min_degree, lim.max_degree);
    let min_rate_bits = match degree {
        0..=3 => 1,
        4..=5 => 2,
        _ => 3,
    };
    let (config, mut labels) = elaborate_stark_config(&raw.config, log_n, lim, min_rate_bits);
    labels.push(format!("degree{}", degree));
    labels.push(format!("log_n{}", log_n));
    labels.push(format!("cols{}_pis{}", cols, pis_n));

    let mk_poly = |terms: &[RawTerm], max_deg: usize, avail: usize, next_ok: bool| -> Poly {
        let mut out = vec![];
        for t in terms {
            if t.coeff == 0 {
                continue;
            }
            let vars: Vec<Var> = t.vars.iter().take(max_deg).map(|&r| {
                let _ = next_ok;
                Var::Local(frac(r, avail))
            }).collect();
            out.push((t.coeff as i64, vars));
        }
        if out.is_empty() {
            out.push((1, vec![]));
        }
        Poly { terms: out }
    };

    let mut constraints = vec![];
    let mut roles: Vec<&'static str> = vec![];
    // per column: how to compute it
    enum Role {
        State(Poly),
        Derived(Poly),
        Bool,
        Free,
    }
    let mut col_roles: Vec<Role> = vec![];
    for j in 0..cols {
        let rc = &raw.cols[j];
        let role = if degree == 0 {
            Role::Free
        } else {
            match frac(rc.role, 6) {
                0 | 1 | 2 => Role::State(mk_poly(&rc.terms, degree, cols, false)),
                3 if j > 0 => Role::Derived(mk_poly(&rc.terms, degree, j, false)),
                4 if degree >= 2 => Role::Bool,
                _ => Role::Free,
            }
        };
        match &role {
            Role::State(f) => {
                // next[j] - f(local) = 0 on every transition
                let mut terms = vec![(1i64, vec![Var::Next(j)])];
                for (c, v) in &f.terms {
                    terms.push((-c, v.clone()));
                }
                constraints.push(Constraint {
                    kind: Kind::Transition,
                    poly: Poly { terms },
                });
                roles.push("state");
            }
            Role::Derived(g) => {
                let mut terms = vec![(1i64, vec![Var::Local(j)])];
                for (c, v) in &g.terms {
                    terms.push((-c, v.clone()));
                }
                constraints.push(Constraint {
                    kind: Kind::Every,
                    poly: Poly { terms },
                });
                roles.push("derived");
            }
            Role::Bool => {
                constraints.push(Constraint {
                    kind: Kind::Every,
                    poly: Poly {
                        terms: vec![(1, vec![Var::Local(j), Var::Local(j)]), (-1, vec![Var::Local(j)])],
                    },
                });
                roles.push("bool");
            }
            Role::Free => roles.push("free"),
        }
        col_roles.push(role);
    }
    // simulate
    let mut trace: Vec<Vec<F>> = vec![vec![F::ZERO; cols]; n];
    for i in 0..n {
        // states
        for j in 0..cols {
            if let Role::State(f) = &col_roles[j] {
                trace[i][j] = if i == 0 {
                    F::from_canonical_u64(raw.cols[j].init % P)
                } else {
                    let prev = trace[i - 1].clone();
                    f.eval(&prev, &[], &[])
                };
            }
        }
        for j in 0..cols {
            match &col_roles[j] {
                Role::Bool => {
                    let fr = &raw.cols[j].frees;
                    trace[i][j] = F::from_canonical_u64((fr[i % fr.len()] >> (i / fr.len() % 60)) & 1);
                }
                Role::Free => {
                    let fr = &raw.cols[j].frees;
                    trace[i][j] = F::from_canonical_u64(fr[i % fr.len()].wrapping_add((i / fr.len()) as u64) % P);
                }
                _ => {}
            }
        }
        for j in 0..cols {
            if let Role::Derived(g) = &col_roles[j] {
                let row = trace[i].clone();
                trace[i][j] = g.eval(&row, &[], &[]);
            }
        }
    }
    // boundary ties to public inputs (need a quotient: degree >= 1)
    let mut pis = vec![F::ZERO; pis_n];
    for k in 0..pis_n {
        let (kind, col) = raw.ties[k % raw.ties.len()];
        let col = frac(col, cols);
        if degree == 0 {
            // no constraints at all: public inputs are free values
            pis[k] = F::from_canonical_u64(raw.cols[k % cols].init % P);
            continue;
        }
        let first = kind & 1 == 0;
        pis[k] = if first { trace[0][col] } else { trace[n - 1][col] };
        constraints.push(Constraint {
            kind: if first { Kind::First } else { Kind::Last },
            poly: Poly {
                terms: vec![(1, vec![Var::Local(col)]), (-1, vec![Var::Pi(k)])],
            },
        });
    }
    let def = StarkDef {
        cols,
        pis: pis_n,
        degree,
        constraints,
        lookups: vec![],
        requires_ctls: false,
    };
    ElabStark {
        shape,
        def,
        config,
        log_n,
        trace,
        pis,
        roles,
        labels,
    }
}

/// Reference evaluator: which constraints does the trace violate?
pub fn violations(def: &StarkDef, trace: &[Vec<F>], pis: &[F]) -> Vec<String> {
    let n = trace.len();
    let mut out = vec![];
    for (ci, c) in def.constraints.iter().enumerate() {
        let rows: Vec<usize> = match c.kind {
            Kind::First => vec![0],
            Kind::Last => vec![n - 1],
            Kind::Transition => (0..n - 1).collect(), // wrap-around exempt
            Kind::Every => (0..n).collect(),
        };
        for r in rows {
            let next = &trace[(r + 1) % n];
            if c.poly.eval(&trace[r], next, pis).is_nonzero() {
                out.push(format!("{:?}#{}@{}", c.kind, ci, r));
                break;
            }
        }
    }
    out
}

pub fn trace_columns(trace: &[Vec<F>], cols: usize) -> Vec<PolynomialValues<F>> {
    (0..cols).map(|j| PolynomialValues::new(trace.iter().map(|r| r[j]).collect())).collect()
}

/// Run `$body` with `$S` bound to the concrete `GenStark<COLS, PIS>` type for shape `$shape`.
#[macro_export]
macro_rules! with_stark_shape {
    ($shape:expr, $f:ident, $($args:expr),*) => {
        match $shape {
            0 => $f::<2, 1>($($args),*),
            1 => $f::<1, 0>($($args),*),
            2 => $f::<2, 0>($($args),*),
            3 => $f::<3, 2>($($args),*),
            4 => $f::<4, 2>($($args),*),
            5 => $f::<5, 3>($($args),*),
            6 => $f::<8, 4>($($args),*),
            7 => $f::<12, 2>($($args),*),
            8 => $f::<16, 4>($($args),*),
            9 => $f::<6, 0>($($args),*),
            10 => $f::<3, 1>($($args),*),
            _ => $f::<10, 4>($($args),*),
        }
    };
}
