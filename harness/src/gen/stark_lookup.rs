//! Lookup / cross-table-lookup extensions of the run-time STARK family (owned by the C10 builder).
//!
//! Two generators, both "correct by construction":
//!  * `build_lookup_stark`: one `GenStark` definition with 1-2 `Lookup`s (looking columns that are single
//!    columns, linear combinations, next-row columns or aliases of an earlier column read on the next row;
//!    optional 0/1 filter columns; table and frequency columns given as linear combinations) and a trace in
//!    which every filtered looking value is a table value and the frequency column holds the counts;
//!  * `build_ctl_system`: 2-3 tables with 1-2 cross-table lookups (tuples of column linear combinations,
//!    filters `c`, `1-c`, `a*b`, the same table looking several times, extra looking values) and traces in
//!    which the filtered looking tuples and the filtered looked tuples are equal as multisets.
//! The multiset comparisons at the bottom are the oracles (own code, no library routine involved).

use std::collections::{BTreeMap, BTreeSet};

use plonky2::field::types::{Field, PrimeField64};
use plonky2::fri::reduction_strategies::FriReductionStrategy;
use proptest::prelude::*;
use serde::{Deserialize, Serialize};
use starky::config::StarkConfig;
use starky::cross_table_lookup::{CrossTableLookup, TableWithColumns};
use starky::lookup::{Column, Filter};

use crate::engine::{bx, frac};
use crate::gen::dsl::F;
use crate::gen::field::{canonical, P};
use crate::gen::stark::*;

pub const MAX_COLS: usize = 16;

pub fn fi(k: i64) -> F {
    F::from_noncanonical_i64(k)
}
pub fn fu(x: u64) -> F {
    F::from_canonical_u64(x % P)
}
pub fn cu(x: F) -> u64 {
    x.to_canonical_u64()
}
fn nz(x: i8) -> i64 {
    if x == 0 {
        1
    } else {
        x as i64
    }
}

// ------------------------------------------------------------------------------------------
// filters
// ------------------------------------------------------------------------------------------

/// A 0/1 filter over columns of the current row.
#[derive(Clone, Debug, PartialEq, Eq, Hash, Serialize, Deserialize)]
pub enum FilterDef {
    /// always on (`Filter::default()`)
    None,
    /// `c`
    Col(usize),
    /// `1 - c`
    Not(usize),
    /// `a * b` (degree-2 filter; cross-table lookups only)
    And(usize, usize),
}

impl FilterDef {
    pub fn eval(&self, row: &[F]) -> F {
        match *self {
            FilterDef::None => F::ONE,
            FilterDef::Col(c) => row[c],
            FilterDef::Not(c) => F::ONE - row[c],
            FilterDef::And(a, b) => row[a] * row[b],
        }
    }
    pub fn to_filter(&self) -> Filter<F> {
        match *self {
            FilterDef::None => Filter::default(),
            FilterDef::Col(c) => Filter::new_simple(Column::single(c)),
            FilterDef::Not(c) => Filter::new_simple(Column::linear_combination_with_constant(vec![(c, F::NEG_ONE)], F::ONE)),
            FilterDef::And(a, b) => Filter::new(vec![(Column::single(a), Column::single(b))], vec![]),
        }
    }
    /// the `Option<ColDef>` form used by `LookupDef` (simple filters only)
    pub fn to_simple(&self) -> Option<ColDef> {
        match *self {
            FilterDef::None => None,
            FilterDef::Col(c) => Some(ColDef::single(c)),
            FilterDef::Not(c) => Some(ColDef {
                lin: vec![(c, -1)],
                next_lin: vec![],
                constant: 1,
            }),
            FilterDef::And(..) => panic!("product filters are not available for Lookup"),
        }
    }
    /// the cell whose flip toggles (or may toggle) the filter on a row
    pub fn flip_col(&self) -> Option<usize> {
        match *self {
            FilterDef::None => None,
            FilterDef::Col(c) | FilterDef::Not(c) => Some(c),
            FilterDef::And(a, _) => Some(a),
        }
    }
    pub fn name(&self) -> &'static str {
        match self {
            FilterDef::None => "filter_none",
            FilterDef::Col(_) => "filter_col",
            FilterDef::Not(_) => "filter_not",
            FilterDef::And(..) => "filter_and",
        }
    }
}

// ------------------------------------------------------------------------------------------
// slots: a column linear combination plus the one cell that is solved to hit a target value
// ------------------------------------------------------------------------------------------

#[derive(Clone, Debug)]
pub struct Slot {
    pub col: ColDef,
    pub solve_col: usize,
    pub solve_next: bool,
    pub solve_coef: i64,
}

impl Slot {
    /// (row, column) of the cell that determines the value of this combination at `row`
    pub fn cell(&self, n: usize, row: usize) -> (usize, usize) {
        if self.solve_next {
            ((row + 1) % n, self.solve_col)
        } else {
            (row, self.solve_col)
        }
    }
    /// overwrite the solve cell so that the combination evaluates to `v` at `row`
    pub fn set(&self, trace: &mut [Vec<F>], row: usize, v: F) {
        let (r, c) = self.cell(trace.len(), row);
        trace[r][c] = F::ZERO;
        let rest = self.col.eval(trace, row);
        trace[r][c] = (v - rest) / fi(self.solve_coef);
    }
}

#[derive(Clone, Debug, PartialEq, Eq, Hash, Serialize, Deserialize)]
pub struct RawLookCol {
    pub kind: u16,
    pub a: i8,
    pub b: i8,
    pub c: i8,
    pub filt: u16,
}

fn raw_look_col() -> impl Strategy<Value = RawLookCol> {
    (any::<u16>(), -3i8..=3, -3i8..=3, -3i8..=3, any::<u16>()).prop_map(|(kind, a, b, c, filt)| RawLookCol { kind, a, b, c, filt })
}

/// kinds of value columns
pub const KINDS: [&str; 7] = ["single", "single", "scaled", "lincomb2", "next_single", "next_mixed", "alias_next"];

/// Build the `ColDef` for a value column whose solve column is `s`; `comp` is an optional read-only companion.
fn make_slot(raw: &RawLookCol, s: usize, comp: Option<usize>, allow_kinds: usize) -> (Slot, &'static str) {
    let kind = frac(raw.kind, allow_kinds.min(6));
    let (a, b, c) = (nz(raw.a), nz(raw.b), raw.c as i64);
    let (col, next, coef) = match (kind, comp) {
        (0, _) | (1, _) => (ColDef::single(s), false, 1),
        (2, _) | (3, None) => (
            ColDef {
                lin: vec![(s, a)],
                next_lin: vec![],
                constant: c,
            },
            false,
            a,
        ),
        (3, Some(q)) => (
            ColDef {
                lin: vec![(s, a), (q, b)],
                next_lin: vec![],
                constant: c,
            },
            false,
            a,
        ),
        (4, _) | (5, None) => (
            ColDef {
                lin: vec![],
                next_lin: vec![(s, 1)],
                constant: 0,
            },
            true,
            1,
        ),
        (_, None) => (ColDef::single(s), false, 1),
        (_, Some(q)) => {
            if raw.b >= 0 {
                // companion on the current row, solved cell on the next row
                (
                    ColDef {
                        lin: vec![(q, b)],
                        next_lin: vec![(s, a)],
                        constant: c,
                    },
                    true,
                    a,
                )
            } else {
                // solved cell on the current row, companion on the next row
                (
                    ColDef {
                        lin: vec![(s, a)],
                        next_lin: vec![(q, b)],
                        constant: c,
                    },
                    false,
                    a,
                )
            }
        }
    };
    let name = match kind {
        3 if comp.is_none() => "scaled",
        5 if comp.is_none() => "next_single",
        k => KINDS[k],
    };
    (
        Slot {
            col,
            solve_col: s,
            solve_next: next,
            solve_coef: coef,
        },
        name,
    )
}

// ------------------------------------------------------------------------------------------
// table under construction
// ------------------------------------------------------------------------------------------

#[derive(Clone, Debug, PartialEq, Eq, Hash, Serialize, Deserialize)]
pub struct RawComp {
    pub role: u16,
    pub a: i8,
    pub b: i8,
    pub init: u64,
    pub frees: Vec<u64>,
}

fn raw_comp() -> impl Strategy<Value = RawComp> {
    (any::<u16>(), -3i8..=3, -3i8..=3, canonical(), prop::collection::vec(canonical(), 1..4)).prop_map(|(role, a, b, init, frees)| RawComp { role, a, b, init, frees })
}

pub struct TabB {
    pub n: usize,
    pub degree: usize,
    pub used: usize,
    pub trace: Vec<Vec<F>>,
    pub constraints: Vec<Constraint>,
    pub roles: Vec<&'static str>,
    pub comps: Vec<usize>,
}

impl TabB {
    pub fn new(log_n: usize, degree: usize) -> Self {
        let n = 1 << log_n;
        TabB {
            n,
            degree,
            used: 0,
            trace: vec![vec![F::ZERO; MAX_COLS]; n],
            constraints: vec![],
            roles: vec![],
            comps: vec![],
        }
    }
    pub fn left(&self) -> usize {
        MAX_COLS - self.used
    }
    pub fn alloc(&mut self, role: &'static str) -> Result<usize, String> {
        if self.used >= MAX_COLS {
            return Err("out of columns".into());
        }
        self.used += 1;
        self.roles.push(role);
        Ok(self.used - 1)
    }
    /// a 0/1 column with the constraint x*x - x = 0 on every row (declared degree is >= 2)
    pub fn alloc_bool(&mut self, role: &'static str, constrained: bool) -> Result<usize, String> {
        let j = self.alloc(role)?;
        if constrained {
            self.constraints.push(Constraint {
                kind: Kind::Every,
                poly: Poly {
                    terms: vec![(1, vec![Var::Local(j), Var::Local(j)]), (-1, vec![Var::Local(j)])],
                },
            });
        }
        Ok(j)
    }
    /// an ordinary constrained / free column that lookups may read but never write
    pub fn add_companion(&mut self, rc: &RawComp) -> Result<usize, String> {
        let n = self.n;
        let (a, b) = (nz(rc.a), rc.b as i64);
        let role = frac(rc.role, 5);
        let j = match role {
            0 | 1 => {
                // next = a * local + b   |   next = a * local^2 + b
                let j = self.alloc(if role == 0 { "state_linear" } else { "state_square" })?;
                let vars = if role == 0 { vec![Var::Local(j)] } else { vec![Var::Local(j), Var::Local(j)] };
                self.constraints.push(Constraint {
                    kind: Kind::Transition,
                    poly: Poly {
                        terms: vec![(1, vec![Var::Next(j)]), (-a, vars), (-b, vec![])],
                    },
                });
                self.trace[0][j] = fu(rc.init);
                for i in 1..n {
                    let x = self.trace[i - 1][j];
                    self.trace[i][j] = fi(a) * if role == 0 { x } else { x * x } + fi(b);
                }
                j
            }
            2 if self.degree >= 3 => {
                let j = self.alloc("state_cube")?;
                self.constraints.push(Constraint {
                    kind: Kind::Transition,
                    poly: Poly {
                        terms: vec![(1, vec![Var::Next(j)]), (-a, vec![Var::Local(j), Var::Local(j), Var::Local(j)]), (-b, vec![])],
                    },
                });
                self.trace[0][j] = fu(rc.init);
                for i in 1..n {
                    let x = self.trace[i - 1][j];
                    self.trace[i][j] = fi(a) * x * x * x + fi(b);
                }
                j
            }
            3 => {
                let j = self.alloc_bool("bool", true)?;
                for i in 0..n {
                    self.trace[i][j] = fu(bit(&rc.frees, i, 0));
                }
                j
            }
            _ => {
                let j = self.alloc("free")?;
                for i in 0..n {
                    self.trace[i][j] = fu(rc.frees[i % rc.frees.len()].wrapping_add((i / rc.frees.len()) as u64));
                }
                j
            }
        };
        self.comps.push(j);
        Ok(j)
    }
}

fn bit(words: &[u64], r: usize, j: usize) -> u64 {
    let len = words.len();
    (words[(r + j) % len] >> ((r / len * 5 + j * 3) % 64)) & 1
}

/// shapes ordered by column count: (index into SHAPES)
fn shapes_by_cols() -> Vec<usize> {
    let mut idx: Vec<usize> = (0..SHAPES.len()).collect();
    idx.sort_by_key(|&i| (SHAPES[i].0, i));
    idx
}

#[derive(Clone, Debug)]
pub struct TableBuilt {
    pub shape: usize,
    pub def: StarkDef,
    pub trace: Vec<Vec<F>>,
    pub pis: Vec<F>,
    pub log_n: usize,
    pub lookups: Vec<LookupBuilt>,
    pub roles: Vec<&'static str>,
}

/// Pick a shape that fits, fill the padding columns, tie public inputs to companion cells.
fn finish_table(tb: TabB, log_n: usize, shape_raw: u16, pad_seed: u64, lookups: Vec<LookupBuilt>, requires_ctls: bool) -> TableBuilt {
    let fitting: Vec<usize> = shapes_by_cols().into_iter().filter(|&i| SHAPES[i].0 >= tb.used).collect();
    let shape = fitting[frac(shape_raw, fitting.len().min(3))];
    let (cols, pis_n) = SHAPES[shape];
    let n = tb.n;
    let mut roles = tb.roles.clone();
    let mut trace: Vec<Vec<F>> = tb.trace.iter().map(|r| r[..cols].to_vec()).collect();
    for j in tb.used..cols {
        roles.push("pad_free");
        for (i, row) in trace.iter_mut().enumerate() {
            row[j] = fu(pad_seed.wrapping_add((i * 31 + j * 7) as u64));
        }
    }
    let mut constraints = tb.constraints.clone();
    let mut pis = vec![F::ZERO; pis_n];
    for k in 0..pis_n {
        if tb.comps.is_empty() {
            pis[k] = fu(pad_seed.rotate_left(k as u32 + 1));
            continue;
        }
        let col = tb.comps[k % tb.comps.len()];
        let first = (pad_seed >> k) & 1 == 0;
        pis[k] = if first { trace[0][col] } else { trace[n - 1][col] };
        constraints.push(Constraint {
            kind: if first { Kind::First } else { Kind::Last },
            poly: Poly {
                terms: vec![(1, vec![Var::Local(col)]), (-1, vec![Var::Pi(k)])],
            },
        });
    }
    let def = StarkDef {
        cols,
        pis: pis_n,
        degree: tb.degree,
        constraints,
        lookups: lookups.iter().map(|l| l.def.clone()).collect(),
        requires_ctls,
    };
    TableBuilt {
        shape,
        def,
        trace,
        pis,
        log_n,
        lookups,
        roles,
    }
}

// ------------------------------------------------------------------------------------------
// (a) Lookup
// ------------------------------------------------------------------------------------------

#[derive(Clone, Debug, PartialEq, Eq, Hash, Serialize, Deserialize)]
pub struct RawLookup {
    pub n_cols: u16,
    pub cols: Vec<RawLookCol>,
    pub table: RawLookCol,
    pub freq: RawLookCol,
    pub table_mode: u16,
    pub base: u64,
    pub seeds: Vec<u64>,
    pub pick_mode: u16,
    pub picks: Vec<u16>,
    pub fbits: Vec<u64>,
    pub bool_filters: bool,
    pub garbage: u64,
}

pub fn raw_lookup() -> BoxedStrategy<RawLookup> {
    bx((
        (any::<u16>(), prop::collection::vec(raw_look_col(), 5..=5), raw_look_col(), raw_look_col()),
        (any::<u16>(), canonical(), prop::collection::vec(canonical(), 1..6)),
        (any::<u16>(), prop::collection::vec(any::<u16>(), 6..20), prop::collection::vec(any::<u64>(), 1..4), any::<bool>(), canonical()),
    )
        .prop_map(|((n_cols, cols, table, freq), (table_mode, base, seeds), (pick_mode, picks, fbits, bool_filters, garbage))| RawLookup {
            n_cols,
            cols,
            table,
            freq,
            table_mode,
            base,
            seeds,
            pick_mode,
            picks,
            fbits,
            bool_filters,
            garbage,
        }))
}

#[derive(Clone, Debug)]
pub struct LookupBuilt {
    pub def: LookupDef,
    pub filters: Vec<FilterDef>,
    /// per looking column; `None` for an alias column (its values are those of another column's cells)
    pub slots: Vec<Option<Slot>>,
    pub kinds: Vec<&'static str>,
    pub table_slot: Slot,
    pub freq_slot: Slot,
    pub table_mode: &'static str,
}

impl LookupBuilt {
    /// write the frequency column so that the multiset relation holds for the current trace;
    /// Err if a filtered looking value is not a table value
    pub fn fill_frequencies(&self, trace: &mut [Vec<F>], split_duplicates: bool) -> Result<(), String> {
        let n = trace.len();
        let mut first_row: BTreeMap<u64, usize> = BTreeMap::new();
        let mut dup_of: Vec<Option<usize>> = vec![None; n];
        for r in 0..n {
            let t = cu(self.def.table.eval(trace, r));
            match first_row.get(&t) {
                Some(&r0) => dup_of[r] = Some(r0),
                None => {
                    first_row.insert(t, r);
                }
            }
        }
        let mut count = vec![0u64; n];
        for (k, col) in self.def.columns.iter().enumerate() {
            for r in 0..n {
                let f = self.filters[k].eval(&trace[r]);
                if f.is_zero() {
                    continue;
                }
                if !f.is_one() {
                    return Err(format!("filter of looking column {} is not 0/1 on row {}", k, r));
                }
                let v = cu(col.eval(trace, r));
                match first_row.get(&v) {
                    Some(&r0) => count[r0] += 1,
                    None => return Err(format!("looking column {} row {}: value {} is not a table value", k, r, v)),
                }
            }
        }
        if split_duplicates {
            for r in 0..n {
                if let Some(r0) = dup_of[r] {
                    let moved = count[r0] / 2;
                    count[r0] -= moved;
                    count[r] += moved;
                }
            }
        }
        for r in 0..n {
            self.freq_slot.set(trace, r, fu(count[r]));
        }
        Ok(())
    }
}

fn pick_idx(raw: &RawLookup, k: usize, r: usize, n: usize) -> usize {
    let len = raw.picks.len();
    let p = raw.picks[(r + 13 * k) % len] as usize;
    match frac(raw.pick_mode, 5) {
        0 | 1 => (p + (r / len) * 7) % n,
        2 => p % 2,
        3 => (p % 3 + (r / len)) % n,
        _ => (r + k + p % 2) % n,
    }
}

/// Allocate and fill one lookup inside `tb`. `share` = reuse the table column of an earlier lookup.
pub fn build_lookup(tb: &mut TabB, raw: &RawLookup, max_looking: usize, share: Option<&LookupBuilt>, allow_dups: bool) -> Result<LookupBuilt, String> {
    let n = tb.n;
    let min_need = if share.is_some() { 2 } else { 3 };
    if tb.left() < min_need {
        return Err("no room for a lookup".into());
    }
    let comp = |tb: &TabB, i: usize| -> Option<usize> {
        if tb.comps.is_empty() {
            None
        } else {
            Some(tb.comps[i % tb.comps.len()])
        }
    };
    // ---- table and frequencies (current-row combinations: the constraints read them on the local row only)
    let mut table_mode = ["arith", "random", "range", "duplicate", "random"][frac(raw.table_mode, 5)];
    if table_mode == "duplicate" && !allow_dups {
        table_mode = "random";
    }
    let table_slot = match share {
        Some(s) => {
            table_mode = s.table_mode;
            s.table_slot.clone()
        }
        None => {
            let t = tb.alloc("table")?;
            // probe (off by default): PV_C10_TABLE_NEXT=1 also allows next-row terms in the table column, which the
            // prover's helper computation honours but the constraints (evaluated on the local row only) ignore
            make_slot(&raw.table, t, comp(tb, 1), if std::env::var("PV_C10_TABLE_NEXT").is_ok() { 6 } else { 4 }).0
        }
    };
    let m = tb.alloc("frequencies")?;
    let freq_slot = {
        let a = [1i64, 1, -1, 2][frac(raw.freq.kind, 4)];
        let c = if raw.freq.filt & 1 == 0 { 0 } else { raw.freq.c as i64 };
        Slot {
            col: ColDef {
                lin: vec![(m, a)],
                next_lin: vec![],
                constant: c,
            },
            solve_col: m,
            solve_next: false,
            solve_coef: a,
        }
    };
    // ---- looking columns
    let want = [1usize, 2, 3, 4, 5, 2, 1, 3][frac(raw.n_cols, 8)].min(max_looking);
    let mut slots: Vec<Option<Slot>> = vec![];
    let mut kinds: Vec<&'static str> = vec![];
    let mut coldefs: Vec<ColDef> = vec![];
    let mut aliased: BTreeSet<usize> = BTreeSet::new(); // solve columns that are also read on the next row
    for k in 0..want {
        let rc = &raw.cols[k];
        // alias: read the solve column of an earlier plain single column on the next row
        if frac(rc.kind, 7) == 6 {
            if let Some(j) = (0..k).find(|&j| kinds[j] == "single") {
                let s = slots[j].as_ref().unwrap().solve_col;
                aliased.insert(s);
                slots.push(None);
                kinds.push("alias_next");
                coldefs.push(ColDef {
                    lin: vec![],
                    next_lin: vec![(s, 1)],
                    constant: 0,
                });
                continue;
            }
        }
        if tb.left() == 0 {
            break;
        }
        let s = tb.alloc("looking")?;
        let (slot, name) = make_slot(rc, s, comp(tb, k), 6);
        coldefs.push(slot.col.clone());
        slots.push(Some(slot));
        kinds.push(name);
    }
    if coldefs.is_empty() {
        return Err("no looking column".into());
    }
    // ---- filters (at most two filter columns, shared)
    let mut fcols: Vec<usize> = vec![];
    let mut filters: Vec<FilterDef> = vec![];
    for k in 0..coldefs.len() {
        let rc = &raw.cols[k];
        let f = match frac(rc.filt, 5) {
            0 | 1 => FilterDef::None,
            x => {
                let which = k % 2;
                while fcols.len() <= which && tb.left() > 0 {
                    fcols.push(tb.alloc_bool("filter", raw.bool_filters)?);
                }
                match fcols.get(which).or(fcols.first()) {
                    None => FilterDef::None,
                    Some(&c) => {
                        if x == 4 {
                            FilterDef::Not(c)
                        } else {
                            FilterDef::Col(c)
                        }
                    }
                }
            }
        };
        filters.push(f);
    }
    for (j, &c) in fcols.iter().enumerate() {
        for r in 0..n {
            tb.trace[r][c] = fu(bit(&raw.fbits, r, j));
        }
    }
    // ---- table values
    if share.is_none() {
        let mut seen: BTreeSet<u64> = BTreeSet::new();
        for r in 0..n {
            let mut v = match table_mode {
                "arith" => raw.base.wrapping_add((r as u64) * (1 + (raw.table.b.unsigned_abs() as u64))) % P,
                "range" => r as u64,
                _ => raw.seeds[r % raw.seeds.len()].wrapping_add(((r / raw.seeds.len()) as u64) << 20) % P,
            };
            while seen.contains(&v) {
                v = (v + 1) % P;
            }
            seen.insert(v);
            table_slot.set(&mut tb.trace, r, fu(v));
        }
        if table_mode == "duplicate" {
            let v0 = table_slot.col.eval(&tb.trace, 0);
            table_slot.set(&mut tb.trace, 1, v0);
        }
    }
    let tvals: Vec<F> = (0..n).map(|r| table_slot.col.eval(&tb.trace, r)).collect();
    // ---- looking values
    for (k, slot) in slots.iter().enumerate() {
        let Some(slot) = slot else { continue };
        let always = aliased.contains(&slot.solve_col);
        for r in 0..n {
            let on = filters[k].eval(&tb.trace[r]).is_one();
            let v = if on || always {
                tvals[pick_idx(raw, k, r, n)]
            } else {
                fu(raw.garbage.wrapping_add((r * 17 + k * 5) as u64))
            };
            slot.set(&mut tb.trace, r, v);
        }
    }
    let built = LookupBuilt {
        def: LookupDef {
            columns: coldefs,
            table: table_slot.col.clone(),
            freq: freq_slot.col.clone(),
            filters: filters.iter().map(|f| f.to_simple()).collect(),
        },
        filters,
        slots,
        kinds,
        table_slot,
        freq_slot,
        table_mode,
    };
    built.fill_frequencies(&mut tb.trace, true)?;
    Ok(built)
}

#[derive(Clone, Debug, PartialEq, Eq, Hash, Serialize, Deserialize)]
pub struct RawLkStark {
    pub shape: u16,
    pub degree: u16,
    pub log_n: u16,
    pub two: u16,
    pub share_table: bool,
    pub n_comp: u16,
    pub comps: Vec<RawComp>,
    pub lookups: Vec<RawLookup>,
    pub pad: u64,
    pub config: RawStarkConfig,
}

pub fn raw_lk_stark() -> BoxedStrategy<RawLkStark> {
    bx((
        (any::<u16>(), any::<u16>(), any::<u16>(), any::<u16>(), any::<bool>(), any::<u16>()),
        prop::collection::vec(raw_comp(), 2..=2),
        prop::collection::vec(raw_lookup(), 2..=2),
        canonical(),
        raw_stark_config(),
    )
        .prop_map(|((shape, degree, log_n, two, share_table, n_comp), comps, lookups, pad, config)| RawLkStark {
            shape,
            degree,
            log_n,
            two,
            share_table,
            n_comp,
            comps,
            lookups,
            pad,
            config,
        }))
}

pub fn lookup_limits() -> StarkLimits {
    StarkLimits {
        min_log_n: 2,
        max_log_n: 6,
        min_queries: 1,
        max_queries: 6,
        max_pow: 4,
        min_degree: 2,
        max_degree: 3,
    }
}

#[derive(Clone, Debug)]
pub struct LkStark {
    pub table: TableBuilt,
    pub config: StarkConfig,
    pub labels: Vec<String>,
}

pub fn build_lookup_stark(raw: &RawLkStark) -> Result<LkStark, String> {
    let lim = lookup_limits();
    let degree = 2 + frac(raw.degree, 2);
    let log_n = lim.min_log_n + frac(raw.log_n, lim.max_log_n - lim.min_log_n + 1);
    let (config, mut labels) = elaborate_stark_config(&raw.config, log_n, &lim, 1);
    let mut tb = TabB::new(log_n, degree);
    let n_comp = [0usize, 1, 2, 0][frac(raw.n_comp, 4)];
    for rc in raw.comps.iter().take(n_comp) {
        tb.add_companion(rc)?;
    }
    let two = frac(raw.two, 3) == 2;
    let first_max = if two { 4 } else { 5 };
    let mut lookups = vec![build_lookup(&mut tb, &raw.lookups[0], first_max, None, true)?];
    if two {
        let share = if raw.share_table { Some(lookups[0].clone()) } else { None };
        if let Ok(l) = build_lookup(&mut tb, &raw.lookups[1], 5, share.as_ref(), true) {
            lookups.push(l);
            if share.is_some() {
                labels.push("shared_table".into());
            }
        }
    }
    labels.push(format!("degree{}", degree));
    labels.push(format!("log_n{}", log_n));
    labels.push(format!("lookups{}", lookups.len()));
    for l in &lookups {
        labels.push(format!("looking_cols{}", l.def.columns.len()));
        labels.push(format!("table_{}", l.table_mode));
        for k in &l.kinds {
            labels.push(format!("col_{}", k));
        }
        for f in &l.filters {
            labels.push(f.name().into());
        }
        if l.table_slot.col.lin.len() > 1 || l.table_slot.col.constant != 0 || l.table_slot.solve_coef != 1 {
            labels.push("table_lincomb".into());
        }
        if l.freq_slot.col.constant != 0 || l.freq_slot.solve_coef != 1 {
            labels.push("freq_lincomb".into());
        }
    }
    let table = finish_table(tb, log_n, raw.shape, raw.pad, lookups, false);
    labels.push(format!("cols{}_pis{}", table.def.cols, table.def.pis));
    Ok(LkStark { table, config, labels })
}

/// layout of the lookup part of the auxiliary polynomials: (lookup, challenge, first index, number of helper columns);
/// the running sum `Z` follows the helper columns
pub fn lookup_aux_layout(def: &StarkDef, num_challenges: usize) -> (Vec<(usize, usize, usize, usize)>, usize) {
    let mut out = vec![];
    let mut start = 0;
    for (l, lk) in def.lookups.iter().enumerate() {
        let h = lk.columns.len().div_ceil(def.degree - 1);
        for c in 0..num_challenges {
            out.push((l, c, start, h));
            start += h + 1;
        }
    }
    (out, start)
}

// ------------------------------------------------------------------------------------------
// oracle (a): logUp relation  sum_{filtered looking} 1/(X+f) = sum_rows m/(X+t)
// ------------------------------------------------------------------------------------------

pub struct LookupVerdict {
    /// None = relation holds; Some(first mismatching value)
    pub defect: Option<String>,
    pub filtered_values: usize,
    pub used_table_rows: usize,
}

/// Err = a filter is not 0/1 valued (outside the statement).
pub fn lookup_verdict(l: &LookupBuilt, trace: &[Vec<F>]) -> Result<LookupVerdict, String> {
    let n = trace.len();
    let mut balance: BTreeMap<u64, F> = BTreeMap::new();
    let mut filtered_values = 0;
    for (k, col) in l.def.columns.iter().enumerate() {
        for r in 0..n {
            let f = l.filters[k].eval(&trace[r]);
            if f.is_zero() {
                continue;
            }
            if !f.is_one() {
                return Err(format!("filter {} is {} on row {}", k, cu(f), r));
            }
            filtered_values += 1;
            *balance.entry(cu(col.eval(trace, r))).or_insert(F::ZERO) += F::ONE;
        }
    }
    let mut used_table_rows = 0;
    for r in 0..n {
        let t = cu(l.def.table.eval(trace, r));
        let m = l.def.freq.eval(trace, r);
        if m.is_nonzero() {
            used_table_rows += 1;
        }
        *balance.entry(t).or_insert(F::ZERO) -= m;
    }
    let defect = balance.iter().find(|(_, b)| b.is_nonzero()).map(|(v, b)| format!("value {} has looking count - declared frequency = {}", v, cu(*b)));
    Ok(LookupVerdict {
        defect,
        filtered_values,
        used_table_rows,
    })
}

// ------------------------------------------------------------------------------------------
// (b) cross-table lookups
// ------------------------------------------------------------------------------------------

#[derive(Clone, Debug, PartialEq, Eq, Hash, Serialize, Deserialize)]
pub struct RawSide {
    pub table: u16,
    pub filt: u16,
    pub cols: Vec<RawLookCol>,
    pub stride: u16,
    pub off: u16,
}

fn raw_side() -> impl Strategy<Value = RawSide> {
    (any::<u16>(), any::<u16>(), prop::collection::vec(raw_look_col(), 3..=3), any::<u16>(), any::<u16>()).prop_map(|(table, filt, cols, stride, off)| RawSide { table, filt, cols, stride, off })
}

#[derive(Clone, Debug, PartialEq, Eq, Hash, Serialize, Deserialize)]
pub struct RawCtl {
    pub width: u16,
    pub looked: RawSide,
    pub n_looking: u16,
    pub looking: Vec<RawSide>,
    pub m: u16,
    pub assign: Vec<u16>,
    pub extras: u16,
    pub seeds: Vec<u64>,
    pub value_mode: u16,
    pub garbage: u64,
}

fn raw_ctl() -> impl Strategy<Value = RawCtl> {
    (
        (any::<u16>(), raw_side(), any::<u16>(), prop::collection::vec(raw_side(), 3..=3)),
        (any::<u16>(), prop::collection::vec(any::<u16>(), 4..12), any::<u16>()),
        (prop::collection::vec(canonical(), 1..6), any::<u16>(), canonical()),
    )
        .prop_map(|((width, looked, n_looking, looking), (m, assign, extras), (seeds, value_mode, garbage))| RawCtl {
            width,
            looked,
            n_looking,
            looking,
            m,
            assign,
            extras,
            seeds,
            value_mode,
            garbage,
        })
}

#[derive(Clone, Debug, PartialEq, Eq, Hash, Serialize, Deserialize)]
pub struct RawTab {
    pub log_n: u16,
    pub shape: u16,
    pub n_comp: u16,
    pub comps: Vec<RawComp>,
    pub with_lookup: u16,
    pub lookup: RawLookup,
    pub enable_bits: Vec<u64>,
    pub bool_filters: bool,
    pub pad: u64,
}

fn raw_tab() -> impl Strategy<Value = RawTab> {
    (
        (any::<u16>(), any::<u16>(), any::<u16>(), prop::collection::vec(raw_comp(), 2..=2)),
        (any::<u16>(), raw_lookup(), prop::collection::vec(any::<u64>(), 1..3), any::<bool>(), canonical()),
    )
        .prop_map(|((log_n, shape, n_comp, comps), (with_lookup, lookup, enable_bits, bool_filters, pad))| RawTab {
            log_n,
            shape,
            n_comp,
            comps,
            with_lookup,
            lookup,
            enable_bits,
            bool_filters,
            pad,
        })
}

#[derive(Clone, Debug, PartialEq, Eq, Hash, Serialize, Deserialize)]
pub struct RawCtlSys {
    pub three: u16,
    pub degree: u16,
    pub same_height: u16,
    pub two_ctls: u16,
    pub tables: Vec<RawTab>,
    pub ctls: Vec<RawCtl>,
    pub config: RawStarkConfig,
}

pub fn raw_ctl_sys() -> BoxedStrategy<RawCtlSys> {
    bx((
        (any::<u16>(), any::<u16>(), any::<u16>(), any::<u16>()),
        prop::collection::vec(raw_tab(), 3..=3),
        prop::collection::vec(raw_ctl(), 2..=2),
        raw_stark_config(),
    )
        .prop_map(|((three, degree, same_height, two_ctls), tables, ctls, config)| RawCtlSys {
            three,
            degree,
            same_height,
            two_ctls,
            tables,
            ctls,
            config,
        }))
}

/// One side (looking entry or looked table) of a cross-table lookup.
#[derive(Clone, Debug)]
pub struct SideBuilt {
    pub table: usize,
    pub slots: Vec<Slot>,
    pub filter: FilterDef,
    /// rows selected by construction
    pub selected: Vec<usize>,
}

impl SideBuilt {
    pub fn tuple(&self, trace: &[Vec<F>], row: usize) -> Vec<F> {
        self.slots.iter().map(|s| s.col.eval(trace, row)).collect()
    }
    pub fn to_twc(&self) -> TableWithColumns<F> {
        TableWithColumns::new(self.table, self.slots.iter().map(|s| s.col.to_column()).collect(), self.filter.to_filter())
    }
}

#[derive(Clone, Debug)]
pub struct CtlBuilt {
    /// sorted by table index (the library groups *adjacent* entries of the same table)
    pub looking: Vec<SideBuilt>,
    pub looked: SideBuilt,
    pub extras: Vec<Vec<F>>,
    pub width: usize,
}

impl CtlBuilt {
    pub fn to_ctl(&self) -> CrossTableLookup<F> {
        CrossTableLookup::new(self.looking.iter().map(|s| s.to_twc()).collect(), self.looked.to_twc())
    }
    /// looking tables in order of first appearance, with the positions of their entries
    pub fn groups(&self) -> Vec<(usize, Vec<usize>)> {
        let mut out: Vec<(usize, Vec<usize>)> = vec![];
        for (i, s) in self.looking.iter().enumerate() {
            match out.last_mut() {
                Some((t, v)) if *t == s.table => v.push(i),
                _ => out.push((s.table, vec![i])),
            }
        }
        out
    }
}

#[derive(Clone, Debug)]
pub struct CtlSystem {
    pub n_tables: usize,
    pub degree: usize,
    pub tables: Vec<TableBuilt>,
    pub ctls: Vec<CtlBuilt>,
    pub config: StarkConfig,
    pub labels: Vec<String>,
}

pub fn ctl_limits() -> StarkLimits {
    StarkLimits {
        min_log_n: 2,
        max_log_n: 5,
        min_queries: 1,
        max_queries: 5,
        max_pow: 3,
        min_degree: 2,
        max_degree: 3,
    }
}

/// A config admissible for every table height of the system.
fn fit_config(raw: &RawStarkConfig, log_ns: &[usize], lim: &StarkLimits) -> (StarkConfig, Vec<String>) {
    let min_log = *log_ns.iter().min().unwrap();
    let (mut config, labels) = elaborate_stark_config(raw, min_log, lim, 1);
    for _ in 0..4 {
        let fc = &config.fri_config;
        let mut cap = fc.cap_height;
        for &l in log_ns {
            let lde = l + fc.rate_bits;
            let total: usize = fc.reduction_strategy.reduction_arity_bits(l, fc.rate_bits, cap, fc.num_query_rounds).iter().sum();
            if total + cap > lde {
                cap = lde - total.min(lde);
            }
        }
        if cap == fc.cap_height {
            break;
        }
        config.fri_config.cap_height = cap;
    }
    let fc = &config.fri_config;
    let ok = log_ns.iter().all(|&l| {
        let total: usize = fc.reduction_strategy.reduction_arity_bits(l, fc.rate_bits, fc.cap_height, fc.num_query_rounds).iter().sum();
        total + fc.cap_height <= l + fc.rate_bits && total <= l
    });
    if !ok {
        config.fri_config.reduction_strategy = FriReductionStrategy::ConstantArityBits(1, 0);
        config.fri_config.cap_height = 0;
    }
    (config, labels)
}

struct Plan {
    n: usize,
    degree: usize,
    log_ns: Vec<usize>,
    n_ctls: usize,
    max_width: usize,
    max_entries: usize,
    table_lookups: bool,
    comps: bool,
    and_filters: bool,
}

pub fn build_ctl_system(raw: &RawCtlSys) -> Result<CtlSystem, String> {
    let lim = ctl_limits();
    let n = 2 + (frac(raw.three, 2));
    // Cross-table lookups need a declared degree of 3: the last-row constraint `combine * Z - filter` has degree 2
    // and is multiplied by the Lagrange selector of degree n-1, which only fits a quotient of degree factor >= 2.
    let degree = if std::env::var("PV_C10_CTL_DEGREE2").is_ok() { 2 + frac(raw.degree, 2) } else { 3 };
    let mut log_ns: Vec<usize> = (0..n).map(|t| lim.min_log_n + frac(raw.tables[t].log_n, lim.max_log_n - lim.min_log_n + 1)).collect();
    if frac(raw.same_height, 3) == 0 {
        let l0 = log_ns[0];
        log_ns.iter_mut().for_each(|l| *l = l0);
    }
    let n_ctls = 1 + (frac(raw.two_ctls, 5) >= 3) as usize;
    let mut last_err = String::new();
    for level in 0..5 {
        let plan = Plan {
            n,
            degree,
            log_ns: log_ns.clone(),
            n_ctls: if level >= 4 { 1 } else { n_ctls },
            max_width: [3, 3, 2, 1, 1][level],
            max_entries: [3, 3, 2, 2, 1][level],
            table_lookups: level == 0,
            comps: level <= 1,
            and_filters: level <= 2,
        };
        match try_build(raw, &plan, &lim) {
            Ok(mut s) => {
                s.labels.push(format!("degrade_level{}", level));
                return Ok(s);
            }
            Err(e) => last_err = e,
        }
    }
    Err(format!("could not fit the system: {}", last_err))
}

fn try_build(raw: &RawCtlSys, plan: &Plan, lim: &StarkLimits) -> Result<CtlSystem, String> {
    let n = plan.n;
    let (config, mut labels) = fit_config(&raw.config, &plan.log_ns, lim);
    let mut tbs: Vec<TabB> = plan.log_ns.iter().map(|&l| TabB::new(l, plan.degree)).collect();
    let mut table_lookups: Vec<Vec<LookupBuilt>> = vec![vec![]; n];
    // companions, table-local lookups
    for t in 0..n {
        let rt = &raw.tables[t];
        if plan.comps {
            let n_comp = [0usize, 1, 2, 1][frac(rt.n_comp, 4)];
            for rc in rt.comps.iter().take(n_comp) {
                tbs[t].add_companion(rc)?;
            }
        }
        if plan.table_lookups && frac(rt.with_lookup, 3) == 0 {
            // duplicates in the table column are exercised in part (a) only
            let l = build_lookup(&mut tbs[t], &rt.lookup, 2, None, false)?;
            table_lookups[t].push(l);
        }
    }
    // ---- allocate the sides of every CTL
    struct SidePlan {
        table: usize,
        slots: Vec<Slot>,
        filter: FilterDef,
        /// 0 = None requested, otherwise a filter column exists
        wants_none: bool,
    }
    let mut enable_col: Vec<Option<usize>> = vec![None; n];
    let mut alloc_side = |tbs: &mut Vec<TabB>, rs: &RawSide, table: usize, width: usize| -> Result<SidePlan, String> {
        let tb = &mut tbs[table];
        let mut slots = vec![];
        for i in 0..width {
            let s = tb.alloc("ctl_value")?;
            let comp = if tb.comps.is_empty() { None } else { Some(tb.comps[(i + s) % tb.comps.len()]) };
            slots.push(make_slot(&rs.cols[i], s, comp, 6).0);
        }
        let constrained = raw.tables[table].bool_filters;
        let c = tb.alloc_bool("ctl_filter", constrained)?;
        let kind = frac(rs.filt, 6);
        let filter = match kind {
            0 | 1 | 2 => FilterDef::Col(c),
            3 => FilterDef::Not(c),
            4 if plan.and_filters => {
                let e = match enable_col[table] {
                    Some(e) => e,
                    None => {
                        let e = tb.alloc_bool("ctl_enable", constrained)?;
                        enable_col[table] = Some(e);
                        e
                    }
                };
                FilterDef::And(c, e)
            }
            _ => FilterDef::Col(c),
        };
        Ok(SidePlan {
            table,
            slots,
            filter,
            wants_none: kind == 5 || kind == 2,
        })
    };
    let mut ctl_plans: Vec<(SidePlan, Vec<SidePlan>, usize)> = vec![];
    for ci in 0..plan.n_ctls {
        let rc = &raw.ctls[ci];
        let width = (1 + frac(rc.width, 3)).min(plan.max_width);
        // the first CTL is looked up in table 0 and covers every other table; later ones are free
        let looked_t = if ci == 0 { 0 } else { frac(rc.looked.table, n) };
        let others: Vec<usize> = (0..n).filter(|&t| t != looked_t).collect();
        let mut tables: Vec<usize> = if ci == 0 { others.clone() } else { vec![] };
        let n_looking = (1 + frac(rc.n_looking, 3)).min(plan.max_entries).max(tables.len());
        let mut i = 0;
        while tables.len() < n_looking {
            tables.push(others[frac(rc.looking[i % 3].table, others.len())]);
            i += 1;
        }
        tables.sort(); // entries of the same table must be adjacent
        let looked = alloc_side(&mut tbs, &rc.looked, looked_t, width)?;
        let mut looking = vec![];
        for (i, &t) in tables.iter().enumerate() {
            looking.push(alloc_side(&mut tbs, &rc.looking[i % 3], t, width)?);
        }
        ctl_plans.push((looked, looking, width));
    }
    // ---- fill
    // shared enable columns: 1 where needed, arbitrary elsewhere; start from arbitrary bits
    for t in 0..n {
        if let Some(e) = enable_col[t] {
            for r in 0..tbs[t].n {
                tbs[t].trace[r][e] = fu(bit(&raw.tables[t].enable_bits, r, 1));
            }
        }
    }
    let mut ctls = vec![];
    for (ci, (looked_p, looking_p, width)) in ctl_plans.into_iter().enumerate() {
        let rc = &raw.ctls[ci];
        let n0 = tbs[looked_p.table].n;
        let n_extra_max = [0usize, 0, 1, 3][frac(rc.extras, 4)];
        let capacity: usize = looking_p.iter().map(|s| tbs[s.table].n).sum::<usize>() + n_extra_max;
        let m_choices = [n0, 2, 3, n0 / 2, n0 - 1, n0];
        let m = if frac(rc.m, 8) < 6 { m_choices[frac(rc.m, 8)] } else { 2 + frac(rc.m.wrapping_mul(7919), n0 - 1) };
        let m = m.clamp(2, n0).min(capacity);
        // tuple values
        let value = |j: usize, i: usize| -> F {
            let idx = j * width + i;
            match frac(rc.value_mode, 4) {
                0 => fu((idx % 5) as u64 + (rc.seeds[0] % 3)),                            // small values, many repeats
                1 => fu(rc.seeds[(j / 2 * width + i) % rc.seeds.len()].wrapping_add((j / 2 / rc.seeds.len()) as u64)), // pairs of equal tuples
                _ => fu(rc.seeds[idx % rc.seeds.len()].wrapping_add(((idx / rc.seeds.len()) as u64) << 8)),
            }
        };
        let tuples: Vec<Vec<F>> = (0..m).map(|j| (0..width).map(|i| value(j, i)).collect()).collect();
        // distribute the tuples over the looking entries and the extra values
        let n_bins = looking_p.len() + (n_extra_max > 0) as usize;
        let caps: Vec<usize> = looking_p.iter().map(|s| tbs[s.table].n).chain((n_extra_max > 0).then_some(n_extra_max)).collect();
        let mut bins: Vec<Vec<usize>> = vec![vec![]; n_bins];
        for j in 0..m {
            let mut b = if j < looking_p.len() { j } else { frac(rc.assign[j % rc.assign.len()].wrapping_add((j as u16).wrapping_mul(977)), n_bins) };
            let mut tries = 0;
            while bins[b].len() >= caps[b] {
                b = (b + 1) % n_bins;
                tries += 1;
                if tries > n_bins {
                    return Err("no capacity".into());
                }
            }
            bins[b].push(j);
        }
        let extras: Vec<Vec<F>> = if n_extra_max > 0 { bins[n_bins - 1].iter().map(|&j| tuples[j].clone()).collect() } else { vec![] };
        // fill one side: `which[k]` = index of the tuple placed on the k-th selected row
        let fill = |tbs: &mut Vec<TabB>, sp: SidePlan, which: &[usize], rs: &RawSide| -> SideBuilt {
            let tb = &mut tbs[sp.table];
            let nn = tb.n;
            let stride = 2 * frac(rs.stride, nn / 2) + 1;
            let off = frac(rs.off, nn);
            let mut sel: Vec<Option<usize>> = vec![None; nn];
            let mut selected = vec![];
            for (k, &j) in which.iter().enumerate() {
                let r = (off + k * stride) % nn;
                sel[r] = Some(j);
                selected.push(r);
            }
            let filter = if sp.wants_none && which.len() == nn { FilterDef::None } else { sp.filter.clone() };
            for r in 0..nn {
                for (i, s) in sp.slots.iter().enumerate() {
                    let v = match sel[r] {
                        Some(j) => tuples[j][i],
                        None => fu(rc.garbage.wrapping_add((r * 13 + i * 3 + sp.table * 101) as u64)),
                    };
                    s.set(&mut tb.trace, r, v);
                }
                let on = sel[r].is_some();
                match sp.filter {
                    FilterDef::Col(c) => tb.trace[r][c] = fu(on as u64),
                    FilterDef::Not(c) => tb.trace[r][c] = fu(!on as u64),
                    FilterDef::And(a, e) => {
                        if on {
                            tb.trace[r][a] = F::ONE;
                            tb.trace[r][e] = F::ONE;
                        } else if tb.trace[r][e].is_one() {
                            tb.trace[r][a] = F::ZERO;
                        } else {
                            tb.trace[r][a] = fu(bit(&[rc.garbage], r, 0));
                        }
                    }
                    FilterDef::None => {}
                }
            }
            SideBuilt {
                table: sp.table,
                slots: sp.slots,
                filter,
                selected,
            }
        };
        let all: Vec<usize> = (0..m).collect();
        let looked = fill(&mut tbs, looked_p, &all, &rc.looked);
        let mut looking = vec![];
        for (i, sp) in looking_p.into_iter().enumerate() {
            looking.push(fill(&mut tbs, sp, &bins[i], &rc.looking[i % 3]));
        }
        labels.push(format!("ctl_width{}", width));
        labels.push(format!("ctl_looking_entries{}", looking.len()));
        labels.push(format!("ctl_extras{}", extras.len().min(2)));
        ctls.push(CtlBuilt {
            looking,
            looked,
            extras,
            width,
        });
    }
    // An `And` filter shares the enable column between sides: a later side may have switched a row of an
    // earlier side on or off. Re-derive the `a` cells of unselected rows so that every side selects exactly
    // its rows.
    for ctl in &ctls {
        for s in ctl.looking.iter().chain(std::iter::once(&ctl.looked)) {
            if let FilterDef::And(a, e) = s.filter {
                let tb = &mut tbs[s.table];
                for r in 0..tb.n {
                    if !s.selected.contains(&r) && tb.trace[r][e].is_one() {
                        tb.trace[r][a] = F::ZERO;
                    }
                }
            }
        }
    }
    // the table-local lookups may read companions only, so they are unaffected by the CTL fill
    labels.push(format!("tables{}", n));
    labels.push(format!("degree{}", plan.degree));
    labels.push(format!("ctls{}", ctls.len()));
    if plan.log_ns.iter().any(|&l| l != plan.log_ns[0]) {
        labels.push("mixed_heights".into());
    }
    let mut tables = vec![];
    for (t, tb) in tbs.into_iter().enumerate() {
        let rt = &raw.tables[t];
        let lks = std::mem::take(&mut table_lookups[t]);
        if !lks.is_empty() {
            labels.push("table_with_lookup".into());
        }
        let log_n = plan.log_ns[t];
        let tbuilt = finish_table(tb, log_n, rt.shape, rt.pad, lks, true);
        labels.push(format!("log_n{}", log_n));
        labels.push(format!("cols{}_pis{}", tbuilt.def.cols, tbuilt.def.pis));
        tables.push(tbuilt);
    }
    for ctl in &ctls {
        for (_, g) in ctl.groups() {
            labels.push(format!("group_size{}", g.len()));
        }
        for s in ctl.looking.iter().chain(std::iter::once(&ctl.looked)) {
            labels.push(s.filter.name().into());
            for sl in &s.slots {
                if !sl.col.next_lin.is_empty() {
                    labels.push("ctl_col_next_row".into());
                } else if sl.col.lin.len() > 1 || sl.col.constant != 0 || sl.solve_coef != 1 {
                    labels.push("ctl_col_lincomb".into());
                } else {
                    labels.push("ctl_col_single".into());
                }
            }
        }
    }
    Ok(CtlSystem {
        n_tables: n,
        degree: plan.degree,
        tables,
        ctls,
        config,
        labels,
    })
}

// ------------------------------------------------------------------------------------------
// oracle (b): multiset of filtered looking tuples (+ extras) == multiset of filtered looked tuples
// ------------------------------------------------------------------------------------------

pub struct CtlVerdict {
    pub defect: Option<String>,
    pub looking_rows: usize,
    pub looked_rows: usize,
}

fn side_tuples(s: &SideBuilt, trace: &[Vec<F>], out: &mut Vec<Vec<u64>>) -> Result<(), String> {
    for r in 0..trace.len() {
        let f = s.filter.eval(&trace[r]);
        if f.is_zero() {
            continue;
        }
        if !f.is_one() {
            return Err(format!("filter of table {} is {} on row {}", s.table, cu(f), r));
        }
        out.push(s.tuple(trace, r).into_iter().map(cu).collect());
    }
    Ok(())
}

pub fn ctl_verdict(ctl: &CtlBuilt, extras: &[Vec<F>], traces: &[&Vec<Vec<F>>]) -> Result<CtlVerdict, String> {
    let mut looking: Vec<Vec<u64>> = vec![];
    for s in &ctl.looking {
        side_tuples(s, traces[s.table], &mut looking)?;
    }
    let looking_rows = looking.len();
    for e in extras {
        looking.push(e.iter().map(|&x| cu(x)).collect());
    }
    let mut looked: Vec<Vec<u64>> = vec![];
    side_tuples(&ctl.looked, traces[ctl.looked.table], &mut looked)?;
    let looked_rows = looked.len();
    looking.sort();
    looked.sort();
    let defect = if looking == looked {
        None
    } else {
        let only_l = looking.iter().find(|t| looking.iter().filter(|x| x == t).count() != looked.iter().filter(|x| x == t).count());
        let only_r = looked.iter().find(|t| looking.iter().filter(|x| x == t).count() != looked.iter().filter(|x| x == t).count());
        Some(format!("tuple {:?} has different multiplicities on the two sides ({} looking rows + {} extras vs {} looked rows)", only_l.or(only_r), looking_rows, extras.len(), looked_rows))
    };
    Ok(CtlVerdict {
        defect,
        looking_rows,
        looked_rows,
    })
}

// ------------------------------------------------------------------------------------------
// own computation of the CTL auxiliary columns (reference for forged / re-derived provers)
// ------------------------------------------------------------------------------------------

/// `sum_i t_i beta^i + gamma`
pub fn combine(t: &[F], beta: F, gamma: F) -> F {
    let mut acc = gamma;
    let mut p = F::ONE;
    for &x in t {
        acc += x * p;
        p *= beta;
    }
    acc
}

/// Helper columns (one per chunk of `degree-1` sides; none for a single side) and the running sum
/// `Z[i] = sum_{r >= i} sum_sides filter(r) / combine(tuple(r))` of a group of sides living in one table.
pub fn group_aux(sides: &[&SideBuilt], trace: &[Vec<F>], beta: F, gamma: F, degree: usize) -> (Vec<Vec<F>>, Vec<F>) {
    let n = trace.len();
    let chunk = degree - 1;
    let terms: Vec<Vec<F>> = sides
        .iter()
        .map(|s| (0..n).map(|r| s.filter.eval(&trace[r]) * combine(&s.tuple(trace, r), beta, gamma).inverse()).collect())
        .collect();
    let helpers: Vec<Vec<F>> = terms.chunks(chunk).map(|ch| (0..n).map(|r| ch.iter().map(|t| t[r]).sum::<F>()).collect()).collect();
    let mut z = vec![F::ZERO; n];
    let mut acc = F::ZERO;
    for r in (0..n).rev() {
        acc += helpers.iter().map(|h| h[r]).sum::<F>();
        z[r] = acc;
    }
    if sides.len() == 1 {
        (vec![], z)
    } else {
        (helpers, z)
    }
}

/// One `CtlZData` entry of a table, in the order in which the library stores them.
#[derive(Clone, Debug, PartialEq, Eq)]
pub struct EntryRef {
    pub ctl: usize,
    pub challenge: usize,
    /// positions in `looking` (a group) or None for the looked side
    pub group: Option<Vec<usize>>,
    pub n_helpers: usize,
}

pub fn table_entries(ctls: &[CtlBuilt], table: usize, num_challenges: usize, degree: usize) -> Vec<EntryRef> {
    let mut out = vec![];
    for (ci, ctl) in ctls.iter().enumerate() {
        for c in 0..num_challenges {
            for (t, g) in ctl.groups() {
                if t == table {
                    let n_helpers = if g.len() > 1 { g.len().div_ceil(degree - 1) } else { 0 };
                    out.push(EntryRef {
                        ctl: ci,
                        challenge: c,
                        group: Some(g),
                        n_helpers,
                    });
                }
            }
            if ctl.looked.table == table {
                out.push(EntryRef {
                    ctl: ci,
                    challenge: c,
                    group: None,
                    n_helpers: 0,
                });
            }
        }
    }
    out
}
