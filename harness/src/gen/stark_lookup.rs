//! Lookup / cross-table-lookup extensions of the run-time STARK family (owned by the C10 builder).
