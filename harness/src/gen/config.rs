//! G-config: admissible `CircuitConfig` / `FriConfig` values built by elaboration (repair, never reject).

use plonky2::fri::reduction_strategies::FriReductionStrategy;
use plonky2::fri::FriConfig;
use plonky2::plonk::circuit_data::CircuitConfig;
use proptest::prelude::*;
use serde::{Deserialize, Serialize};

use crate::engine::frac;

/// Raw choices (u16 fractions etc.); everything shrinks towards the standard recursion config
/// with small FRI numbers.
#[derive(Clone, Debug, Serialize, Deserialize, PartialEq, Eq, Hash)]
pub struct RawConfig {
    pub wires: u16,
    pub routed: u16,
    pub constants: u16,
    pub base_arith: bool,
    pub challenges: u16,
    pub zk: bool,
    pub qdf: u16,
    pub rate: u16,
    pub cap: u16,
    pub pow: u16,
    pub queries: u16,
    pub strat: u16,
    pub arity: u16,
    pub final_bits: u16,
    /// raw arities for the `Fixed` strategy (each mapped to 1..=4, repaired against the degree)
    pub fixed: Vec<u16>,
    pub keccak: bool,
}

pub fn raw_config() -> BoxedStrategy<RawConfig> {
    (
        (any::<u16>(), any::<u16>(), any::<u16>(), any::<bool>(), any::<u16>(), prop::bool::weighted(0.25)),
        (any::<u16>(), any::<u16>(), any::<u16>(), any::<u16>(), any::<u16>()),
        (any::<u16>(), any::<u16>(), any::<u16>(), prop::collection::vec(any::<u16>(), 0..5), prop::bool::weighted(0.3)),
    )
        .prop_map(|((wires, routed, constants, base_arith, challenges, zk), (qdf, rate, cap, pow, queries), (strat, arity, final_bits, fixed, keccak))| RawConfig {
            wires,
            routed,
            constants,
            base_arith,
            challenges,
            zk,
            qdf,
            rate,
            cap,
            pow,
            queries,
            strat,
            arity,
            final_bits,
            fixed,
            keccak,
        })
        .boxed()
}

#[derive(Clone, Debug)]
pub struct ElabConfig {
    pub config: CircuitConfig,
    pub keccak: bool,
    /// Requested `Fixed` arities before repair against the real degree (None = other strategy).
    pub fixed_request: Option<Vec<usize>>,
    pub labels: Vec<String>,
}

/// Bounds that keep cases cheap; `max_queries` is lowered for zero-knowledge configs because
/// blinding adds `O(queries · arity)` rows.
#[derive(Clone, Copy, Debug)]
pub struct ConfigLimits {
    pub max_queries: usize,
    pub max_queries_zk: usize,
    pub max_pow: u32,
    pub allow_keccak: bool,
    pub allow_zk: bool,
    pub min_routed: usize,
    /// lower bound on the number of FRI query rounds (used by negative tests that need margin)
    pub min_queries: usize,
}

impl Default for ConfigLimits {
    fn default() -> Self {
        ConfigLimits {
            max_queries: 30,
            max_queries_zk: 6,
            max_pow: 10,
            allow_keccak: true,
            allow_zk: true,
            min_routed: 28,
            min_queries: 1,
        }
    }
}

pub fn elaborate_config(raw: &RawConfig, lim: &ConfigLimits) -> ElabConfig {
    let mut labels = vec![];
    let num_wires = [135usize, 136, 150, 234][frac(raw.wires, 4)];
    // routed: biased to {80, 50, 28}, otherwise anything in min_routed..=num_wires
    let routed_choice = frac(raw.routed, 8);
    let num_routed_wires = match routed_choice {
        0 | 1 | 2 => 80,
        3 => 50,
        4 => lim.min_routed,
        5 => num_wires,
        _ => lim.min_routed + frac(raw.routed.wrapping_mul(31), num_wires - lim.min_routed + 1),
    }
    .min(num_wires);
    let num_constants = [2usize, 3, 4][frac(raw.constants, 3)];
    let num_challenges = [2usize, 1, 3][frac(raw.challenges, 3)];
    let zero_knowledge = raw.zk && lim.allow_zk;
    let rate_bits = [3usize, 4, 3, 3][frac(raw.rate, 4)];
    // quotient degree factor: 8 mostly; 7, 9..16 need log2_ceil(qdf) <= rate_bits
    let qdf_choices: &[usize] = if rate_bits >= 4 { &[8, 8, 7, 9, 16, 12] } else { &[8, 8, 8, 7] };
    let mut max_quotient_degree_factor = qdf_choices[frac(raw.qdf, qdf_choices.len())];
    if max_quotient_degree_factor >= num_routed_wires {
        max_quotient_degree_factor = 8;
    }
    let cap_height = frac(raw.cap, 5);
    let proof_of_work_bits = frac(raw.pow, lim.max_pow as usize + 1) as u32;
    let maxq = if zero_knowledge { lim.max_queries_zk } else { lim.max_queries };
    let num_query_rounds = (1 + frac(raw.queries, maxq)).max(lim.min_queries);
    let (reduction_strategy, fixed_request) = match frac(raw.strat, 4) {
        0 | 1 => {
            let a = 1 + frac(raw.arity, 4);
            let f = frac(raw.final_bits, 6);
            labels.push("fri_constant_arity".into());
            (FriReductionStrategy::ConstantArityBits(a, f), None)
        }
        2 => {
            labels.push("fri_min_size".into());
            let opt = [None, Some(1), Some(2), Some(3), Some(4)][frac(raw.arity, 5)];
            (FriReductionStrategy::MinSize(opt), None)
        }
        _ => {
            labels.push("fri_fixed".into());
            let req: Vec<usize> = raw.fixed.iter().map(|&r| 1 + frac(r, 4)).collect();
            // placeholder; repaired after the degree is known (see `repair_fixed`)
            (FriReductionStrategy::Fixed(vec![]), Some(req))
        }
    };
    let security_bits = (num_query_rounds * rate_bits + proof_of_work_bits as usize).min(100);
    let config = CircuitConfig {
        num_wires,
        num_routed_wires,
        num_constants,
        use_base_arithmetic_gate: raw.base_arith,
        security_bits,
        num_challenges,
        zero_knowledge,
        max_quotient_degree_factor,
        fri_config: FriConfig {
            rate_bits,
            cap_height,
            proof_of_work_bits,
            reduction_strategy,
            num_query_rounds,
        },
    };
    labels.push(format!("wires{}", num_wires));
    labels.push(format!(
        "routed_{}",
        if num_routed_wires == 80 {
            "80".to_string()
        } else if num_routed_wires == lim.min_routed {
            "min".to_string()
        } else if num_routed_wires == num_wires {
            "all".to_string()
        } else {
            "other".to_string()
        }
    ));
    labels.push(format!("challenges{}", num_challenges));
    labels.push(format!("qdf{}", max_quotient_degree_factor));
    labels.push(format!("rate{}", rate_bits));
    labels.push(format!("cap{}", cap_height));
    labels.push(if zero_knowledge { "zk".into() } else { "nozk".into() });
    labels.push(if raw.base_arith { "base_arith_gate".into() } else { "ext_arith_only".into() });
    let keccak = raw.keccak && lim.allow_keccak;
    labels.push(if keccak { "keccak".into() } else { "poseidon".into() });
    ElabConfig {
        config,
        keccak,
        fixed_request,
        labels,
    }
}

/// The largest total arity the builder admits for a circuit of `degree_bits` rows.
pub fn max_total_arity(degree_bits: usize, rate_bits: usize, cap_height: usize) -> usize {
    degree_bits.min((degree_bits + rate_bits).saturating_sub(cap_height))
}

/// Repair a requested `Fixed` arity list so that the builder's documented assertion
/// `total_arities <= degree_bits + rate_bits - cap_height` (and `<= degree_bits`, so that the final
/// polynomial has length >= 1) holds: entries are shrunk / dropped from the end.
pub fn repair_fixed(req: &[usize], degree_bits: usize, rate_bits: usize, cap_height: usize) -> Vec<usize> {
    let mut budget = max_total_arity(degree_bits, rate_bits, cap_height);
    let mut out = vec![];
    for &a in req {
        if budget == 0 {
            break;
        }
        let a = a.min(budget);
        out.push(a);
        budget -= a;
    }
    out
}

impl ElabConfig {
    /// True when admissibility of the FRI strategy depends on the (not yet known) circuit degree.
    /// Zero-knowledge configs are made degree-independent at elaboration time because blinding
    /// makes the degree itself depend on the arities.
    pub fn needs_degree(&self) -> bool {
        if self.fixed_request.is_some() {
            return true;
        }
        let fc = &self.config.fri_config;
        match fc.reduction_strategy {
            FriReductionStrategy::ConstantArityBits(a, f) => f + 1 < a,
            FriReductionStrategy::MinSize(_) => fc.cap_height > fc.rate_bits,
            FriReductionStrategy::Fixed(_) => true,
        }
    }

    /// A config that is admissible for every degree (used for the dry build and for zk).
    pub fn safe(&self) -> CircuitConfig {
        let mut c = self.config.clone();
        let fc = &mut c.fri_config;
        match fc.reduction_strategy.clone() {
            FriReductionStrategy::ConstantArityBits(a, f) => {
                fc.reduction_strategy = FriReductionStrategy::ConstantArityBits(a, f.max(a - 1));
            }
            FriReductionStrategy::MinSize(_) => {
                fc.cap_height = fc.cap_height.min(fc.rate_bits);
            }
            FriReductionStrategy::Fixed(_) => {
                fc.reduction_strategy = FriReductionStrategy::ConstantArityBits(1, 0);
            }
        }
        c
    }

    /// The final config once `degree_bits` is known (non-zk circuits: the degree does not depend
    /// on the FRI strategy). Repairs, never rejects.
    pub fn finalize(&self, degree_bits: usize) -> CircuitConfig {
        let mut c = self.config.clone();
        let rate_bits = c.fri_config.rate_bits;
        let cap_height = c.fri_config.cap_height;
        if let Some(req) = &self.fixed_request {
            c.fri_config.reduction_strategy =
                FriReductionStrategy::Fixed(repair_fixed(req, degree_bits, rate_bits, cap_height));
            return c;
        }
        match c.fri_config.reduction_strategy.clone() {
            FriReductionStrategy::ConstantArityBits(a, f) => {
                // simulate the documented loop; its `assert!(degree_bits >= arity_bits)` must hold
                let mut d = degree_bits;
                let mut ok = true;
                while d > f && d + rate_bits >= cap_height + a {
                    if d < a {
                        ok = false;
                        break;
                    }
                    d -= a;
                }
                if !ok {
                    c.fri_config.reduction_strategy = FriReductionStrategy::ConstantArityBits(a, f.max(a - 1));
                }
            }
            FriReductionStrategy::MinSize(_) => {
                let ar = c.fri_config.reduction_strategy.reduction_arity_bits(
                    degree_bits,
                    rate_bits,
                    cap_height,
                    c.fri_config.num_query_rounds,
                );
                let total: usize = ar.iter().sum();
                if total + cap_height > degree_bits + rate_bits {
                    c.fri_config.cap_height = degree_bits + rate_bits - total;
                }
            }
            FriReductionStrategy::Fixed(_) => {}
        }
        c
    }
}

/// Soundness margin used by negative tests that depend on Fiat–Shamir re-randomisation.
pub fn margin_bits(cfg: &CircuitConfig, degree_bits: usize) -> usize {
    (degree_bits + cfg.fri_config.rate_bits) * cfg.fri_config.num_query_rounds + cfg.fri_config.proof_of_work_bits as usize
}
