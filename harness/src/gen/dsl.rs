//! G-dsl: circuit programs with a reference interpreter.
//!
//! A `RawProgram` is a vector of raw choices. `elaborate` walks it once and, for every op,
//! (a) calls the corresponding `CircuitBuilder` gadget and (b) computes the value the gadget is
//! documented to produce, directly over the field. Ops whose preconditions do not hold for the
//! current values are *repaired* (never rejected). The result lists the input assignment and
//! the expected public-input vector.

use std::collections::BTreeSet;

use plonky2::field::extension::quadratic::QuadraticExtension;
use plonky2::field::extension::{Extendable, FieldExtension};
use plonky2::field::goldilocks_field::GoldilocksField;
use plonky2::field::types::{Field, PrimeField64};
use plonky2::gates::lookup_table::LookupTable;
use plonky2::hash::hash_types::{HashOut, HashOutTarget, MerkleCapTarget};
use plonky2::hash::hashing::hash_n_to_m_no_pad;
use plonky2::hash::merkle_proofs::MerkleProofTarget;
use plonky2::hash::merkle_tree::MerkleTree;
use plonky2::hash::poseidon::{PoseidonHash, PoseidonPermutation};
use plonky2::iop::ext_target::ExtensionTarget;
use plonky2::iop::target::{BoolTarget, Target};
use plonky2::iop::witness::{PartialWitness, WitnessWrite};
use plonky2::plonk::circuit_builder::CircuitBuilder;
use plonky2::plonk::config::Hasher;
use plonky2::util::reducing::ReducingFactorTarget;
use proptest::prelude::*;
use serde::{Deserialize, Serialize};
use std::sync::Arc;

use crate::engine::frac;
use crate::gen::field::{canonical, is_boundary, P};

pub type F = GoldilocksField;
pub const D: usize = 2;
pub type FE = QuadraticExtension<F>;

#[derive(Clone, Debug, Serialize, Deserialize, PartialEq, Eq, Hash)]
pub struct RawOp {
    pub kind: u16,
    pub a: u16,
    pub b: u16,
    pub c: u16,
    pub k: u64,
}

#[derive(Clone, Debug, Serialize, Deserialize, PartialEq, Eq, Hash)]
pub struct RawProgram {
    /// canonical input values
    pub inputs: Vec<u64>,
    pub ops: Vec<RawOp>,
    /// which variables become public inputs (fractions into the base pool at the end)
    pub publics: Vec<u16>,
}

/// A raw op that elaborates to the given op kind (inverse of the `frac` mapping used by `St::op`).
pub fn raw_op_of_kind(kind: usize, a: u16, b: u16, c: u16, k: u64) -> RawOp {
    const NKINDS: usize = 71;
    let raw = (((kind as u32) << 16) / NKINDS as u32 + 1) as u16;
    debug_assert_eq!(frac(raw, NKINDS), kind);
    RawOp { kind: raw, a, b, c, k }
}
pub const KIND_LOOKUP: usize = 55;

pub fn raw_op() -> BoxedStrategy<RawOp> {
    (any::<u16>(), any::<u16>(), any::<u16>(), any::<u16>(), prop_oneof![2 => canonical(), 1 => 0u64..300])
        .prop_map(|(kind, a, b, c, k)| RawOp { kind, a, b, c, k })
        .boxed()
}

pub fn raw_program(max_ops: usize) -> BoxedStrategy<RawProgram> {
    (
        prop::collection::vec(canonical(), 1..6),
        prop::collection::vec(raw_op(), 1..=max_ops),
        prop::collection::vec(any::<u16>(), 1..5),
    )
        .prop_map(|(inputs, ops, publics)| RawProgram { inputs, ops, publics })
        .boxed()
}

/// Which op families the elaborator may use.
#[derive(Clone, Copy, Debug)]
pub struct DslOpts {
    pub lookups: bool,
    pub merkle: bool,
    pub hashing: bool,
    pub interpolation: bool,
    /// restrict to gates/generators known to the default serializer registries (C17)
    pub serialisable_only: bool,
    pub max_tables: usize,
}

impl Default for DslOpts {
    fn default() -> Self {
        DslOpts {
            lookups: true,
            merkle: true,
            hashing: true,
            interpolation: true,
            serialisable_only: false,
            max_tables: 2,
        }
    }
}

#[derive(Debug, Default)]
pub struct Elab {
    pub inputs: Vec<(Target, F)>,
    pub public_targets: Vec<Target>,
    pub expected_pis: Vec<F>,
    pub families: BTreeSet<&'static str>,
    pub op_names: Vec<&'static str>,
    pub boundary_values: usize,
    pub tables: Vec<Vec<(u16, u16)>>,
    /// (table index, looked-up input, expected output, output target)
    pub lookups: Vec<(usize, u16, u16, Target)>,
    /// targets whose value is pinned by an explicit assertion (range / bool / equality); used by C02
    pub asserted: Vec<(Target, &'static str)>,
}

impl Elab {
    pub fn witness(&self) -> PartialWitness<F> {
        let mut pw = PartialWitness::new();
        for &(t, v) in &self.inputs {
            pw.set_target(t, v).expect("fresh input target");
        }
        pw
    }
    pub fn description(&self) -> String {
        self.op_names.join(",")
    }
}

struct St<'a> {
    b: &'a mut CircuitBuilder<F, D>,
    base: Vec<(Target, F)>,
    bools: Vec<(BoolTarget, bool)>,
    exts: Vec<(ExtensionTarget<D>, FE)>,
    e: Elab,
    opts: DslOpts,
    lut_ids: Vec<usize>,
}

pub fn smul(x: FE, s: F) -> FE {
    <FE as FieldExtension<D>>::scalar_mul(&x, s)
}
pub fn ext_from_arr(a: [F; D]) -> FE {
    <FE as FieldExtension<D>>::from_basefield_array(a)
}
pub fn ext_from_base(a: F) -> FE {
    <FE as FieldExtension<D>>::from_basefield(a)
}
pub fn ext_to_arr(x: FE) -> [F; D] {
    <FE as FieldExtension<D>>::to_basefield_array(&x)
}

fn bitlen(x: u64) -> usize {
    64 - x.leading_zeros() as usize
}

fn lcg(x: &mut u64) -> u64 {
    *x = x.wrapping_mul(6364136223846793005).wrapping_add(1442695040888963407);
    (*x >> 11) % P
}

impl<'a> St<'a> {
    fn new_input(&mut self, v: F) -> Target {
        let t = self.b.add_virtual_target();
        self.e.inputs.push((t, v));
        if is_boundary(v.to_canonical_u64()) {
            self.e.boundary_values += 1;
        }
        t
    }
    fn pb(&self, r: u16) -> (Target, F) {
        self.base[frac(r, self.base.len())]
    }
    fn pbool(&mut self, r: u16) -> (BoolTarget, bool) {
        if self.bools.is_empty() {
            let v = r & 1 == 1;
            let t = self.b.constant_bool(v);
            self.bools.push((t, v));
        }
        self.bools[frac(r, self.bools.len())]
    }
    fn pext(&mut self, r: u16) -> (ExtensionTarget<D>, FE) {
        if self.exts.is_empty() {
            let (x, xv) = self.pb(r);
            let (y, yv) = self.pb(r.wrapping_mul(7).wrapping_add(3));
            self.exts.push((ExtensionTarget([x, y]), ext_from_arr([xv, yv])));
        }
        self.exts[frac(r, self.exts.len())]
    }
    fn nonzero_base(&mut self, r: u16) -> (Target, F) {
        let (t, v) = self.pb(r);
        if v.is_nonzero() {
            (t, v)
        } else {
            let o = self.b.one();
            (o, F::ONE)
        }
    }
    fn push_base(&mut self, t: Target, v: F) {
        if is_boundary(v.to_canonical_u64()) {
            self.e.boundary_values += 1;
        }
        self.base.push((t, v));
    }
    fn fam(&mut self, family: &'static str, name: &'static str) {
        self.e.families.insert(family);
        self.e.op_names.push(name);
    }

    /// A target holding `v`, `v < 2^bits` small: fresh input.
    fn small_input(&mut self, v: u64) -> (Target, F) {
        let f = F::from_canonical_u64(v);
        (self.new_input(f), f)
    }

    fn op(&mut self, o: &RawOp) {
        const NKINDS: usize = 71;
        let kind = frac(o.kind, NKINDS);
        let kf = F::from_canonical_u64(o.k % P);
        let routed = self.b.config.num_routed_wires;
        if std::env::var("PV_TRACE").is_ok() {
            eprintln!("[trace] op kind {} a={} b={} c={} k={} (gates so far {})", kind, o.a, o.b, o.c, o.k, self.b.num_gates());
        }
        match kind {
            0 => {
                let ((x, xv), (y, yv)) = (self.pb(o.a), self.pb(o.b));
                let t = self.b.add(x, y);
                self.push_base(t, xv + yv);
                self.fam("arith", "add");
            }
            1 => {
                let ((x, xv), (y, yv)) = (self.pb(o.a), self.pb(o.b));
                let t = self.b.sub(x, y);
                self.push_base(t, xv - yv);
                self.fam("arith", "sub");
            }
            2 => {
                let ((x, xv), (y, yv)) = (self.pb(o.a), self.pb(o.b));
                let t = self.b.mul(x, y);
                self.push_base(t, xv * yv);
                self.fam("arith", "mul");
            }
            3 => {
                let (x, xv) = self.pb(o.a);
                let t = self.b.neg(x);
                self.push_base(t, -xv);
                self.fam("arith", "neg");
            }
            4 => {
                let (x, xv) = self.pb(o.a);
                let t = self.b.square(x);
                self.push_base(t, xv * xv);
                self.fam("arith", "square");
            }
            5 => {
                let (x, xv) = self.pb(o.a);
                let t = self.b.cube(x);
                self.push_base(t, xv * xv * xv);
                self.fam("arith", "cube");
            }
            6 => {
                let ((x, xv), (y, yv), (z, zv)) = (self.pb(o.a), self.pb(o.b), self.pb(o.c));
                let t = self.b.mul_add(x, y, z);
                self.push_base(t, xv * yv + zv);
                self.fam("arith", "mul_add");
            }
            7 => {
                let ((x, xv), (y, yv), (z, zv)) = (self.pb(o.a), self.pb(o.b), self.pb(o.c));
                let c0 = kf;
                let c1 = F::from_canonical_u64((o.k.rotate_left(17) ^ o.c as u64) % P);
                let t = self.b.arithmetic(c0, c1, x, y, z);
                self.push_base(t, c0 * xv * yv + c1 * zv);
                self.fam("arith", "arithmetic");
            }
            8 => {
                let (x, xv) = self.pb(o.a);
                let t = self.b.add_const(x, kf);
                self.push_base(t, xv + kf);
                self.fam("arith", "add_const");
            }
            9 => {
                let (x, xv) = self.pb(o.a);
                let t = self.b.mul_const(kf, x);
                self.push_base(t, xv * kf);
                self.fam("arith", "mul_const");
            }
            10 => {
                let ((x, xv), (y, yv), (z, zv)) = (self.pb(o.a), self.pb(o.b), self.pb(o.c));
                let t = self.b.mul_sub(x, y, z);
                self.push_base(t, xv * yv - zv);
                self.fam("arith", "mul_sub");
            }
            11 => {
                let (x, xv) = self.pb(o.a);
                // implicit precondition of exp_from_bits (used by exp_u64): the exponent must fit the
                // ExponentiationGate derived from the config (min(routed - 2, (wires - 2) / 2) bits)
                let cap_bits = (routed - 2).min((self.b.config.num_wires - 2) / 2).min(64);
                let mask = if cap_bits >= 64 { u64::MAX } else { (1u64 << cap_bits) - 1 };
                let e = if o.c & 1 == 0 { o.k & mask } else { o.k % 9 };
                let t = self.b.exp_u64(x, e);
                self.push_base(t, xv.exp_u64(e));
                self.fam("exp", "exp_u64");
            }
            12 => {
                let (x, xv) = self.pb(o.a);
                let l = frac(o.b, 8);
                let t = self.b.exp_power_of_2(x, l);
                self.push_base(t, xv.exp_power_of_2(l));
                self.fam("exp", "exp_power_of_2");
            }
            13 => {
                let (x, xv) = self.nonzero_base(o.a);
                let t = self.b.inverse(x);
                self.push_base(t, xv.inverse());
                self.fam("arith", "inverse");
            }
            14 => {
                let (x, xv) = self.pb(o.a);
                let (y, yv) = self.nonzero_base(o.b);
                let t = self.b.div(x, y);
                self.push_base(t, xv / yv);
                self.fam("arith", "div");
            }
            15 => {
                let n = 2 + frac(o.c, 5);
                let picks: Vec<(Target, F)> = (0..n).map(|i| self.pb(o.a.wrapping_add((i as u16).wrapping_mul(o.b | 1)))).collect();
                let t = self.b.add_many(picks.iter().map(|p| p.0));
                self.push_base(t, picks.iter().map(|p| p.1).sum());
                self.fam("arith", "add_many");
            }
            16 => {
                let n = 2 + frac(o.c, 5);
                let picks: Vec<(Target, F)> = (0..n).map(|i| self.pb(o.a.wrapping_add((i as u16).wrapping_mul(o.b | 1)))).collect();
                let t = self.b.mul_many(picks.iter().map(|p| p.0));
                self.push_base(t, picks.iter().map(|p| p.1).product());
                self.fam("arith", "mul_many");
            }
            17 => {
                let t = self.b.constant(kf);
                self.push_base(t, kf);
                self.fam("const", "constant");
            }
            18 => {
                let (x, xv) = self.pb(o.a);
                let (y, yv) = if o.c & 1 == 1 { (x, xv) } else { self.pb(o.b) };
                let t = self.b.is_equal(x, y);
                self.bools.push((t, xv == yv));
                self.fam("bool", "is_equal");
            }
            19 => {
                let (x, xv) = self.pbool(o.a);
                let t = self.b.not(x);
                self.bools.push((t, !xv));
                self.fam("bool", "not");
            }
            20 => {
                let ((x, xv), (y, yv)) = (self.pbool(o.a), self.pbool(o.b));
                let t = self.b.and(x, y);
                self.bools.push((t, xv && yv));
                self.fam("bool", "and");
            }
            21 => {
                let ((x, xv), (y, yv)) = (self.pbool(o.a), self.pbool(o.b));
                let t = self.b.or(x, y);
                self.bools.push((t, xv || yv));
                self.fam("bool", "or");
            }
            22 => {
                let (c, cv) = self.pbool(o.c);
                let ((x, xv), (y, yv)) = (self.pb(o.a), self.pb(o.b));
                let t = self.b.select(c, x, y);
                self.push_base(t, if cv { xv } else { yv });
                self.fam("bool", "select");
            }
            23 => {
                let (c, cv) = self.pbool(o.c);
                let ((x, xv), (y, yv)) = (self.pb(o.a), self.pb(o.b));
                let t = self.b._if(c, x, y);
                self.push_base(t, if cv { xv } else { yv });
                self.fam("bool", "_if");
            }
            24 => {
                let v = o.k & 1 == 1;
                let t = self.b.constant_bool(v);
                self.bools.push((t, v));
                self.fam("bool", "constant_bool");
            }
            25 => {
                let (x, _) = self.pbool(o.a);
                self.b.assert_bool(x);
                self.e.asserted.push((x.target, "bool"));
                // a bool as base value
                let v = self.bools.iter().find(|p| p.0.target == x.target).map(|p| p.1).unwrap_or(false);
                self.push_base(x.target, F::from_bool(v));
                self.fam("assert", "assert_bool");
            }
            26 => {
                let (x, xv) = self.pb(o.a);
                let bl = bitlen(xv.to_canonical_u64());
                let n = (bl + frac(o.b, 4)).min(64).max(if o.c & 3 == 0 { 0 } else { 1 });
                let n = n.max(bl);
                let bits = self.b.split_le(x, n);
                let v = xv.to_canonical_u64();
                for (i, bt) in bits.iter().enumerate().take(70) {
                    if i < 3 || i + 1 == bits.len() {
                        self.bools.push((*bt, (v >> i) & 1 == 1));
                    }
                }
                self.e.asserted.push((x, "range"));
                self.fam("bits", "split_le");
            }
            27 => {
                let (x, xv) = self.pb(o.a);
                let bl = bitlen(xv.to_canonical_u64());
                let n = (bl + frac(o.b, 3)).min(64).max(1);
                self.b.range_check(x, n);
                self.e.asserted.push((x, "range"));
                self.fam("bits", "range_check");
            }
            28 => {
                let (x, xv) = self.pb(o.a);
                let v = xv.to_canonical_u64();
                let nb = bitlen(v).max(1).max(frac(o.c, 65)).min(64);
                let low = frac(o.b, nb.min(20) + 1);
                let bits = self.b.low_bits(x, low, nb);
                let t = self.b.le_sum(bits.iter());
                let lv = if low == 0 { 0 } else { v & (u64::MAX >> (64 - low)) };
                self.push_base(t, F::from_canonical_u64(lv));
                self.fam("bits", "low_bits+le_sum");
            }
            29 => {
                let (x, xv) = self.pb(o.a);
                let v = xv.to_canonical_u64();
                let nb = bitlen(v).max(2).min(64);
                let n_log = 1 + frac(o.b, nb - 1); // 1..nb-1
                let (lo, hi) = self.b.split_low_high(x, n_log, nb);
                let lov = v & ((1u64 << n_log) - 1);
                let hiv = v >> n_log;
                self.push_base(lo, F::from_canonical_u64(lov));
                self.push_base(hi, F::from_canonical_u64(hiv));
                self.fam("bits", "split_low_high");
            }
            30 => {
                let n = frac(o.c, 24);
                let picks: Vec<(BoolTarget, bool)> = (0..n).map(|i| self.pbool(o.a.wrapping_add((i as u16).wrapping_mul(o.b | 1)))).collect();
                let t = self.b.le_sum(picks.iter().map(|p| p.0));
                let v: u64 = picks.iter().enumerate().map(|(i, p)| (p.1 as u64) << i).sum();
                self.push_base(t, F::from_canonical_u64(v));
                self.fam("bits", "le_sum");
            }
            31 => {
                // split_le_base<B>: x must be < B^num_limbs
                let (x, xv) = self.pb(o.a);
                let v = xv.to_canonical_u64();
                // the default serializer registries only know BaseSumGate<2>
                let which = if self.opts.serialisable_only { 0 } else { frac(o.b, 3) };
                let base: u64 = [2, 3, 4][which];
                let mut need = 1usize;
                let mut cap: u128 = base as u128;
                while cap <= v as u128 {
                    cap *= base as u128;
                    need += 1;
                }
                let num_limbs = need + frac(o.c, 3);
                if num_limbs + 1 <= routed {
                    let limbs = match which {
                        0 => self.b.split_le_base::<2>(x, num_limbs),
                        1 => self.b.split_le_base::<3>(x, num_limbs),
                        _ => self.b.split_le_base::<4>(x, num_limbs),
                    };
                    let mut vv = v;
                    for (i, l) in limbs.iter().enumerate() {
                        let d = vv % base;
                        vv /= base;
                        if i < 3 {
                            self.push_base(*l, F::from_canonical_u64(d));
                        }
                    }
                    self.fam("bits", "split_le_base");
                }
            }
            32 => {
                // exp_from_bits with bits of a small fresh input
                let (x, xv) = self.pb(o.a);
                let nbits = frac(o.b, 12);
                let ev = if nbits == 0 { 0 } else { o.k & ((1u64 << nbits) - 1) };
                let (et, _) = self.small_input(ev);
                let bits = self.b.split_le(et, nbits);
                let t = self.b.exp_from_bits(x, bits.iter());
                self.push_base(t, xv.exp_u64(ev));
                self.fam("exp", "exp_from_bits");
            }
            33 => {
                let (x, xv) = self.pb(o.a);
                let nbits = 1 + frac(o.b, 16);
                let ev = o.k & ((1u64 << nbits) - 1);
                let (et, _) = self.small_input(ev);
                let t = self.b.exp(x, et, nbits);
                self.push_base(t, xv.exp_u64(ev));
                self.fam("exp", "exp");
            }
            34 => {
                // random_access over 2^bits items
                let maxbits = if routed >= 66 { 6 } else if routed >= 34 { 5 } else { 4 };
                let bits = 1 + frac(o.c, maxbits);
                let n = 1usize << bits;
                let items: Vec<(Target, F)> = (0..n).map(|i| self.pb(o.a.wrapping_add((i as u16).wrapping_mul(40503)))).collect();
                let idx = (o.k as usize) % n;
                let (it, _) = self.small_input(idx as u64);
                let t = self.b.random_access(it, items.iter().map(|p| p.0).collect());
                self.push_base(t, items[idx].1);
                self.fam("random_access", "random_access");
            }
            35 => {
                let ((x, xv), (y, yv)) = (self.pb(o.a), self.pb(o.b));
                self.exts.push((ExtensionTarget([x, y]), ext_from_arr([xv, yv])));
                self.fam("ext", "ext_from_base");
            }
            36 => {
                let ((x, xv), (y, yv)) = (self.pext(o.a), self.pext(o.b));
                let t = self.b.add_extension(x, y);
                self.exts.push((t, xv + yv));
                self.fam("ext", "add_extension");
            }
            37 => {
                let ((x, xv), (y, yv)) = (self.pext(o.a), self.pext(o.b));
                let t = self.b.sub_extension(x, y);
                self.exts.push((t, xv - yv));
                self.fam("ext", "sub_extension");
            }
            38 => {
                let ((x, xv), (y, yv)) = (self.pext(o.a), self.pext(o.b));
                let t = self.b.mul_extension(x, y);
                self.exts.push((t, xv * yv));
                self.fam("ext", "mul_extension");
            }
            39 => {
                let (x, xv) = self.pext(o.a);
                let (mut y, mut yv) = self.pext(o.b);
                if yv.is_zero() {
                    y = self.b.one_extension();
                    yv = FE::ONE;
                }
                let t = self.b.div_extension(x, y);
                self.exts.push((t, xv / yv));
                self.fam("ext", "div_extension");
            }
            40 => {
                let (s, sv) = self.pb(o.a);
                let (x, xv) = self.pext(o.b);
                let t = self.b.scalar_mul_ext(s, x);
                self.exts.push((t, smul(xv, sv)));
                self.fam("ext", "scalar_mul_ext");
            }
            41 => {
                let ((x, xv), (y, yv), (z, zv)) = (self.pext(o.a), self.pext(o.b), self.pext(o.c));
                let t = self.b.mul_add_extension(x, y, z);
                self.exts.push((t, xv * yv + zv));
                self.fam("ext", "mul_add_extension");
            }
            42 => {
                let n = 1 + frac(o.c, 4);
                let (acc, accv) = self.pext(o.a);
                let pairs: Vec<((ExtensionTarget<D>, FE), (ExtensionTarget<D>, FE))> = (0..n)
                    .map(|i| (self.pext(o.a.wrapping_add((i as u16).wrapping_mul(7919))), self.pext(o.b.wrapping_add((i as u16).wrapping_mul(40503)))))
                    .collect();
                let t = self.b.inner_product_extension(kf, acc, pairs.iter().map(|p| (p.0 .0, p.1 .0)).collect());
                // documented: constant * sum(a_i*b_i) + starting_acc
                let mut v = accv;
                for p in &pairs {
                    v += smul(p.0 .1 * p.1 .1, kf);
                }
                self.exts.push((t, v));
                self.fam("ext", "inner_product_extension");
            }
            43 => {
                let (x, xv) = self.pext(o.a);
                let t = self.b.square_extension(x);
                self.exts.push((t, xv * xv));
                self.fam("ext", "square_extension");
            }
            44 => {
                let (x, xv) = self.pext(o.a);
                let e = if o.c & 1 == 0 { o.k } else { o.k % 9 };
                let t = self.b.exp_u64_extension(x, e);
                self.exts.push((t, xv.exp_u64(e)));
                self.fam("ext", "exp_u64_extension");
            }
            45 => {
                let ((x, xv), (y, yv), (z, zv)) = (self.pext(o.a), self.pext(o.b), self.pext(o.c));
                let c1 = F::from_canonical_u64((o.k.rotate_left(23) ^ 0x55) % P);
                let t = self.b.arithmetic_extension(kf, c1, x, y, z);
                self.exts.push((t, smul(xv * yv, kf) + smul(zv, c1)));
                self.fam("ext", "arithmetic_extension");
            }
            46 => {
                let (x, xv) = self.pext(o.a);
                let arr: [F; D] = ext_to_arr(xv);
                let i = frac(o.b, D);
                self.push_base(x.0[i], arr[i]);
                self.fam("ext", "ext_to_base");
            }
            47 => {
                let maxbits = if routed >= 2 + 2 * 16 { 4 } else { 3 };
                let bits = 1 + frac(o.c, maxbits);
                let n = 1usize << bits;
                if routed >= 2 + 2 * n {
                    let items: Vec<(ExtensionTarget<D>, FE)> = (0..n).map(|i| self.pext(o.a.wrapping_add((i as u16).wrapping_mul(40503)))).collect();
                    let idx = (o.k as usize) % n;
                    let (it, _) = self.small_input(idx as u64);
                    let t = self.b.random_access_extension(it, items.iter().map(|p| p.0).collect());
                    self.exts.push((t, items[idx].1));
                    self.fam("random_access", "random_access_extension");
                }
            }
            48 if self.opts.hashing => {
                let n = frac(o.c, 14);
                let picks: Vec<(Target, F)> = (0..n).map(|i| self.pb(o.a.wrapping_add((i as u16).wrapping_mul(o.b | 1)))).collect();
                let h = self.b.hash_n_to_hash_no_pad::<PoseidonHash>(picks.iter().map(|p| p.0).collect());
                let hv = PoseidonHash::hash_no_pad(&picks.iter().map(|p| p.1).collect::<Vec<_>>());
                for i in 0..4 {
                    self.push_base(h.elements[i], hv.elements[i]);
                }
                self.fam("hash", "hash_n_to_hash_no_pad");
            }
            49 if self.opts.hashing => {
                let n = 1 + frac(o.c, 9);
                let m = 1 + frac(o.b, 10);
                let picks: Vec<(Target, F)> = (0..n).map(|i| self.pb(o.a.wrapping_add((i as u16).wrapping_mul(977)))).collect();
                let outs = self.b.hash_n_to_m_no_pad::<PoseidonHash>(picks.iter().map(|p| p.0).collect(), m);
                let ov = hash_n_to_m_no_pad::<F, PoseidonPermutation<F>>(&picks.iter().map(|p| p.1).collect::<Vec<_>>(), m);
                for i in 0..m.min(3) {
                    self.push_base(outs[i], ov[i]);
                }
                self.fam("hash", "hash_n_to_m_no_pad");
            }
            50 if self.opts.hashing => {
                let n = frac(o.c, 7);
                let picks: Vec<(Target, F)> = (0..n).map(|i| self.pb(o.a.wrapping_add((i as u16).wrapping_mul(o.b | 1)))).collect();
                let h = self.b.hash_or_noop::<PoseidonHash>(picks.iter().map(|p| p.0).collect());
                let hv = PoseidonHash::hash_or_noop(&picks.iter().map(|p| p.1).collect::<Vec<_>>());
                for i in 0..4 {
                    self.push_base(h.elements[i], hv.elements[i]);
                }
                self.fam("hash", "hash_or_noop");
            }
            51 => {
                let n = 1 + frac(o.c, 20);
                let (al, alv) = self.pext(o.a);
                let terms: Vec<(ExtensionTarget<D>, FE)> = (0..n).map(|i| self.pext(o.b.wrapping_add((i as u16).wrapping_mul(7919)))).collect();
                let mut r = ReducingFactorTarget::new(al);
                let t = r.reduce(&terms.iter().map(|p| p.0).collect::<Vec<_>>(), self.b);
                let v = terms.iter().rev().fold(FE::ZERO, |acc, p| acc * alv + p.1);
                self.exts.push((t, v));
                self.fam("reduce", "reduce");
            }
            52 => {
                let n = 1 + frac(o.c, 30);
                let (al, alv) = self.pext(o.a);
                let terms: Vec<(Target, F)> = (0..n).map(|i| self.pb(o.b.wrapping_add((i as u16).wrapping_mul(7919)))).collect();
                let mut r = ReducingFactorTarget::new(al);
                let t = r.reduce_base(&terms.iter().map(|p| p.0).collect::<Vec<_>>(), self.b);
                let v = terms.iter().rev().fold(FE::ZERO, |acc, p| acc * alv + ext_from_base(p.1));
                self.exts.push((t, v));
                self.fam("reduce", "reduce_base");
            }
            53 if self.opts.interpolation => {
                // coset interpolation, wired exactly as the (crate-private) gadget does
                let maxbits = if routed >= 1 + 8 * D + 2 * D { 3 } else { 2 };
                let bits = 1 + frac(o.c, maxbits);
                let n = 1usize << bits;
                let gate = plonky2::verif_hooks::coset_interpolation_gate_with_max_degree::<F, D>(
                    bits,
                    self.b.config.max_quotient_degree_factor,
                );
                if gate_num_wires(&gate) <= self.b.config.num_wires {
                    let (sh, shv) = self.nonzero_base(o.a);
                    let vals: Vec<(ExtensionTarget<D>, FE)> = (0..n).map(|i| self.pext(o.b.wrapping_add((i as u16).wrapping_mul(40503)))).collect();
                    let (pt, ptv) = self.pext(o.a.wrapping_mul(3));
                    // evaluation point must not be one of the interpolation nodes for the reference formula
                    let g = F::primitive_root_of_unity(bits);
                    let nodes: Vec<F> = (0..n).map(|i| shv * g.exp_u64(i as u64)).collect();
                    let on_node = nodes.iter().any(|&nd| ext_from_base(nd) == ptv);
                    if !on_node {
                        let t = interpolate_coset(self.b, gate, sh, &vals.iter().map(|p| p.0).collect::<Vec<_>>(), pt);
                        let v = lagrange_eval(&nodes, &vals.iter().map(|p| p.1).collect::<Vec<_>>(), ptv);
                        self.exts.push((t, v));
                        self.fam("interpolation", "interpolate_coset");
                    }
                }
            }
            54 if self.opts.merkle => {
                let h = 1 + frac(o.c, 4);
                let n = 1usize << h;
                let cap_h = frac(o.b, h + 1).min(2);
                let width = 1 + frac(o.a, 6);
                let mut seed = o.k ^ 0x9E3779B97F4A7C15;
                let mut leaves: Vec<Vec<F>> = (0..n).map(|_| (0..width).map(|_| F::from_canonical_u64(lcg(&mut seed))).collect()).collect();
                let idx = (o.k as usize >> 7) % n;
                let picks: Vec<(Target, F)> = (0..width).map(|i| self.pb(o.a.wrapping_add((i as u16).wrapping_mul(12289)))).collect();
                leaves[idx] = picks.iter().map(|p| p.1).collect();
                let tree = MerkleTree::<F, PoseidonHash>::new(leaves, cap_h);
                let proof = tree.prove(idx);
                let (it, _) = self.small_input(idx as u64);
                let bits = self.b.split_le(it, h);
                let cap_t = self.b.constant_merkle_cap(&tree.cap);
                let sib_t: Vec<HashOutTarget> = proof
                    .siblings
                    .iter()
                    .map(|s| {
                        let ht = self.b.add_virtual_hash();
                        for i in 0..4 {
                            self.e.inputs.push((ht.elements[i], s.elements[i]));
                        }
                        ht
                    })
                    .collect();
                let proof_t = MerkleProofTarget { siblings: sib_t };
                self.b
                    .verify_merkle_proof_to_cap::<PoseidonHash>(picks.iter().map(|p| p.0).collect(), &bits, &cap_t, &proof_t);
                let _: &MerkleCapTarget = &cap_t;
                self.fam("merkle", "verify_merkle_proof_to_cap");
            }
            55 if self.opts.lookups => {
                // table lookup: input is a member of the table
                let ti = frac(o.c, self.opts.max_tables.max(1));
                while self.e.tables.len() <= ti {
                    let mut seed = o.k ^ (self.e.tables.len() as u64).wrapping_mul(0xA24BAED4963EE407);
                    let size = 1 + (lcg(&mut seed) % 40) as usize;
                    let start = (lcg(&mut seed) % 60000) as u16;
                    let step = 1 + (lcg(&mut seed) % 7) as u16;
                    let table: Vec<(u16, u16)> = (0..size)
                        .map(|i| (start.wrapping_add(step.wrapping_mul(i as u16)), (lcg(&mut seed) % 65536) as u16))
                        .collect();
                    // inputs pairwise distinct (documented requirement of the lookup generator)
                    let mut seen = BTreeSet::new();
                    let table: Vec<(u16, u16)> = table.into_iter().filter(|p| seen.insert(p.0)).collect();
                    let lt: LookupTable = Arc::new(table.clone());
                    let id = self.b.add_lookup_table_from_pairs(lt);
                    self.lut_ids.push(id);
                    self.e.tables.push(table);
                    // every declared table must be used at least once: look up its first entry now
                    let (inp, outp) = self.e.tables.last().unwrap()[0];
                    let (it, _) = self.small_input(inp as u64);
                    let ot = self.b.add_lookup_from_index(it, id);
                    let tix = self.e.tables.len() - 1;
                    self.e.lookups.push((tix, inp, outp, ot));
                    self.push_base(ot, F::from_canonical_u16(outp));
                }
                let table = self.e.tables[ti].clone();
                let (inp, outp) = table[frac(o.a, table.len())];
                let (it, _) = self.small_input(inp as u64);
                let ot = self.b.add_lookup_from_index(it, self.lut_ids[ti]);
                self.e.lookups.push((ti, inp, outp, ot));
                self.push_base(ot, F::from_canonical_u16(outp));
                self.fam("lookup", "lookup");
            }
            56 => {
                // connect two computations of the same value
                let ((x, xv), (y, yv)) = (self.pb(o.a), self.pb(o.b));
                let s1 = self.b.add(x, y);
                let one = F::ONE;
                let onet = self.b.one();
                let s2 = self.b.arithmetic(one, one, x, onet, y);
                self.b.connect(s1, s2);
                self.push_base(s1, xv + yv);
                self.e.asserted.push((s1, "eq"));
                self.fam("assert", "connect");
            }
            57 => {
                let (x, _) = self.pb(o.a);
                let z = self.b.sub(x, x);
                self.b.assert_zero(z);
                self.e.asserted.push((z, "eq"));
                self.fam("assert", "assert_zero");
            }
            58 => {
                let (c, cv) = self.pbool(o.c);
                let (x, xv) = self.pb(o.a);
                let (y, yv) = self.pb(o.b);
                if !cv || xv == yv {
                    self.b.conditional_assert_eq(c.target, x, y);
                } else {
                    // condition is true and values differ: assert x == x instead
                    self.b.conditional_assert_eq(c.target, x, x);
                }
                self.fam("assert", "conditional_assert_eq");
            }
            59 => {
                let (x, xv) = self.nonzero_base(o.a);
                let inv = self.b.inverse(x);
                let p = self.b.mul(x, inv);
                self.b.assert_one(p);
                self.push_base(inv, xv.inverse());
                self.e.asserted.push((p, "eq"));
                self.fam("assert", "assert_one");
            }
            60 => {
                let (c, cv) = self.pbool(o.c);
                let ((x, xv), (y, yv)) = (self.pext(o.a), self.pext(o.b));
                let t = self.b.select_ext(c, x, y);
                self.exts.push((t, if cv { xv } else { yv }));
                self.fam("bool", "select_ext");
            }
            61 => {
                let (mut x, mut xv) = self.pext(o.a);
                if xv.is_zero() {
                    x = self.b.one_extension();
                    xv = FE::ONE;
                }
                let t = self.b.inverse_extension(x);
                self.exts.push((t, xv.inverse()));
                self.fam("ext", "inverse_extension");
            }
            62 => {
                let n = 1 + frac(o.c, 5);
                let picks: Vec<(ExtensionTarget<D>, FE)> = (0..n).map(|i| self.pext(o.a.wrapping_add((i as u16).wrapping_mul(o.b | 1)))).collect();
                let t = self.b.mul_many_extension(picks.iter().map(|p| p.0));
                self.exts.push((t, picks.iter().map(|p| p.1).product()));
                self.fam("ext", "mul_many_extension");
            }
            63 => {
                let n = 1 + frac(o.c, 6);
                let picks: Vec<(ExtensionTarget<D>, FE)> = (0..n).map(|i| self.pext(o.a.wrapping_add((i as u16).wrapping_mul(o.b | 1)))).collect();
                let t = self.b.add_many_extension(picks.iter().map(|p| p.0));
                self.exts.push((t, picks.iter().map(|p| p.1).sum()));
                self.fam("ext", "add_many_extension");
            }
            64 => {
                let (x, xv) = self.pext(o.a);
                let l = frac(o.b, 7);
                let t = self.b.exp_power_of_2_extension(x, l);
                self.exts.push((t, xv.exp_power_of_2(l)));
                self.fam("ext", "exp_power_of_2_extension");
            }
            65 => {
                let (x, xv) = self.pext(o.a);
                let (mut y, mut yv) = self.pext(o.b);
                let (z, zv) = self.pext(o.c);
                if yv.is_zero() {
                    y = self.b.one_extension();
                    yv = FE::ONE;
                }
                let t = self.b.div_add_extension(x, y, z);
                self.exts.push((t, xv / yv + zv));
                self.fam("ext", "div_add_extension");
            }
            66 => {
                let nbits = frac(o.b, 24);
                let ev = if nbits == 0 { 0 } else { (o.k >> 3) & ((1u64 << nbits) - 1) };
                let (et, _) = self.small_input(ev);
                let bits = self.b.split_le(et, nbits);
                let t = self.b.exp_from_bits_const_base(kf, bits.iter());
                self.push_base(t, kf.exp_u64(ev));
                self.fam("exp", "exp_from_bits_const_base");
            }
            67 if self.opts.hashing => {
                // random access into a vector of hashes (4 parallel random accesses)
                let maxbits = if routed >= 34 { 4 } else { 3 };
                let bits = 1 + frac(o.c, maxbits);
                let n = 1usize << bits;
                let items: Vec<[(Target, F); 4]> = (0..n)
                    .map(|i| core::array::from_fn(|j| self.pb(o.a.wrapping_add(((4 * i + j) as u16).wrapping_mul(40503)))))
                    .collect();
                let idx = (o.k as usize) % n;
                let (it, _) = self.small_input(idx as u64);
                let hs: Vec<HashOutTarget> = items.iter().map(|h| HashOutTarget { elements: core::array::from_fn(|j| h[j].0) }).collect();
                let t = self.b.random_access_hash(it, hs);
                for j in 0..4 {
                    self.push_base(t.elements[j], items[idx][j].1);
                }
                self.fam("random_access", "random_access_hash");
            }
            68 => {
                let (c, cv) = self.pbool(o.c);
                let (x, xv) = self.pext(o.a);
                let (y, yv) = self.pext(o.b);
                if !cv || xv == yv {
                    self.b.conditional_assert_eq_ext(c.target, x, y);
                } else {
                    self.b.conditional_assert_eq_ext(c.target, x, x);
                }
                self.fam("assert", "conditional_assert_eq_ext");
            }
            69 => {
                // polynomial evaluation gadget at an extension point
                let n = 1 + frac(o.c, 12);
                let coeffs: Vec<(ExtensionTarget<D>, FE)> = (0..n).map(|i| self.pext(o.a.wrapping_add((i as u16).wrapping_mul(7919)))).collect();
                let (pt, ptv) = self.pext(o.b);
                let poly = plonky2::gadgets::polynomial::PolynomialCoeffsExtTarget(coeffs.iter().map(|p| p.0).collect());
                let t = poly.eval(self.b, pt);
                let v = coeffs.iter().rev().fold(FE::ZERO, |acc, p| acc * ptv + p.1);
                self.exts.push((t, v));
                self.fam("reduce", "poly_eval");
            }
            70 => {
                // polynomial evaluation gadget at a base-field point
                let n = 1 + frac(o.c, 12);
                let coeffs: Vec<(ExtensionTarget<D>, FE)> = (0..n).map(|i| self.pext(o.a.wrapping_add((i as u16).wrapping_mul(7919)))).collect();
                let (pt, ptv) = self.pb(o.b);
                let poly = plonky2::gadgets::polynomial::PolynomialCoeffsExtTarget(coeffs.iter().map(|p| p.0).collect());
                let t = poly.eval_scalar(self.b, pt);
                let v = coeffs.iter().rev().fold(FE::ZERO, |acc, p| acc * ext_from_base(ptv) + p.1);
                self.exts.push((t, v));
                self.fam("reduce", "poly_eval_scalar");
            }
            _ => {
                // kinds disabled by options degrade to an addition
                let ((x, xv), (y, yv)) = (self.pb(o.a), self.pb(o.b));
                let t = self.b.add(x, y);
                self.push_base(t, xv + yv);
                self.fam("arith", "add");
            }
        }
    }
}

fn gate_num_wires(g: &plonky2::gates::coset_interpolation::CosetInterpolationGate<F, D>) -> usize {
    use plonky2::gates::gate::Gate;
    <plonky2::gates::coset_interpolation::CosetInterpolationGate<F, D> as Gate<F, D>>::num_wires(g)
}

/// Same wiring as the crate-private `CircuitBuilder::interpolate_coset`, through public API.
fn interpolate_coset(
    b: &mut CircuitBuilder<F, D>,
    gate: plonky2::gates::coset_interpolation::CosetInterpolationGate<F, D>,
    coset_shift: Target,
    values: &[ExtensionTarget<D>],
    evaluation_point: ExtensionTarget<D>,
) -> ExtensionTarget<D> {
    // wire layout (documented in the gate): shift, values, evaluation point, evaluation value
    let n = values.len();
    let row = b.add_gate(gate, vec![]);
    b.connect(coset_shift, Target::wire(row, 0));
    for (i, &v) in values.iter().enumerate() {
        b.connect_extension(v, ExtensionTarget::from_range(row, 1 + i * D..1 + (i + 1) * D));
    }
    let start = 1 + n * D;
    b.connect_extension(evaluation_point, ExtensionTarget::from_range(row, start..start + D));
    ExtensionTarget::from_range(row, start + D..start + 2 * D)
}

fn lagrange_eval(nodes: &[F], vals: &[FE], x: FE) -> FE {
    let mut acc = FE::ZERO;
    for i in 0..nodes.len() {
        let mut num = FE::ONE;
        let mut den = F::ONE;
        for j in 0..nodes.len() {
            if i != j {
                num *= x - ext_from_base(nodes[j]);
                den *= nodes[i] - nodes[j];
            }
        }
        acc += vals[i] * smul(num, den.inverse());
    }
    acc
}

/// Elaborate `raw` into `builder`; returns inputs and expected public inputs.
pub fn elaborate(raw: &RawProgram, builder: &mut CircuitBuilder<F, D>, opts: &DslOpts) -> Elab {
    let mut st = St {
        b: builder,
        base: vec![],
        bools: vec![],
        exts: vec![],
        e: Elab::default(),
        opts: *opts,
        lut_ids: vec![],
    };
    for &v in &raw.inputs {
        let f = F::from_canonical_u64(v % P);
        let t = st.new_input(f);
        st.base.push((t, f));
    }
    for o in &raw.ops {
        st.op(o);
    }
    // public inputs: selected base variables (plus the last one so the program's result is exposed)
    let mut chosen: Vec<usize> = raw.publics.iter().map(|&r| frac(r, st.base.len())).collect();
    chosen.push(st.base.len() - 1);
    for i in chosen {
        let (t, v) = st.base[i];
        st.b.register_public_input(t);
        st.e.public_targets.push(t);
        st.e.expected_pis.push(v);
    }
    // expose one extension value too, if any
    if let Some(&(t, v)) = st.exts.last() {
        let arr: [F; D] = ext_to_arr(v);
        for i in 0..D {
            st.b.register_public_input(t.0[i]);
            st.e.public_targets.push(t.0[i]);
            st.e.expected_pis.push(arr[i]);
        }
    }
    st.e
}

pub fn hash_out_values(h: &HashOut<F>) -> [F; 4] {
    h.elements
}

#[allow(unused)]
fn _assert_ext_w() {
    let _ = <F as Extendable<2>>::W;
}
