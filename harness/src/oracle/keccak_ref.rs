//! Reference model `keccak_ref` (independent of the code under test).
