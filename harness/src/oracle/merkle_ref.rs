//! Reference model `merkle_ref` (independent of the code under test).
