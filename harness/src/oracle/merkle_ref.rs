//! Reference model `merkle_ref` (independent of the code under test).
//!
//! Textbook Merkle trees over an abstract hasher `H`. Only the two primitive hash functions
//! (`H::hash_or_noop` for leaf data, `H::two_to_one` for inner nodes) and `Hash::to_vec` are taken
//! from the library (they are judged by C13); all tree logic (levelling, caps, sibling selection,
//! the documented digest layout, path walking, multi-height "batch" trees, path compression) is
//! written here from the definitions, level by level and single-threaded.

use std::collections::BTreeSet;

use plonky2::hash::hash_types::RichField;
use plonky2::plonk::config::{GenericHashOut, Hasher};

/// Outcome of a reference verification.
#[derive(Clone, Copy, Debug, PartialEq, Eq)]
pub enum Verdict {
    /// The walk ends exactly in the addressed cap entry.
    Accept,
    /// The walk is well defined and ends in a different digest.
    Reject,
    /// The statement is not well formed (addressed cap entry does not exist, leaf heights not
    /// consumed / not strictly decreasing, more siblings than levels).
    Malformed,
}

fn log2_exact(n: usize) -> usize {
    assert!(n.is_power_of_two(), "reference tree: size {} is not a power of two", n);
    n.trailing_zeros() as usize
}

fn pairwise<F: RichField, H: Hasher<F>>(layer: &[H::Hash]) -> Vec<H::Hash> {
    assert!(layer.len() % 2 == 0);
    (0..layer.len() / 2)
        .map(|j| H::two_to_one(layer[2 * j], layer[2 * j + 1]))
        .collect()
}

// ------------------------------------------------------------------------------------------
// Plain tree
// ------------------------------------------------------------------------------------------

/// `levels[0]` = leaf digests; `levels[l + 1][j] = two_to_one(levels[l][2j], levels[l][2j+1])`;
/// the last level has `2^cap_height` nodes and is the cap.
pub struct RefTree<F: RichField, H: Hasher<F>> {
    pub levels: Vec<Vec<H::Hash>>,
}

impl<F: RichField, H: Hasher<F>> RefTree<F, H> {
    pub fn build(leaves: &[Vec<F>], cap_height: usize) -> Self {
        let log_n = log2_exact(leaves.len());
        assert!(cap_height <= log_n);
        let mut levels: Vec<Vec<H::Hash>> = vec![leaves.iter().map(|l| H::hash_or_noop(l)).collect()];
        while levels.last().unwrap().len() > (1usize << cap_height) {
            let next = pairwise::<F, H>(levels.last().unwrap());
            levels.push(next);
        }
        RefTree { levels }
    }

    pub fn cap(&self) -> &[H::Hash] {
        self.levels.last().unwrap()
    }

    /// Number of hashing levels below the cap (= expected proof length).
    pub fn depth(&self) -> usize {
        self.levels.len() - 1
    }

    /// Authentication path of leaf `i`, bottom-up: the sibling of the ancestor at each level.
    pub fn siblings(&self, i: usize) -> Vec<H::Hash> {
        (0..self.depth()).map(|l| self.levels[l][(i >> l) ^ 1]).collect()
    }

    /// The digest vector in the layout documented on `MerkleTree::digests`: one contiguous block
    /// per cap entry; block(node) = block(left child) || left digest || right digest || block(right child).
    pub fn documented_digest_layout(&self) -> Vec<H::Hash> {
        let mut out = Vec::new();
        let top = self.depth();
        for c in 0..self.cap().len() {
            layout_rec::<F, H>(&|l, j| self.levels[l][j], top, c, &mut out);
        }
        out
    }
}

/// `node(l, j)`: digest of node `j` at `l` levels above the bottom of the block.
fn layout_rec<F: RichField, H: Hasher<F>>(
    node: &dyn Fn(usize, usize) -> H::Hash,
    l: usize,
    j: usize,
    out: &mut Vec<H::Hash>,
) {
    if l == 0 {
        return;
    }
    layout_rec::<F, H>(node, l - 1, 2 * j, out);
    out.push(node(l - 1, 2 * j));
    out.push(node(l - 1, 2 * j + 1));
    layout_rec::<F, H>(node, l - 1, 2 * j + 1, out);
}

/// Textbook path walk: bit `l` of the index says whether the running node is a right child at
/// level `l`; after all siblings are consumed the remaining index bits address the cap entry.
pub fn ref_verify<F: RichField, H: Hasher<F>>(
    leaf: &[F],
    index: usize,
    siblings: &[H::Hash],
    cap: &[H::Hash],
) -> Verdict {
    assert!(siblings.len() < usize::BITS as usize);
    let mut node = H::hash_or_noop(leaf);
    for (l, &sib) in siblings.iter().enumerate() {
        let is_right_child = (index >> l) & 1 == 1;
        node = if is_right_child {
            H::two_to_one(sib, node)
        } else {
            H::two_to_one(node, sib)
        };
    }
    match cap.get(index >> siblings.len()) {
        None => Verdict::Malformed,
        Some(c) if *c == node => Verdict::Accept,
        Some(_) => Verdict::Reject,
    }
}

// ------------------------------------------------------------------------------------------
// Batch tree (leaves of several heights)
// ------------------------------------------------------------------------------------------

/// Definition (doc + unit tests `commit_mixed` of batch_merkle_tree.rs): the tallest matrix forms
/// the bottom layer (`hash_or_noop(row)`); layers are halved pairwise with `two_to_one`; whenever a
/// layer has as many nodes as a further matrix has rows, node `j` is replaced by
/// `hash_or_noop(node_j.to_vec() ++ row_j)` *before* it is used as a child or as a cap entry.
/// `layers[k]` is the (post-injection) layer of height `h0 - k`; the last one is the cap.
pub struct RefBatchTree<F: RichField, H: Hasher<F>> {
    pub h0: usize,
    pub cap_height: usize,
    pub heights: Vec<usize>,
    pub layers: Vec<Vec<H::Hash>>,
}

impl<F: RichField, H: Hasher<F>> RefBatchTree<F, H> {
    pub fn build(mats: &[Vec<Vec<F>>], cap_height: usize) -> Self {
        assert!(!mats.is_empty());
        let heights: Vec<usize> = mats.iter().map(|m| log2_exact(m.len())).collect();
        assert!(heights.windows(2).all(|w| w[0] > w[1]));
        assert!(cap_height <= *heights.last().unwrap());
        let h0 = heights[0];
        let mut layers: Vec<Vec<H::Hash>> = vec![mats[0].iter().map(|r| H::hash_or_noop(r)).collect()];
        for h in (cap_height..h0).rev() {
            let mut layer = pairwise::<F, H>(layers.last().unwrap());
            debug_assert_eq!(layer.len(), 1 << h);
            if let Some(k) = heights.iter().position(|&x| x == h) {
                for (j, node) in layer.iter_mut().enumerate() {
                    let mut data = node.to_vec();
                    data.extend_from_slice(&mats[k][j]);
                    *node = H::hash_or_noop(&data);
                }
            }
            layers.push(layer);
        }
        RefBatchTree {
            h0,
            cap_height,
            heights,
            layers,
        }
    }

    pub fn cap(&self) -> &[H::Hash] {
        self.layers.last().unwrap()
    }

    pub fn depth(&self) -> usize {
        self.h0 - self.cap_height
    }

    pub fn siblings(&self, i: usize) -> Vec<H::Hash> {
        (0..self.depth()).map(|l| self.layers[l][(i >> l) ^ 1]).collect()
    }

    /// Rows opened together with bottom index `i`: row `i >> (h0 - h_k)` of matrix `k`.
    pub fn opened_rows(&self, mats: &[Vec<Vec<F>>], i: usize) -> Vec<Vec<F>> {
        mats.iter()
            .zip(&self.heights)
            .map(|(m, &h)| m[i >> (self.h0 - h)].clone())
            .collect()
    }

    /// Digest layout "analogous to MerkleTree": the stages between consecutive leaf heights (and
    /// finally the cap height) are laid out one after the other, each like a plain tree whose
    /// leaves are the post-injection nodes of that stage's bottom layer.
    pub fn documented_digest_layout(&self) -> Vec<H::Hash> {
        let mut out = Vec::new();
        let mut bounds = self.heights.clone();
        bounds.push(self.cap_height);
        for w in bounds.windows(2) {
            let (bottom_h, top_h) = (w[0], w[1]);
            let bottom_layer = self.h0 - bottom_h;
            for c in 0..(1usize << top_h) {
                layout_rec::<F, H>(
                    &|l, j| self.layers[bottom_layer + l][j],
                    bottom_h - top_h,
                    c,
                    &mut out,
                );
            }
        }
        out
    }
}

/// Path walk for a batch opening. `rows[k]` is the opened row of the matrix of height
/// `heights[k]`; `heights[0]` is the height of the bottom layer.
pub fn ref_batch_verify<F: RichField, H: Hasher<F>>(
    rows: &[Vec<F>],
    heights: &[usize],
    index: usize,
    siblings: &[H::Hash],
    cap: &[H::Hash],
) -> Verdict {
    if rows.is_empty() || rows.len() != heights.len() {
        return Verdict::Malformed;
    }
    if !heights.windows(2).all(|w| w[0] > w[1]) {
        return Verdict::Malformed;
    }
    if siblings.len() > heights[0] {
        return Verdict::Malformed; // more siblings than levels
    }
    let mut node = H::hash_or_noop(&rows[0]);
    let mut pending = 1usize;
    for (l, &sib) in siblings.iter().enumerate() {
        node = if (index >> l) & 1 == 1 {
            H::two_to_one(sib, node)
        } else {
            H::two_to_one(node, sib)
        };
        let h = heights[0] - (l + 1);
        if pending < rows.len() && heights[pending] == h {
            let mut data = node.to_vec();
            data.extend_from_slice(&rows[pending]);
            node = H::hash_or_noop(&data);
            pending += 1;
        }
    }
    if pending != rows.len() {
        return Verdict::Malformed; // some opened row never entered the walk
    }
    match cap.get(index >> siblings.len()) {
        None => Verdict::Malformed,
        Some(c) if *c == node => Verdict::Accept,
        Some(_) => Verdict::Reject,
    }
}

// ------------------------------------------------------------------------------------------
// Path compression
// ------------------------------------------------------------------------------------------

/// Reference compressed form of the authentication paths of `indices` (in that order) in a tree
/// of `2^height` leaves with cap height `cap_height`. A sibling is transmitted iff it is neither on
/// the path of any queried leaf (those nodes are recomputed by the receiver) nor was transmitted
/// by an earlier path. Nodes are named `(level, position)`.
pub fn ref_compress<T: Clone>(
    height: usize,
    cap_height: usize,
    indices: &[usize],
    paths: &[Vec<T>],
) -> Vec<Vec<T>> {
    let depth = height - cap_height;
    let mut derivable: BTreeSet<(usize, usize)> = BTreeSet::new();
    for &i in indices {
        for l in 0..depth {
            derivable.insert((l, i >> l));
        }
    }
    let mut sent: BTreeSet<(usize, usize)> = BTreeSet::new();
    let mut out = Vec::with_capacity(paths.len());
    for (&i, path) in indices.iter().zip(paths) {
        assert_eq!(path.len(), depth);
        let mut c = Vec::new();
        for (l, s) in path.iter().enumerate() {
            let sib = (l, (i >> l) ^ 1);
            if !derivable.contains(&sib) && sent.insert(sib) {
                c.push(s.clone());
            }
        }
        out.push(c);
    }
    out
}

/// Size of the minimal sibling set for a multi-opening: siblings of path nodes that are not path nodes.
pub fn ref_compressed_total(height: usize, cap_height: usize, indices: &[usize]) -> usize {
    let depth = height - cap_height;
    let mut on_path: BTreeSet<(usize, usize)> = BTreeSet::new();
    for &i in indices {
        for l in 0..depth {
            on_path.insert((l, i >> l));
        }
    }
    let sibs: BTreeSet<(usize, usize)> = on_path.iter().map(|&(l, p)| (l, p ^ 1)).collect();
    sibs.difference(&on_path).count()
}
