//! Reference model `poseidon_ref` (independent of the code under test).
//!
//! Textbook Poseidon over Goldilocks (width 12, 4 + 22 + 4 rounds, S-box x^7, per round:
//! add round constants -> S-box (all lanes in full rounds, lane 0 in partial rounds) -> MDS),
//! the overwrite-mode sponge built on it (rate 8, capacity 4), and a duplex-sponge model of
//! the Fiat-Shamir challenger. Everything works on canonical residues with u128 arithmetic.
//!
//! The round constants are read from the crate's public specification array
//! (`ALL_ROUND_CONSTANTS`); the MDS vectors are embedded here. `self_check` validates the
//! whole reference against the four published test vectors.

pub const P: u64 = 0xFFFF_FFFF_0000_0001;
pub const WIDTH: usize = 12;
pub const RATE: usize = 8;
pub const HALF_FULL: usize = 4;
pub const N_PARTIAL: usize = 22;
pub const N_ROUNDS: usize = 2 * HALF_FULL + N_PARTIAL;

/// Published MDS description: M = circulant(first row CIRC) + diag(DIAG).
pub const MDS_CIRC: [u64; 12] = [17, 15, 41, 16, 2, 28, 13, 13, 39, 18, 34, 20];
pub const MDS_DIAG: [u64; 12] = [8, 0, 0, 0, 0, 0, 0, 0, 0, 0, 0, 0];

pub type State = [u64; WIDTH];

#[inline]
pub fn red(x: u128) -> u64 {
    (x % (P as u128)) as u64
}
#[inline]
pub fn addm(a: u64, b: u64) -> u64 {
    red(a as u128 + b as u128)
}
#[inline]
pub fn mulm(a: u64, b: u64) -> u64 {
    red((a % P) as u128 * (b % P) as u128)
}
#[inline]
pub fn canon(s: &State) -> State {
    s.map(|x| x % P)
}

/// Round constant `i` of round `round` (specification data, read from the public array).
#[inline]
pub fn rc(round: usize, i: usize) -> u64 {
    plonky2::hash::poseidon::ALL_ROUND_CONSTANTS[round * WIDTH + i] % P
}

pub fn pow7(x: u64) -> u64 {
    let x = x % P;
    let mut acc = 1u64;
    for _ in 0..7 {
        acc = mulm(acc, x);
    }
    acc
}

pub fn constant_layer(s: &State, round: usize) -> State {
    let mut o = [0u64; WIDTH];
    for i in 0..WIDTH {
        o[i] = addm(s[i] % P, rc(round, i));
    }
    o
}

pub fn sbox_layer(s: &State) -> State {
    s.map(pow7)
}

/// out[r] = sum_c M[r][c] * s[c] with M[r][c] = CIRC[(c - r) mod 12] + (r == c) * DIAG[r].
pub fn mds_layer(s: &State) -> State {
    let mut o = [0u64; WIDTH];
    for r in 0..WIDTH {
        let mut acc: u128 = 0;
        for c in 0..WIDTH {
            let mut m = MDS_CIRC[(c + WIDTH - r) % WIDTH] as u128;
            if r == c {
                m += MDS_DIAG[r] as u128;
            }
            acc += m * (s[c] % P) as u128; // < 12 * 2^7 * 2^64
        }
        o[r] = red(acc);
    }
    o
}

pub fn full_round(s: &State, round: usize) -> State {
    mds_layer(&sbox_layer(&constant_layer(s, round)))
}

pub fn partial_round(s: &State, round: usize) -> State {
    let mut t = constant_layer(s, round);
    t[0] = pow7(t[0]);
    mds_layer(&t)
}

/// Rounds `from..to` of the schedule (full for 0..4 and 26..30, partial in between).
pub fn rounds(s: &State, from: usize, to: usize) -> State {
    let mut st = canon(s);
    for r in from..to {
        st = if (HALF_FULL..HALF_FULL + N_PARTIAL).contains(&r) {
            partial_round(&st, r)
        } else {
            full_round(&st, r)
        };
    }
    st
}

/// The permutation.
pub fn permute(s: &State) -> State {
    rounds(s, 0, N_ROUNDS)
}

// ------------------------------------------------------------------------------------------
// Overwrite-mode sponge
// ------------------------------------------------------------------------------------------

/// Absorb `inputs` in chunks of RATE by overwriting the first lanes, permuting after each
/// chunk; then squeeze RATE lanes at a time, permuting between squeezes. `m >= 1`.
pub fn hash_n_to_m_no_pad_with(perm: &dyn Fn(&State) -> State, inputs: &[u64], m: usize) -> Vec<u64> {
    assert!(m >= 1);
    let mut st = [0u64; WIDTH];
    for chunk in inputs.chunks(RATE) {
        for (i, &x) in chunk.iter().enumerate() {
            st[i] = x % P;
        }
        st = perm(&st);
    }
    let mut out = Vec::with_capacity(m);
    loop {
        for i in 0..RATE {
            out.push(st[i]);
            if out.len() == m {
                return out;
            }
        }
        st = perm(&st);
    }
}

pub fn hash_n_to_m_no_pad(inputs: &[u64], m: usize) -> Vec<u64> {
    hash_n_to_m_no_pad_with(&permute, inputs, m)
}

pub fn hash_no_pad(inputs: &[u64]) -> [u64; 4] {
    hash_n_to_m_no_pad(inputs, 4).try_into().unwrap()
}

/// pad10*1 to a multiple of RATE: append 1, then zeros, then a final 1.
pub fn pad101(inputs: &[u64]) -> Vec<u64> {
    let mut v = inputs.to_vec();
    v.push(1);
    while v.len() % RATE != RATE - 1 {
        v.push(0);
    }
    v.push(1);
    v
}

pub fn hash_pad(inputs: &[u64]) -> [u64; 4] {
    hash_no_pad(&pad101(inputs))
}

pub fn two_to_one(l: &[u64; 4], r: &[u64; 4]) -> [u64; 4] {
    let mut st = [0u64; WIDTH];
    st[..4].copy_from_slice(l);
    st[4..8].copy_from_slice(r);
    let o = permute(&st);
    [o[0], o[1], o[2], o[3]]
}

/// Up to 4 elements are returned as they are (zero padded); longer inputs are hashed.
pub fn hash_or_noop(inputs: &[u64]) -> [u64; 4] {
    if inputs.len() <= 4 {
        let mut o = [0u64; 4];
        for (i, &x) in inputs.iter().enumerate() {
            o[i] = x % P;
        }
        o
    } else {
        hash_no_pad(inputs)
    }
}

// ------------------------------------------------------------------------------------------
// Duplex model of the challenger
// ------------------------------------------------------------------------------------------

/// Duplex sponge: pending inputs overwrite the rate lanes at the next duplexing; each duplexing
/// makes the RATE rate lanes available as outputs, handed out from the last lane downwards;
/// absorbing anything invalidates the outputs still available.
pub struct Duplex<'a> {
    pub perm: &'a dyn Fn(&State) -> State,
    pub state: State,
    pub pending: Vec<u64>,
    pub avail: usize,
    pub permutations: u64,
}

impl<'a> Duplex<'a> {
    pub fn new(perm: &'a dyn Fn(&State) -> State) -> Self {
        Duplex { perm, state: [0; WIDTH], pending: vec![], avail: 0, permutations: 0 }
    }
    fn duplex(&mut self) {
        for (i, x) in self.pending.drain(..).enumerate() {
            self.state[i] = x % P;
        }
        self.state = (self.perm)(&self.state);
        self.permutations += 1;
        self.avail = RATE;
    }
    pub fn observe(&mut self, x: u64) {
        self.avail = 0;
        self.pending.push(x);
        if self.pending.len() == RATE {
            self.duplex();
        }
    }
    pub fn challenge(&mut self) -> u64 {
        if !self.pending.is_empty() || self.avail == 0 {
            self.duplex();
        }
        self.avail -= 1;
        self.state[self.avail]
    }
    /// Flush pending inputs, drop available outputs, expose the full sponge state.
    pub fn compact(&mut self) -> State {
        if !self.pending.is_empty() {
            self.duplex();
        }
        self.avail = 0;
        self.state
    }
}

// ------------------------------------------------------------------------------------------
// Published test vectors (hadeshash reference implementation, as quoted by the plonky2 tests)
// ------------------------------------------------------------------------------------------

const NEG1: u64 = P - 1;

#[rustfmt::skip]
pub const TEST_VECTORS: [([u64; 12], [u64; 12]); 4] = [
    ([0, 0, 0, 0, 0, 0, 0, 0, 0, 0, 0, 0],
     [0x3c18a9786cb0b359, 0xc4055e3364a246c3, 0x7953db0ab48808f4, 0xc71603f33a1144ca,
      0xd7709673896996dc, 0x46a84e87642f44ed, 0xd032648251ee0b3c, 0x1c687363b207df62,
      0xdf8565563e8045fe, 0x40f5b37ff4254dae, 0xd070f637b431067c, 0x1792b1c4342109d7]),
    ([0, 1, 2, 3, 4, 5, 6, 7, 8, 9, 10, 11],
     [0xd64e1e3efc5b8e9e, 0x53666633020aaa47, 0xd40285597c6a8825, 0x613a4f81e81231d2,
      0x414754bfebd051f0, 0xcb1f8980294a023f, 0x6eb2a9e4d54a9d0f, 0x1902bc3af467e056,
      0xf045d5eafdc6021f, 0xe4150f77caaa3be5, 0xc9bfd01d39b50cce, 0x5c0a27fcb0e1459b]),
    ([NEG1, NEG1, NEG1, NEG1, NEG1, NEG1, NEG1, NEG1, NEG1, NEG1, NEG1, NEG1],
     [0xbe0085cfc57a8357, 0xd95af71847d05c09, 0xcf55a13d33c1c953, 0x95803a74f4530e82,
      0xfcd99eb30a135df1, 0xe095905e913a3029, 0xde0392461b42919b, 0x7d3260e24e81d031,
      0x10d3d0465d9deaa0, 0xa87571083dfc2a47, 0xe18263681e9958f8, 0xe28e96f1ae5e60d3]),
    ([0x8ccbbbea4fe5d2b7, 0xc2af59ee9ec49970, 0x90f7e1a9e658446a, 0xdcc0630a3ab8b1b8,
      0x7ff8256bca20588c, 0x5d99a7ca0c44ecfb, 0x48452b17a70fbee3, 0xeb09d654690b6c88,
      0x4a55d3a39c676a88, 0xc0407a38d2285139, 0xa234bac9356386d1, 0xe1633f2bad98a52f],
     [0xa89280105650c4ec, 0xab542d53860d12ed, 0x5704148e9ccab94f, 0xd3a826d4b62da9f5,
      0x8a7a6ca87892574f, 0xc7017e1cad1a674e, 0x1f06668922318e34, 0xa3b203bc8102676f,
      0xfcc781b0ce382bf2, 0x934c69ff3ed14ba5, 0x504688a5996e8f13, 0x401f3f2ed524a2ba]),
];

/// Check the reference permutation against the published vectors. Err = the reference (or the
/// specification constants it reads) is wrong: a harness problem, not a property violation.
pub fn self_check() -> Result<(), String> {
    for (k, (inp, want)) in TEST_VECTORS.iter().enumerate() {
        let got = permute(inp);
        if &got != want {
            return Err(format!(
                "poseidon_ref: published test vector {} not reproduced: got {:x?} want {:x?}",
                k, got, want
            ));
        }
    }
    Ok(())
}
