//! Reference model `poseidon_ref` (independent of the code under test).
