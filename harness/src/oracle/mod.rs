pub mod keccak_ref;
pub mod merkle_ref;
pub mod poly_ref;
pub mod poseidon_ref;
