#[cfg(not(pv_core))]
pub mod keccak_ref;
#[cfg(not(pv_core))]
pub mod merkle_ref;
#[cfg(not(pv_core))]
pub mod poly_ref;
#[cfg(not(pv_core))]
pub mod poseidon_ref;
pub mod sat;
