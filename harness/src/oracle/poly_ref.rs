//! Reference model `poly_ref` (independent of the code under test).
