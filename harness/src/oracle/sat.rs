//! O-sat: satisfaction oracle for a built circuit and a full witness.
//! Uses the recorded (gate, constants) per row — independent of selectors.rs,
//! vanishing_poly.rs and permutation_argument.rs — and the circuit's copy classes.

use std::collections::BTreeSet;

use plonky2::gates::gate::GateInstance;
use plonky2::hash::hash_types::HashOut;
use plonky2::iop::witness::MatrixWitness;
use plonky2::plonk::vars::EvaluationVars;

use crate::gen::dsl::{ext_from_base, D, F, FE};
use plonky2::field::types::Field;

#[derive(Debug, Default, Clone)]
pub struct SatReport {
    /// violated classes, e.g. "gate:ArithmeticGate@12", "copy", "pi"
    pub violated: BTreeSet<String>,
    pub gate_rows_violated: usize,
    pub copy_classes_violated: usize,
}

impl SatReport {
    pub fn clean(&self) -> bool {
        self.violated.is_empty()
    }
    pub fn kinds(&self) -> BTreeSet<&'static str> {
        let mut k = BTreeSet::new();
        for v in &self.violated {
            if v.starts_with("gate:PublicInputGate") {
                k.insert("pi");
            } else if v.starts_with("gate:") {
                k.insert("gate");
            } else if v.starts_with("copy") {
                k.insert("copy");
            } else {
                k.insert("other");
            }
        }
        k
    }
}

fn short_id(id: &str) -> String {
    id.split(|c: char| c == ' ' || c == '{' || c == '<' || c == '(').next().unwrap_or(id).to_string()
}

/// `representative_map` is the circuit's own (honest) map; `num_wires`/`degree` give the layout
/// of wire targets inside it (index = row * num_wires + column).
pub fn check(
    instances: &[GateInstance<F, D>],
    witness: &MatrixWitness<F>,
    public_inputs_hash: &HashOut<F>,
    representative_map: &[usize],
    num_wires: usize,
    num_routed_wires: usize,
) -> SatReport {
    let degree = instances.len();
    let mut rep = SatReport::default();
    // gate constraints, row by row
    let mut wires_ext: Vec<FE> = vec![FE::ZERO; num_wires];
    for (row, inst) in instances.iter().enumerate() {
        for (c, w) in wires_ext.iter_mut().enumerate() {
            *w = ext_from_base(witness.get_wire(row, c));
        }
        let consts: Vec<FE> = inst.constants.iter().map(|&c| ext_from_base(c)).collect();
        let vars = EvaluationVars {
            local_constants: &consts,
            local_wires: &wires_ext,
            public_inputs_hash,
        };
        let out = inst.gate_ref.0.eval_unfiltered(vars);
        if out.iter().any(|x| !x.is_zero()) {
            rep.gate_rows_violated += 1;
            rep.violated.insert(format!("gate:{}@{}", short_id(&inst.gate_ref.0.id()), row));
        }
    }
    // explicit link between the public-input gate row and the hash of the claimed public inputs
    // (independent of the gate's own evaluator, which a consistent change could weaken unnoticed)
    for (row, inst) in instances.iter().enumerate() {
        if short_id(&inst.gate_ref.0.id()) == "PublicInputGate" {
            for i in 0..4 {
                if witness.get_wire(row, i) != public_inputs_hash.elements[i] {
                    rep.violated.insert(format!("gate:PublicInputGate@{}#link{}", row, i));
                }
            }
        }
    }
    // copy classes over routed wires
    let mut first_value: std::collections::HashMap<usize, F> = std::collections::HashMap::new();
    let mut bad: BTreeSet<usize> = BTreeSet::new();
    for row in 0..degree {
        for col in 0..num_routed_wires {
            let r = representative_map[row * num_wires + col];
            let v = witness.get_wire(row, col);
            match first_value.get(&r) {
                None => {
                    first_value.insert(r, v);
                }
                Some(&u) => {
                    if u != v {
                        bad.insert(r);
                    }
                }
            }
        }
    }
    if !bad.is_empty() {
        rep.copy_classes_violated = bad.len();
        rep.violated.insert("copy".into());
    }
    rep
}

use plonky2::iop::witness::{PartitionWitness, Witness};
use plonky2::plonk::circuit_data::CircuitData;
use plonky2::plonk::config::{GenericConfig, Hasher};

/// Judge a `PartitionWitness` (possibly with its own representative map) against `data`.
/// `claimed_pis`: the public inputs the proof would carry (default: read from the witness).
pub fn check_partition<C: GenericConfig<D, F = F>>(
    data: &CircuitData<F, C, D>,
    instances: &[GateInstance<F, D>],
    pw: &PartitionWitness<F>,
    claimed_pis: Option<&[F]>,
) -> SatReport
where
    C::InnerHasher: Hasher<F, Hash = HashOut<F>>,
{
    let pis: Vec<F> = match claimed_pis {
        Some(p) => p.to_vec(),
        None => data.prover_only.public_inputs.iter().map(|&t| pw.try_get_target(t).unwrap_or(F::ZERO)).collect(),
    };
    let pih: HashOut<F> = <C::InnerHasher as Hasher<F>>::hash_no_pad(&pis);
    let copy = PartitionWitness {
        values: pw.values.clone(),
        representative_map: pw.representative_map,
        num_wires: pw.num_wires,
        degree: pw.degree,
    };
    let matrix = copy.full_witness();
    check(
        instances,
        &matrix,
        &pih,
        &data.prover_only.representative_map,
        data.common.config.num_wires,
        data.common.config.num_routed_wires,
    )
}
