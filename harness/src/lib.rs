#![allow(clippy::all)]
#![allow(dead_code)]
pub mod circuit;
pub mod engine;
pub mod gen;
pub mod oracle;
pub mod props;
