#![allow(clippy::all)]
#![allow(dead_code)]
pub mod alloc_probe;
pub mod circuit;
pub mod engine;
pub mod fuzz_support;
pub mod gen;
pub mod oracle;
pub mod props;
