#!/bin/bash
# Run checks against a patched scratch copy of /repo without touching /repo or /verif outputs.
#   tools/mutant.sh <name> <patch.diff> <Cnn> [tier] [variant ...]
# Creates /tmp/pvmut-<name>/{repo (git worktree), harness (copy with rewritten paths), target, out},
# builds, runs `pv <Cnn> --tier <tier>` per variant, prints exit codes, then removes everything.
# Exit status: 1 if any variant reported a violation (mutant caught), 0 if all silent, 2 otherwise.
set -u
name=$1; patch=$(realpath -m "$2"); pid=$3; tier=${4:-quick}; shift; shift; shift; shift || true
variants=("$@"); [ ${#variants[@]} -eq 0 ] && variants=(rel)
D=/tmp/pvmut-$name
cleanup() { git -C /repo worktree remove --force "$D/repo" >/dev/null 2>&1; rm -rf "$D"; git -C /repo worktree prune; }
trap cleanup EXIT
rm -rf "$D"; mkdir -p "$D/out"
git -C /repo worktree add --detach "$D/repo" HEAD >/dev/null 2>&1 || { echo "worktree failed"; exit 2; }
if [ "$(basename "$patch")" != "-" ]; then
  git -C "$D/repo" apply "$patch" || { echo "patch does not apply"; exit 2; }
fi
rsync -a --exclude target /verif/harness/ "$D/harness/"
sed -i "s|\"/repo/|\"$D/repo/|g" "$D/harness/Cargo.toml"
[ -d /verif/corpus ] && cp -r /verif/corpus "$D/out/corpus"
cp /verif/known_findings.json "$D/out/" 2>/dev/null
worst=0
for v in "${variants[@]}"; do
  case $v in
    rel) prof=release; flags="";;
    relda) prof=relda; flags="";;
    avx2) prof=release; flags="-C target-feature=+avx2,+bmi2";;
    avx512) prof=release; flags="-C target-cpu=native";;
    *) echo "unknown variant $v"; exit 2;;
  esac
  ( cd "$D/harness" && RUSTFLAGS="$flags ${PV_EXTRA_RUSTFLAGS:-}" CONST_RANDOM_SEED=pv-seed-A CARGO_NET_OFFLINE=true cargo build --offline --profile $prof --target-dir "$D/target-$v" 2>&1 | grep -E "^error|Finished" | head -20 )
  bin="$D/target-$v/$prof/pv"
  [ -x "$bin" ] || { echo "[mutant $name] build failed for $v"; worst=2; continue; }
  PV_ROOT="$D/out" PV_VARIANT=$v VERIF_SEED=${VERIF_SEED:-0} "$bin" "$pid" --tier "$tier" ${PV_EXTRA:-} 2>&1 | grep -E "VIOLATION|violation|KNOWN|sub=|INCONCLUSIVE" | head -40
  rc=${PIPESTATUS[0]}
  echo "[mutant $name] $pid $v exit=$rc"
  if [ "$rc" = 1 ]; then worst=1; elif [ "$rc" != 0 ] && [ "$worst" != 1 ]; then worst=2; fi
  rm -rf "$D/target-$v"
done
if [ -d "$D/out/replays" ]; then mkdir -p /tmp/pvmut-replays/$name && cp -r "$D/out/replays/." /tmp/pvmut-replays/$name/ 2>/dev/null; fi
exit $worst
