#!/usr/bin/env python3
"""Print the brief for an independent 'seeded change' sub-agent for one property (only the property text)."""
import json, sys
pid = sys.argv[1]
p = [json.loads(l) for l in open('/verif/properties.jsonl') if json.loads(l)['id'] == pid][0]
wt = "/tmp/seed-%s" % pid
print(f"""You are given one semantic property of the Rust repository 0xPolygonZero/plonky2 (Plonky2 and Starky: SNARK/STARK proving systems over the Goldilocks field). Your job is to write a realistic code change that BREAKS this property while the repository still compiles and its existing test suite still passes, plus a demonstration that fails with the change and passes without it.

Work ONLY inside your own scratch git worktree: {wt}/repo (already created from the repository's current HEAD; it is a normal checkout, build it with `cargo` there; network is unavailable, always pass --offline; the toolchain is nightly via the repo's rust-toolchain file). Put your outputs in {wt}/out/. Do not read or write anything under /verif or /repo (another team works there), and do not look for other people's checks: your work must be independent.

PROPERTY {p['id']}: {p['title']}
Statement: {p['statement']}
Quantifier: {p['quantifier']['text']}
Why the existing tests cannot settle it: {p['why_tests_cant']}
Code it is anchored in: {', '.join(p['anchors']['files'])}
Mechanisms meant to make it hold: {'; '.join((m.get('name') or '') + ' @ ' + (m.get('where') or '') for m in p['anchors']['mechanism'])}

Requirements for the change (the "mutant"):
1. It is a small, plausible edit of library source (not of tests), of the kind a real refactoring or optimisation bug would produce: e.g. an off-by-one in a rarely taken branch, a dropped term, a wrong index for one parameterisation only, a check applied to n-1 of n items, two sites that each look fine alone, a condition that is wrong only for an unusual configuration or input class. It must NOT be exposed by ordinary use at once: it should need something specific to manifest (an unusual input or configuration, a particular size, a multi-step sequence, a particular build feature, ...). Prefer changes in the mechanism code listed above.
2. The repository must still compile (`cargo build --offline -p <crate>`), and the existing tests must still pass with it. Run at least the tests of the crate(s) you touched that are relevant (e.g. `cargo test --offline --release -p plonky2 <filter>`; the full plonky2 suite in release mode takes a while — run the modules near your change plus a broad filter such as `gates`, `fri`, `plonk`, `recursion` as appropriate; state exactly what you ran). The machine is shared and may be slow: use `--release` for test runs and be patient; do not run more than one cargo process at a time.
3. The change must genuinely violate the property as stated (explain how, concretely: which input / configuration / sequence, what happens versus what the property promises).
4. Demonstration: a self-contained Rust test or small program (for instance a new file under `plonky2/examples/` or `starky/examples/`/`field/examples/`, or an integration test under `<crate>/tests/`) that exercises the public API, FAILS (panics / returns non-zero / asserts) with your change applied and PASSES on the unchanged code. Verify both directions yourself (`git stash` / `git stash pop` or `git diff > patch; git checkout .; …`). Keep the demonstration deterministic.

Deliverables in {wt}/out/:
- patch.diff — `git diff` of the library change only (without the demonstration file);
- demo/ — the demonstration source file(s) and a RUN.md with the exact commands (where to copy the file inside a checkout, how to run it, expected output with and without the patch);
- NOTES.md — what the change is, why it breaks the property, what it needs in order to manifest, what you ran (tests and their results), and how subtle you judge it.
Finish with a short report (≤ 25 lines) repeating the key points. If your first idea turns out to be caught by the existing tests, pick another one; report failed ideas briefly too.""")
