#!/bin/bash
# Confirm an independently written seeded change: demo passes without the patch, fails with it.
#   tools/confirm_seed.sh <ID> <demo-file-in-out/demo> <destination path inside checkout> -- <command to run in checkout>
# Uses the agent's own worktree /tmp/seed-<ID>/repo (cleaned first). Log: /tmp/seed-<ID>/confirm.log
set -u
id=$1; demo=$2; dest=$3; shift 4
wt=/tmp/seed-$id/repo; out=/tmp/seed-$id/out; log=/tmp/seed-$id/confirm.log
: > "$log"
git -C "$wt" checkout -q -- . ; git -C "$wt" clean -fdq -e target
mkdir -p "$(dirname "$wt/$dest")"; cp "$out/demo/$demo" "$wt/$dest"
echo "== without patch: $*" >> "$log"
( cd "$wt" && "$@" ) >> "$log" 2>&1; rc0=$?
echo "== exit without patch: $rc0" >> "$log"
git -C "$wt" apply "$out/patch.diff" || { echo "PATCH DOES NOT APPLY" >> "$log"; exit 2; }
echo "== with patch" >> "$log"
( cd "$wt" && "$@" ) >> "$log" 2>&1; rc1=$?
echo "== exit with patch: $rc1" >> "$log"
git -C "$wt" checkout -q -- .
echo "CONFIRM $id without=$rc0 with=$rc1" | tee -a "$log"
