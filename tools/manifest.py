#!/usr/bin/env python3
"""Regenerate MANIFEST.json from the table below (kept in one place so it is always valid)."""
import json, subprocess

BASELINE_OFF = ("cd /repo && cargo nextest run --workspace --no-fail-fast --tool-config-file pb:/w/lib/nextest.toml "
                "--profile pb --test-threads 8 --offline || cargo test --workspace --no-fail-fast --offline")

# id -> (level category, technique, level text, level note, design ref)
CLAIMED = {
    "C14": ("exploration", "property-based differential testing against u128/BigUint reference arithmetic, boundary-biased operand generators, scalar + debug-assert + AVX-512 builds",
            "Millions of generated operand tuples per run (boundary-biased over all 64-bit representations, correlated pairs that reach the double-overflow / borrow branches) compared with exact u128 / schoolbook reference arithmetic, on scalar, debug-assertion and SIMD builds. Sampling, not exhaustive over 2^128 pairs.",
            "Trusts Rust u128 arithmetic and num::BigUint as the oracle; packed code reached through Packable::Packing as production code does.", "§C14"),
}
PENDING_REASON = "check not implemented yet in this round (work in progress; see DESIGN.md §6 for the order of work)"

def main():
    hooks_commits = subprocess.run(["git", "-C", "/repo", "log", "--format=%H %s"], capture_output=True, text=True).stdout.splitlines()
    hook_shas = [l.split()[0] for l in hooks_commits if "verif_hooks" in l]
    checks = []
    for pid in sorted(CLAIMED):
        cat, tech, text, note, ref = CLAIMED[pid]
        checks.append({
            "property_id": pid,
            "quick_cmd": "./check %s quick" % pid,
            "thorough_cmd": "./check %s thorough" % pid,
            "evidence_file": "evidence/%s.json" % pid,
            "replay_cmd_template": "./check %s --replay {path}" % pid,
            "engine": "pv",
            "level_claimed": {"category": cat, "text": text, "design_ref": "DESIGN.md " + ref},
            "level_note": note,
            "technique": tech,
        })
    na = [{"property_id": "C%02d" % i, "reason": PENDING_REASON} for i in range(1, 21) if "C%02d" % i not in CLAIMED]
    m = {
        "version": 1,
        "setup_cmd": "./check --setup",
        "hooks": {
            "guard": "verif_hooks",
            "enable": "cargo feature `verif_hooks` of plonky2 (forwarded by starky); /verif/harness/Cargo.toml depends on the /repo crates by path with features = [\"verif_hooks\"], so every check builds /repo's working tree with hooks on",
            "baseline_off_cmd": BASELINE_OFF,
            "source_commits": hook_shas,
            "add_only": True,
        },
        "engines": [
            {"name": "pv", "path": "harness", "serves_properties": sorted(CLAIMED),
             "kind_free_text": "Rust crate: proptest TestRunner driven from a binary (sharded, seeded by VERIF_SEED), explicit oracles, shrinking to JSON replay files; driver ./check builds it per build variant against /repo's working tree"},
        ],
        "checks": checks,
        "notes": "Exit codes: 0 held, 1 VIOLATION line printed, 2 inconclusive (harness build failure / watchdog). Known findings: known_findings.json.",
        "not_applicable": na,
    }
    json.dump(m, open("/verif/MANIFEST.json", "w"), indent=1)
    print("wrote MANIFEST.json: %d checks, %d pending" % (len(checks), len(na)))

if __name__ == "__main__":
    main()
