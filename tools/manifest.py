#!/usr/bin/env python3
"""Regenerate MANIFEST.json from the table below (kept in one place so it is always valid)."""
import json, subprocess

BASELINE_OFF = "cd /repo/$(cat /w/out/cargo_root.txt) && cargo nextest run --workspace --no-fail-fast --tool-config-file pb:/w/lib/nextest.toml --profile pb --test-threads 8 --offline  (fallback: cargo test --workspace --no-fail-fast --offline)"

# id -> (level category, technique, level text, level note, design ref)
CLAIMED = {
    "C01": ("exploration", "property-based testing: generated circuit programs (60 gadget ops) x generated admissible configs, differential against a reference interpreter over the field",
            "Hundreds (quick) to thousands (thorough) of generated (config, program, inputs) cases are built, proved and verified with the real API; public inputs are compared with an independent interpretation of the same program; a second independent build must accept the proof.",
            "Reference interpreter trusts Goldilocks field arithmetic (C14) and native Poseidon hashing (C13). Prover salts are unseeded (OsRng).", "§C01"),
    "C02": ("fault_enumeration", "property-based fault injection on witnesses: O-sat satisfaction oracle (recorded gate rows + copy classes) x corruption families F1-F5 x adversarial prover knobs driving the real prover; oracle = nothing may verify",
            "For each generated circuit an honest witness is corrupted (copy-class overwrite, single cell detached from its class, copy class split before generation so that only the permutation is violated, public-input link, asserted variable) and handed to the real prover through the public API, also with an all-zero or scaled Z, a perturbed quotient, lenient truncation and a grinding override (cfg-gated knobs). Corruptions the independent satisfaction oracle calls violating must never yield an accepted plain or compressed proof. Thorough tier enumerates every cell of small circuits.",
            "The adversary catalogue is finite (local corruptions, listed strategies). The oracle trusts each gate's eval_unfiltered (C07) and the builder's copy classes; lookups are judged by C08.", "§C02"),
    "C04": ("exploration", "metamorphic property testing of the Fiat-Shamir transcript: edit one component, recompute challenges with the public API, compare challenge groups in protocol order",
            "For each generated accepted PLONK proof every transcript component class (digest, public inputs, each FRI/degree parameter, every cap entry, opening, commit-phase cap entry, final-polynomial coefficient, grinding witness) is edited; challenge groups drawn before the component must be bit-identical and every full-field challenge drawn after it must change. Thorough tier enumerates every transcript element of each proof.",
            "The component -> first-dependent-group table comes from the protocol description. STARK transcripts are added with the STARK generator (see notes).", "§C04"),
    "C09": ("fault_enumeration", "property-based testing with a run-time STARK family (GenStark) and simulated satisfying traces; single-cell / public-input corruptions judged by an independent row-by-row evaluator; proof-element edits",
            "Generated STARK definitions (1-16 columns, declared degree 0-9, 0-4 public inputs, state/derived/boolean/free columns) with satisfying traces prove and verify under generated StarkConfigs; each single-cell corruption (first, last, second-to-last, interior row) or public-input change is classified by the harness evaluator: violating ones must never verify (real prover with lenient truncation), non-violating ones must still verify; proof elements are edited and must be rejected.",
            "Edit rejections asserted only for non-constant traces with rate_bits*queries+pow >= 40. Run on scalar and AVX-512 builds.", "§C09"),
    "C13": ("exploration", "model-based property testing: textbook Poseidon / overwrite-mode sponge / duplex challenger / own Keccak-f[1600] references, layer-wise and stateful (op sequences, re-chunking) comparison; scalar + debug-assert + AVX-512 builds; plus a coverage-guided libFuzzer/ASan target (poseidon) against the same reference",
            "Over a million generated 12-element states per run (non-canonical and boundary limbs, crafted MDS-wrap states, states solved so that the 160-bit partial-round accumulator sits at its limb/carry boundaries) through every optimised Poseidon routine and layer versus a textbook reference with embedded published vectors; sponge functions for all boundary message lengths; generated absorb/squeeze sequences against a duplex model and re-chunking metamorphic checks; Keccak hashing and the rejection-sampling permutation against an own Keccak.",
            "x86_64 Poseidon SIMD code is disabled in this tree, so SIMD variants exercise the scalar path under different codegen.", "§C13"),
    "C17": ("exploration", "property-based round-trip testing of byte encodings with cross-proving between original and restored circuits",
            "Generated circuits over the default serializer registries (20 generator kinds, 15 gate kinds observed, incl. lookups and blinding): proofs, compressed proofs, CircuitData, Prover/Verifier/Common/VerifierOnly data round-trip, re-encode byte-identically, keep their digest, and original/restored circuits accept each other's fresh proofs with the reference public inputs.",
            "Poseidon config only (default generator serializer needs an algebraic hasher). Recursion-only generators are added with the recursion checks.", "§C17"),
    "C05": ("fault_enumeration", "property-based testing at the FRI API level: generated oracle shapes / opening batches / FRI parameters, own Horner and fold references, adversarial deviations (wrong opening, inconsistent layers via an own FRI prover, high-degree functions, grinding sweep) and per-element edits under fixed challenges",
            "Generated single-degree and batched (1-3 degrees) FRI instances must be accepted with harness-computed true openings; every deviation class of the statement is constructed (wrong opening value, first/deeper layer committed to other values, high-degree function folded honestly, insufficient proof-of-work, value and shape edits of every element with the honest challenges re-used) and must be rejected; elements that are legitimately unread under fixed challenges (pow witness, unselected cap entries) are computed by the harness and exempt.",
            "High-degree rejections asserted only when a reference fold shows a query hits the non-zero truncated part (deterministic); batched variant covers deviations (a), (d), (e).", "§C05"),
    "C06": ("exploration", "differential property testing: native verifier vs. in-circuit verifier (library assignment + witness generation + O-sat), over generated inner circuits and tampered / false / badly ground inner proofs",
            "For each generated inner circuit an outer recursive-verifier circuit (Poseidon or Keccak outer config) is built; honest inner proofs must be accepted, provable and re-expose the inner public inputs; inner proofs edited in every component class, a false statement emitted by the real prover, an overridden grinding witness and a wrong verifier digest must get the same verdict from the native verifier and from the outer circuit. On a sample of rejected cases the real outer prover is run and its proof must not verify.",
            "Circuit-side verdict = assignment and witness generation succeed and the satisfaction oracle (gate rows via eval_unfiltered, copy classes) is clean.", "§C06"),
    "C19": ("exploration", "differential property testing across schedules (rayon pools of 1/2/5/16 threads x 3 repetitions, in-process) and across builds (scalar / AVX-512 / AVX2 / debug-assert, each with a different compile-time hash seed): records compared, proofs cross-verified",
            "Seed-derived (circuit, STARK) cases are built and proved under different thread pools (identical verifier data, common data, public inputs, STARK transcripts required) and by every build variant; all variants' records must be identical and every variant verifies every other variant's PLONK and STARK proofs.",
            "Interleavings are sampled, not enumerated; PLONK wire commitments are excluded from equality (the builder randomises unused public-input-gate wires on every proof), the grinding witness too.", "§C19"),
    "C20": ("exploration", "differential property testing of conditional verification (native validity of the selected pair vs. circuit verdict over all branch-state combinations), dummy circuits/proofs for generated shapes, model-checked cyclic chains with embedded-data edits",
            "Generated inner circuit + its library-made dummy circuit share common data; for generated (condition, state of branch 0, state of branch 1) combinations the outer conditional verifier must accept exactly when the selected pair is natively valid, irrespective of the other branch; dummy proofs verify; cyclic chains (length 1-2 quick, up to 4 thorough) verify at every step, carry the circuit's verifier data and the reference hash chain, and every edit of the embedded data is detected and cannot be extended.",
            "Poseidon config; non-zk, lookup-free inner shapes (documented preconditions of dummy_circuit).", "§C20"),
    "C07": ("exploration", "property-based testing of every built-in gate over generated parameterisations and rows: the gate's own generators fill the row, every generator-written wire is replaced (single, pairwise, Jacobian rank), all evaluators compared (extension, base batch incl. packed path, base one, in-circuit), constraint count and degree measured",
            "For 15 gate types and 459 parameterisations (sweep) plus generated cases: honest rows satisfy all constraints; every one of the ~9.5k generator-written wires is shown pinned (three replacement values each); pairwise re-completion and Jacobian-rank checks go beyond single replacement; the four evaluators agree on arbitrary rows (batch sizes 1, 3, 32, 33; scalar and AVX-512), return num_constraints() values and stay within degree()*(n-1).",
            "Input wires restricted by preconditions (Poseidon swap bit, exponent bits, access index) are not 'values the generators produce' and are outside the statement; lookup gates carry no gate constraints (C08).", "§C07"),
    "C08": ("fault_enumeration", "property-based testing of lookup circuits: generated tables and lookup multisets around the slot boundaries (positive), post-lookup witness overrides of pairs / table cells / multiplicities / padding with the real prover (negative)",
            "Generated circuits with 1-3 tables and lookup counts around the slot count prove, verify and output the table values; then one looked-up output, table cell, multiplicity or padding slot is overridden after the prover filled the lookup wires and the real prover is run (honest path, zero/scaled Z, perturbed quotient): no plain or compressed proof may verify; a non-member input must not yield an accepted proof.",
            "Tables up to a few rows' worth of 16-bit pairs; distinct table inputs and used tables as the API requires.", "§C08"),
    "C15": ("exploration", "property-based differential testing against naive definitions (O(n^2) DFT, schoolbook product, long division, Lagrange) over all sizes/zero-tail factors/root tables, structured sparse operands; scalar + debug-assert + AVX-512 builds; plus a coverage-guided libFuzzer/ASan target (bitrev) for the unsafe in-place bit reversal",
            "Hundreds of thousands of generated transform and polynomial-algebra cases per run (sizes 2^0..2^11 against the naive DFT, 2^12..2^16 by identities, every zero-tail factor with and without root table, sparse/untrimmed/equal-degree operands for division, non-power-of-two interpolation, 12 element sizes for in-place bit reversal across all code paths).",
            "Oracle uses u128 arithmetic or the field's basic + - * inverse (judged by C14).", "§C15"),
    "C03": ("fault_enumeration", "property-based fault injection: value/shape edits over the serde tree of accepted proofs (plain + compressed), other-circuit verifier data; oracle = verifier must not accept",
            "For each generated accepted proof, sampled (quick) or all (thorough, proofs up to 12k leaves) element positions are edited (+1, -1, 0, random canonical value), every container is shape-edited, and a different circuit's verifier data is presented; acceptance of any of these is a violation. Exhaustive per proof in thorough mode, sampled over proofs.",
            "Rejections that rely on Fiat-Shamir re-randomisation are asserted only with >= 48 bits of FRI margin; edits of the compressed proof's redundant index list are exempt as the statement says.", "§C03"),
    "C10": ("fault_enumeration", "property-based testing of STARK lookups and cross-table lookups: generated lookup declarations / CTL topologies with traces built by construction, own multiset (logUp balance) oracle, single-value corruptions and forged auxiliary columns through the real prover",
            "Generated single-table STARKs with 1-2 Lookups (1-5 looking columns: single, scaled, linear combination, next-row; filters; degree 2 and 3) and 2-3-table systems with 1-2 cross-table lookups rebuilt from the public pipeline functions; positives must prove and verify; each single-value change of a looking value, table value, frequency, filter bit or extra value is judged by the harness's own multiset comparison (changes that preserve the multisets must still verify), and perturbed / forged helper and running-sum columns must be rejected.",
            "Cross-table systems use declared degree 3 (degree 2 rejects honest proofs: completeness observation, DESIGN §7); table/frequency columns current-row; same-table looking entries adjacent (preconditions of the API as used by its known consumer).", "§C10"),
    "C11": ("exploration", "differential property testing: native STARK verifier vs. in-circuit STARK verifier (library assignment + witness generation + O-sat) in fixed- and multi-degree mode, over generated STARKs and honest / edited / false / badly ground proofs",
            "For each generated STARK definition and config one outer circuit (fixed degree or sized for a maximum degree) is built and fed many proofs: honest proofs of every supported length, value edits in every component class, wrong public inputs, proofs of violating traces, perturbed quotient/auxiliary polynomials, ground final-polynomial and proof-of-work deviations, wrong degree_bits. Native verdict and circuit verdict must be equal; on a sample of rejected cases the real outer prover is run and must not yield an accepted proof.",
            "Shape-edited proofs are outside the stated quantifier (the assignment routines zero-pad by design for the multi-degree mode); differences there are reported in the evidence, not asserted. Poseidon inner config.", "§C11"),
    "C12": ("exploration", "model-based property testing: independent reference Merkle tree / batch tree / path-compression models, negative catalogue, rayon pools of 1/2/3/16 threads; plus a coverage-guided libFuzzer/ASan target (merkle_tree) against the same reference",
            "Tens of thousands of generated trees (Poseidon and Keccak, all cap heights, leaf widths around the digest size, duplicate leaves, batch trees of 1-4 heights, index multisets) compared with a textbook reference; every negative (other leaf/index, altered sibling or cap entry, malformed path) must give the reference verdict; construction repeated under different thread counts.",
            "hash_or_noop/two_to_one are taken from the library (judged by C13); scheduling is varied by pool size and repetition only.", "§C12"),
    "C14": ("exploration", "property-based differential testing against u128/BigUint reference arithmetic, boundary-biased operand generators, scalar + debug-assert + AVX-512 builds; plus a coverage-guided libFuzzer/ASan target (field_ops) against the same reference",
            "Millions of generated operand tuples per run (boundary-biased over all 64-bit representations, correlated pairs that reach the double-overflow / borrow branches) compared with exact u128 / schoolbook reference arithmetic, on scalar, debug-assertion and SIMD builds. Sampling, not exhaustive over 2^128 pairs.",
            "Trusts Rust u128 arithmetic and num::BigUint as the oracle; packed code reached through Packable::Packing as production code does.", "§C14"),
    "C16": ("exploration", "property-based round-trip and metamorphic testing of proof compression on small FRI domains with many queries (collisions forced), plus edited inputs",
            "Generated accepted proofs on small domains with up to 40 queries, so repeated indices and shared cosets at every depth are common (counted from the public challenges): decompress(compress(p)) == p, compress(decompress(c)) == c, byte round trip, verify_compressed accepts; for value-edited inputs verify_compressed(c*) == verify(decompress(c*)).",
            "Equivalence for edited inputs is stated on the same information (after compression), because compression legitimately discards redundant siblings.", "§C16"),
    "C18": ("exploration", "property-based + mutation fuzzing of proof values (serde-tree shape/range edits) and of byte encodings (9 byte mutators, forged length fields in a memory-limited child process), panic capture and allocation probe as oracles, on release and debug-assertion builds; plus a coverage-guided libFuzzer/ASan target (decode_proof) with the same oracle",
            "Shape edits of every container (thorough) / sampled (quick), out-of-range numbers and map-key edits on plain and compressed proofs handed to verify / verify_compressed / decompress / verify_stark_proof; tens of thousands of mutated encodings handed to both decoders and then the verifiers. A panic, an oversized allocation, or Ok for a value that is not field-equal to the valid proof is a violation.",
            "Both the release and the debug-assertion build must fail cleanly. STARK entry points covered at value level (no byte decoder for STARK proofs outside recursion targets). Allocation bound probed on the decoding thread; forged length fields decoded in a child process under ulimit -v.", "§C18"),
}
PENDING_REASON = "check not implemented yet in this round (work in progress; see DESIGN.md §6 for the order of work)"

def main():
    hooks_commits = subprocess.run(["git", "-C", "/repo", "log", "--format=%H %s"], capture_output=True, text=True).stdout.splitlines()
    hook_shas = [l.split()[0] for l in hooks_commits if "verif_hooks" in l]
    checks = []
    for pid in sorted(CLAIMED):
        cat, tech, text, note, ref = CLAIMED[pid]
        checks.append({
            "property_id": pid,
            "quick_cmd": "./check %s quick" % pid,
            "thorough_cmd": "./check %s thorough" % pid,
            "evidence_file": "evidence/%s.json" % pid,
            "replay_cmd_template": "./check %s --replay {path}" % pid,
            "engine": "pv",
            "level_claimed": {"category": cat, "text": text, "design_ref": "DESIGN.md " + ref},
            "level_note": note,
            "technique": tech,
        })
    na = [{"property_id": "C%02d" % i, "reason": PENDING_REASON} for i in range(1, 21) if "C%02d" % i not in CLAIMED]
    m = {
        "version": 1,
        "setup_cmd": "./check --setup",
        "hooks": {
            "guard": "verif_hooks",
            "enable": "cargo feature `verif_hooks` of plonky2 (forwarded by starky); /verif/harness/Cargo.toml depends on the /repo crates by path with features = [\"verif_hooks\"], so every check builds /repo's working tree with hooks on",
            "baseline_off_cmd": BASELINE_OFF,
            "source_commits": hook_shas,
            "add_only": True,
        },
        "engines": [
            {"name": "pv", "path": "harness", "serves_properties": sorted(CLAIMED),
             "kind_free_text": "Rust crate: proptest TestRunner driven from a binary (sharded, seeded by VERIF_SEED), explicit oracles, shrinking to JSON replay files; driver ./check builds it per build variant against /repo's working tree"},
        ],
        "checks": checks,
        "notes": "Exit codes: 0 held, 1 VIOLATION line printed, 2 inconclusive (harness build failure / watchdog). Known findings: known_findings.json.",
        "not_applicable": na,
    }
    json.dump(m, open("/verif/MANIFEST.json", "w"), indent=1)
    print("wrote MANIFEST.json: %d checks, %d pending" % (len(checks), len(na)))

if __name__ == "__main__":
    main()
