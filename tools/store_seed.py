#!/usr/bin/env python3
"""Store a confirmed seeded change under /verif/seeded/<ID>[-n]/ (patch.diff, demo/, NOTES.md, meta.json)."""
import json, os, shutil, sys
pid, needs, caught_by, detail = sys.argv[1], sys.argv[2], sys.argv[3], sys.argv[4]
src = "/tmp/seed-%s/out" % pid
dst = "/verif/seeded/%s" % pid
n = 1
while os.path.exists(dst):
    n += 1; dst = "/verif/seeded/%s-%d" % (pid, n)
os.makedirs(dst)
shutil.copy(os.path.join(src, "patch.diff"), dst)
shutil.copytree(os.path.join(src, "demo"), os.path.join(dst, "demo"))
if os.path.exists(os.path.join(src, "NOTES.md")): shutil.copy(os.path.join(src, "NOTES.md"), dst)
confirm = open("/tmp/seed-%s/confirm.log" % pid).read().splitlines()[-1] if os.path.exists("/tmp/seed-%s/confirm.log" % pid) else ""
mut = [l for l in open("/tmp/seed-%s/mutant.log" % pid).read().splitlines() if l.startswith("RESULT")] if os.path.exists("/tmp/seed-%s/mutant.log" % pid) else []
meta = {
    "property": pid,
    "origin": "independent sub-agent given only the property text and a scratch worktree",
    "needs_to_manifest": needs,
    "demonstration": "see demo/RUN.md",
    "confirmed_by_me": confirm,
    "check_run": mut,
    "caught_by": caught_by,
    "detail": detail,
    "repo_head_when_written": os.popen("git -C /repo rev-parse --short HEAD").read().strip(),
}
json.dump(meta, open(os.path.join(dst, "meta.json"), "w"), indent=1)
print("stored", dst)
