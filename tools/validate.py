#!/opt/veriftools/pyvenv/bin/python
"""Validate MANIFEST.json and evidence/*.json against the schemas in /root/.vp."""
import json, sys, glob, jsonschema
ok = True
m = json.load(open('/verif/MANIFEST.json'))
try:
    jsonschema.validate(m, json.load(open('/root/.vp/MANIFEST.schema.json')))
    print('MANIFEST ok: %d checks, %d n/a' % (len(m['checks']), len(m.get('not_applicable', []))))
except Exception as e:
    ok = False; print('MANIFEST INVALID', e)
es = json.load(open('/root/.vp/EVIDENCE.schema.json'))
for f in sorted(glob.glob('/verif/evidence/*.json')):
    try:
        ev = json.load(open(f)); jsonschema.validate(ev, es)
        print(f, 'ok', ev['tier'], 'evals', ev['coverage'].get('evaluations'), 'nontrivial', ev['coverage'].get('distinct_nontrivial'), 'wall %.0fs' % ev['wall_s'])
    except Exception as e:
        ok = False; print(f, 'INVALID', str(e)[:300])
sys.exit(0 if ok else 1)
