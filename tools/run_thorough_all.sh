#!/bin/bash
# Run every thorough tier once (sequentially), with a cap per check; log wall time and exit status.
#   tools/run_thorough_all.sh [cap-seconds] [ids...]
cap=${1:-3600}; shift
ids=${@:-C01 C02 C03 C04 C05 C06 C07 C08 C09 C10 C11 C12 C13 C14 C15 C16 C17 C18 C19 C20}
mkdir -p /tmp/thorough
for id in $ids; do
  t0=$(date +%s)
  VERIF_SEED=${VERIF_SEED:-0} timeout $cap /verif/check $id thorough > /tmp/thorough/$id.log 2>&1; rc=$?
  t1=$(date +%s)
  cp /verif/evidence/$id.json /tmp/thorough/$id.evidence.json 2>/dev/null
  echo "$id rc=$rc wall=$((t1-t0))s $(grep -c VIOLATION /tmp/thorough/$id.log) violations" | tee -a /tmp/thorough/summary.txt
done
