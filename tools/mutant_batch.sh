#!/bin/bash
# Run many (patch, check) pairs against ONE persistent scratch workspace (incremental builds).
#   tools/mutant_batch.sh <workspace-name> <list-file>     list lines: <Cnn> <patch.diff> [tier]
# Output: one line per pair "RESULT <Cnn> <patch> exit=<rc>" (1 = caught, 0 = missed, 2 = inconclusive).
set -u
ws=/tmp/pvmutB-$1; list=$(realpath "$2")
mkdir -p "$ws/out"
if [ ! -d "$ws/repo" ]; then git -C /repo worktree add --detach "$ws/repo" HEAD >/dev/null 2>&1 || exit 2; fi
git -C "$ws/repo" checkout -q --detach "$(git -C /repo rev-parse HEAD)" 2>/dev/null; git -C "$ws/repo" checkout -q -- .
while read -r pid patch tier; do
  [ -z "${pid:-}" ] && continue
  case $pid in \#*) continue;; esac
  tier=${tier:-quick}
  patch=$(cd /verif && realpath "$patch")
  git -C "$ws/repo" checkout -q -- .
  if ! git -C "$ws/repo" apply "$patch"; then echo "RESULT $pid $(basename $patch) exit=apply-failed"; continue; fi
  rsync -a --exclude target /verif/harness/ "$ws/harness/"
  sed -i "s|\"/repo/|\"$ws/repo/|g" "$ws/harness/Cargo.toml"
  rm -rf "$ws/out/replays" "$ws/out/evidence"; rm -rf "$ws/out/corpus"; [ -d /verif/corpus ] && cp -r /verif/corpus "$ws/out/corpus"; cp /verif/known_findings.json "$ws/out/"
  ( cd "$ws/harness" && RUSTFLAGS="${PV_EXTRA_RUSTFLAGS:-}" CONST_RANDOM_SEED=pv-seed-A CARGO_NET_OFFLINE=true cargo build --offline --release --target-dir "$ws/target" 2>&1 | grep -E "^error" -A6 | head -20 )
  PV_ROOT="$ws/out" PV_VARIANT=rel VERIF_SEED=${VERIF_SEED:-0} timeout 3000 "$ws/target/release/pv" "$pid" --tier "$tier" > "$ws/out/last.log" 2>&1
  rc=$?
  echo "RESULT $pid $(basename $patch) exit=$rc $(grep -m1 -E '^\[C[0-9]+:[a-z_]+\] violation' "$ws/out/last.log" | cut -c1-220)"
done < "$list"
git -C "$ws/repo" checkout -q -- .
