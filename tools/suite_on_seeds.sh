#!/bin/bash
# Run the repository's own test suite (the BASELINE.json command, minus the five tests that always time out there)
# on a scratch worktree with each given seeded patch applied, to confirm "still compiles and passes the existing tests".
#   tools/suite_on_seeds.sh <seed-dir>...      (each <seed-dir> holds patch.diff; result -> <seed-dir>/suite.txt)
# Scratch: /tmp/suite-wt (worktree of /repo HEAD) — removed at the end.
set -u
wt=/tmp/suite-wt
git -C /repo worktree remove --force $wt 2>/dev/null; rm -rf $wt
git -C /repo worktree add --detach $wt HEAD >/dev/null 2>&1 || exit 2
# the five tests that time out on the unchanged tree (BASELINE.json "always_fail") are excluded by exact name
FILTER='not (test(=gadgets::arithmetic_extension::tests::test_div_extension) | test(=recursion::cyclic_recursion::tests::test_cyclic_recursion) | test(=recursion::recursive_verifier::tests::test_recursive_recursive_verifier) | test(=recursion::recursive_verifier::tests::test_recursive_verifier) | test(=recursion::recursive_verifier::tests::test_recursive_verifier_one_lookup))'
[ -n "${SUITE_FILTER:-}" ] && FILTER="$SUITE_FILTER"
for d in "$@"; do
  d=$(realpath "$d"); p=$d/patch.diff; [ -f "$p" ] || p=$d
  git -C $wt checkout -q -- . ; git -C $wt clean -fdq -e target
  if ! git -C $wt apply "$p"; then echo "$d: PATCH DOES NOT APPLY" ; continue; fi
  ( cd $wt && CARGO_NET_OFFLINE=true timeout 3000 cargo nextest run --workspace --no-fail-fast --tool-config-file pb:/w/lib/nextest.toml --profile pb --test-threads 8 --offline -E "$FILTER" ) > /tmp/suite-wt.log 2>&1
  rc=$?
  summary=$(grep -E "Summary|tests run" /tmp/suite-wt.log | tail -1 | sed 's/\x1b\[[0-9;]*m//g')
  fails=$(grep -E "^\s+(FAIL|TIMEOUT|SIGABRT|SIGSEGV)" /tmp/suite-wt.log | sed 's/\x1b\[[0-9;]*m//g' | sort -u | head -20)
  out="suite exit=$rc head=$(git -C /repo rev-parse --short HEAD) :: $summary"
  echo "$d: $out"; [ -n "$fails" ] && echo "$fails"
  [ -d "$d" ] && { echo "$out"; echo "$fails"; } >> "$d/suite.txt"
done
git -C /repo worktree remove --force $wt; rm -rf $wt; git -C /repo worktree prune
echo finished
