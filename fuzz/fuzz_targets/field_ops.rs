//! C14 (coverage-guided): Goldilocks scalar and extension operations against the u128 reference.
#![no_main]
use libfuzzer_sys::fuzz_target;
use plonky2_field::extension::quadratic::QuadraticExtension;
use plonky2_field::goldilocks_field::GoldilocksField as F;
use plonky2_field::ops::Square;
use plonky2_field::types::{Field, PrimeField64};
use pv::gen::field::{refmod, P};

fn w(b: &[u8], i: usize) -> u64 {
    let mut x = [0u8; 8];
    x.copy_from_slice(&b[i * 8..i * 8 + 8]);
    u64::from_le_bytes(x)
}

fuzz_target!(|data: &[u8]| {
    if data.len() < 32 {
        pv::fuzz_support::record("too_short", None, String::new);
        return;
    }
    let (a, b, c, d) = (w(data, 0), w(data, 1), w(data, 2), w(data, 3));
    // non-trivial: four full operands; classes by the representation of the operands
    let ops = [a, b, c, d];
    let label = if ops.iter().any(|x| *x >= P) {
        "noncanonical_operand"
    } else if ops.iter().any(|x| *x >= P - (1 << 32)) {
        "operand_near_p"
    } else if ops.iter().all(|x| *x < 1 << 32) {
        "all_small"
    } else {
        "generic"
    };
    pv::fuzz_support::record(label, Some(pv::fuzz_support::fnv(&data[..32])), || format!("{ops:x?}"));
    let (fa, fb, fc) = (F(a), F(b), F(c));
    assert_eq!((fa + fb).to_canonical_u64(), refmod::add(a, b), "add {a:#x} {b:#x}");
    assert_eq!((fa - fb).to_canonical_u64(), refmod::sub(a, b), "sub {a:#x} {b:#x}");
    assert_eq!((fa * fb).to_canonical_u64(), refmod::mul(a, b), "mul {a:#x} {b:#x}");
    assert_eq!((-fa).to_canonical_u64(), refmod::neg(a), "neg {a:#x}");
    assert_eq!(fa.square().to_canonical_u64(), refmod::mul(a, a), "square {a:#x}");
    assert_eq!(fa.multiply_accumulate(fb, fc).to_canonical_u64(), refmod::add(a, refmod::mul(b, c)), "mac");
    let wide = ((a as u128) << 64) | b as u128;
    assert_eq!(F::from_noncanonical_u128(wide).to_canonical_u64(), refmod::red(wide), "u128 {wide:#x}");
    assert_eq!(F::from_noncanonical_u96((a, b as u32)).to_canonical_u64(), refmod::red(((b as u32 as u128) << 64) | a as u128), "u96");
    if a % P != 0 {
        assert_eq!((fa * fa.inverse()).to_canonical_u64(), 1, "inverse {a:#x}");
    }
    // quadratic extension (X^2 - 7): schoolbook reference
    let x = QuadraticExtension::<F>([fa, fb]);
    let y = QuadraticExtension::<F>([fc, F(d)]);
    let z = x * y;
    let r0 = refmod::add(refmod::mul(a, c), refmod::mul(7, refmod::mul(b, d)));
    let r1 = refmod::add(refmod::mul(a, d), refmod::mul(b, c));
    assert_eq!(z.0[0].to_canonical_u64(), r0, "ext mul c0");
    assert_eq!(z.0[1].to_canonical_u64(), r1, "ext mul c1");
});
