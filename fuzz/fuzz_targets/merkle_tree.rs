//! C12 (coverage-guided, ASan): Merkle trees built from fuzzer-chosen shapes. The tree constructor fills
//! uninitialised buffers through raw pointers (`set_len`, `MaybeUninit`), so AddressSanitizer sees layout
//! mistakes; the semantic oracle is the bottom-up reference tree of the harness.
//! Input: byte 0 = log2(leaves) (0..=7), byte 1 = leaf width (0..=9), byte 2 = cap height, byte 3 = opened
//! leaf, byte 4 = mutation selector, rest = leaf data (little-endian words, repeated cyclically).
#![no_main]
use libfuzzer_sys::fuzz_target;
use plonky2::hash::merkle_proofs::{verify_merkle_proof_to_cap, MerkleProof};
use plonky2::hash::merkle_tree::MerkleTree;
use plonky2::hash::poseidon::PoseidonHash;
use plonky2::plonk::config::Hasher;
use plonky2_field::goldilocks_field::GoldilocksField as F;
use plonky2_field::types::Field;
use pv::oracle::merkle_ref::{ref_verify, RefTree, Verdict};

type H = PoseidonHash;

fuzz_target!(|data: &[u8]| {
    if data.len() < 6 {
        pv::fuzz_support::record("too_short", None, String::new);
        return;
    }
    let log_n = (data[0] % 8) as usize;
    let width = (data[1] % 10) as usize;
    let cap_height = (data[2] as usize) % (log_n + 1);
    let n = 1usize << log_n;
    let words: Vec<u64> = data[5..]
        .chunks(8)
        .map(|c| {
            let mut b = [0u8; 8];
            b[..c.len()].copy_from_slice(c);
            u64::from_le_bytes(b)
        })
        .collect();
    let mut k = 0usize;
    let leaves: Vec<Vec<F>> = (0..n)
        .map(|i| {
            (0..width)
                .map(|j| {
                    let w = words[k % words.len()].wrapping_add((i * 31 + j) as u64);
                    k += 1;
                    F::from_noncanonical_u64(w)
                })
                .collect()
        })
        .collect();
    let label = format!("log_n={} width_class={} cap={}", log_n, if width == 0 { "0" } else if width <= 4 { "<=digest" } else { ">digest" }, if cap_height == log_n { "at_leaves" } else if cap_height == 0 { "root" } else { "inner" });
    pv::fuzz_support::record(&label, (n >= 4 && cap_height < log_n).then(|| pv::fuzz_support::fnv(data)), || format!("log_n={log_n} width={width} cap_height={cap_height}"));

    let tree = MerkleTree::<F, H>::new(leaves.clone(), cap_height);
    let reference = RefTree::<F, H>::build(&leaves, cap_height);
    assert_eq!(tree.cap.0.as_slice(), reference.cap(), "cap differs from level-by-level hashing");
    assert_eq!(tree.digests, reference.documented_digest_layout(), "digest layout differs from the documented one");

    let i = (data[3] as usize) % n;
    let proof = tree.prove(i);
    assert_eq!(proof.siblings, reference.siblings(i), "authentication path of leaf {i}");
    assert!(verify_merkle_proof_to_cap::<F, H>(leaves[i].clone(), i, &tree.cap, &proof).is_ok(), "honest opening rejected");

    // one forged statement; the implementation must agree with the textbook path walk
    let mut leaf = leaves[i].clone();
    let mut idx = i;
    let mut sib = proof.siblings.clone();
    match data[4] % 4 {
        0 if width > 0 => leaf[(data[4] as usize / 4) % width] += F::ONE,
        1 if n > 1 => idx = (i + 1 + (data[4] as usize / 4) % (n - 1)) % n,
        2 if !sib.is_empty() => {
            let l = (data[4] as usize / 4) % sib.len();
            sib[l].elements[0] += F::ONE;
        }
        _ => return,
    }
    let want = ref_verify::<F, H>(&leaf, idx, &sib, reference.cap());
    let got = verify_merkle_proof_to_cap::<F, H>(leaf, idx, &tree.cap, &MerkleProof { siblings: sib });
    assert_eq!(got.is_ok(), want == Verdict::Accept, "forged statement: implementation {:?} vs reference {:?}", got.is_ok(), want);
});
