//! C13 (coverage-guided): optimised Poseidon permutation against the textbook reference of the harness.
#![no_main]
use libfuzzer_sys::fuzz_target;
use plonky2::hash::poseidon::Poseidon;
use plonky2_field::goldilocks_field::GoldilocksField as F;
use plonky2_field::types::PrimeField64;

fuzz_target!(|data: &[u8]| {
    if data.len() < 96 {
        pv::fuzz_support::record("too_short", None, String::new);
        return;
    }
    let mut st = [0u64; 12];
    for i in 0..12 {
        let mut x = [0u8; 8];
        x.copy_from_slice(&data[i * 8..i * 8 + 8]);
        st[i] = u64::from_le_bytes(x);
    }
    // non-trivial: a full state; classes: any lane non-canonical (>= p), all lanes small
    let p = pv::gen::field::P;
    let label = if st.iter().any(|x| *x >= p) {
        "state_with_noncanonical_lane"
    } else if st.iter().all(|x| *x < 1 << 32) {
        "state_all_small"
    } else {
        "state_generic"
    };
    pv::fuzz_support::record(label, Some(pv::fuzz_support::fnv(&data[..96])), || format!("{st:x?}"));
    let got = <F as Poseidon>::poseidon(st.map(F));
    let want = pv::oracle::poseidon_ref::permute(&st);
    for i in 0..12 {
        assert_eq!(got[i].to_canonical_u64(), want[i], "lane {i} for state {st:x?}");
    }
});
