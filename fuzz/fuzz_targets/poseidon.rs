//! C13 (coverage-guided): optimised Poseidon permutation against the textbook reference of the harness.
#![no_main]
use libfuzzer_sys::fuzz_target;
use plonky2::hash::poseidon::Poseidon;
use plonky2_field::goldilocks_field::GoldilocksField as F;
use plonky2_field::types::PrimeField64;

fuzz_target!(|data: &[u8]| {
    if data.len() < 96 {
        return;
    }
    let mut st = [0u64; 12];
    for i in 0..12 {
        let mut x = [0u8; 8];
        x.copy_from_slice(&data[i * 8..i * 8 + 8]);
        st[i] = u64::from_le_bytes(x);
    }
    let got = <F as Poseidon>::poseidon(st.map(F));
    let want = pv::oracle::poseidon_ref::permute(&st);
    for i in 0..12 {
        assert_eq!(got[i].to_canonical_u64(), want[i], "lane {i} for state {st:x?}");
    }
});
