//! C18 (coverage-guided): byte strings handed to the proof decoders and, when they decode, to the
//! verifiers. Oracle: no panic; `Ok` from a verifier only for a value field-equal to the valid proof.
//! First byte selects plain (even) / compressed (odd) decoding; the rest is the encoding.
#![no_main]
use std::sync::OnceLock;

use libfuzzer_sys::fuzz_target;
use plonky2::field::types::Field;
use plonky2::iop::witness::{PartialWitness, WitnessWrite};
use plonky2::plonk::circuit_builder::CircuitBuilder;
use plonky2::plonk::circuit_data::{CircuitConfig, CircuitData};
use plonky2::plonk::config::PoseidonGoldilocksConfig;
use plonky2::plonk::proof::{CompressedProofWithPublicInputs, ProofWithPublicInputs};
use plonky2_field::goldilocks_field::GoldilocksField as F;

type C = PoseidonGoldilocksConfig;
const D: usize = 2;

struct Fixture {
    data: CircuitData<F, C, D>,
    proof_tree: serde_json::Value,
    comp_tree: serde_json::Value,
}

fn fixture() -> &'static Fixture {
    static FX: OnceLock<Fixture> = OnceLock::new();
    FX.get_or_init(|| {
        // a small circuit with few FRI queries so that encodings are short (fast mutation)
        let mut config = CircuitConfig::standard_recursion_config();
        config.fri_config.num_query_rounds = 3;
        config.fri_config.proof_of_work_bits = 2;
        config.security_bits = 11;
        let mut b = CircuitBuilder::<F, D>::new(config);
        let x = b.add_virtual_target();
        let y = b.add_virtual_target();
        let z = b.mul(x, y);
        let h = b.hash_n_to_hash_no_pad::<plonky2::hash::poseidon::PoseidonHash>(vec![x, y, z]);
        b.register_public_input(z);
        b.register_public_inputs(&h.elements);
        b.range_check(x, 20);
        let data = b.build::<C>();
        let mut pw = PartialWitness::new();
        pw.set_target(x, F::from_canonical_u64(1234)).unwrap();
        pw.set_target(y, F::from_canonical_u64(0xFFFF_FFFF_0000_0000)).unwrap();
        let proof = data.prove(pw).unwrap();
        let comp = data.compress(proof.clone()).unwrap();
        if std::env::var("PV_FUZZ_EMIT_SEEDS").is_ok() {
            let dir = std::env::var("PV_FUZZ_EMIT_SEEDS").unwrap();
            let mut a = vec![0u8];
            a.extend(proof.to_bytes());
            let mut c = vec![1u8];
            c.extend(comp.to_bytes());
            let _ = std::fs::write(format!("{dir}/valid_plain"), a);
            let _ = std::fs::write(format!("{dir}/valid_compressed"), c);
        }
        Fixture {
            proof_tree: serde_json::to_value(&proof).unwrap(),
            comp_tree: serde_json::to_value(&comp).unwrap(),
            data,
        }
    })
}

fuzz_target!(|data: &[u8]| {
    let fx = fixture();
    if data.is_empty() {
        return;
    }
    let body = data[1..].to_vec();
    if data[0] & 1 == 0 {
        if let Ok(p) = ProofWithPublicInputs::<F, C, D>::from_bytes(body, &fx.data.common) {
            if fx.data.verify(p.clone()).is_ok() {
                let t = serde_json::to_value(&p).unwrap();
                assert!(pv::props::c18::tree_field_eq(&t, &fx.proof_tree), "verify accepted a decoded value that differs from the valid proof");
            }
        }
    } else if let Ok(p) = CompressedProofWithPublicInputs::<F, C, D>::from_bytes(body, &fx.data.common) {
        if fx.data.verify_compressed(p.clone()).is_ok() {
            let mut t = serde_json::to_value(&p).unwrap();
            let mut o = fx.comp_tree.clone();
            for v in [&mut t, &mut o] {
                if let Some(serde_json::Value::Object(m)) = v.pointer_mut("/proof/opening_proof/query_round_proofs") {
                    m.remove("indices");
                }
            }
            assert!(pv::props::c18::tree_field_eq(&t, &o), "verify_compressed accepted a decoded value that differs from the valid proof");
        }
    }
});
