//! C18 (coverage-guided): byte strings handed to the proof decoders and, when they decode, to the
//! verifiers. Oracle: no panic; `Ok` from a verifier only for a value field-equal to the valid proof.
//! First byte selects plain (even) / compressed (odd) decoding; the rest is the encoding.
#![no_main]
use std::sync::OnceLock;

use libfuzzer_sys::fuzz_target;
use plonky2::field::types::Field;
use plonky2::iop::witness::{PartialWitness, WitnessWrite};
use plonky2::plonk::circuit_builder::CircuitBuilder;
use plonky2::plonk::circuit_data::{CircuitConfig, CircuitData};
use plonky2::plonk::config::PoseidonGoldilocksConfig;
use plonky2::plonk::proof::{CompressedProofWithPublicInputs, ProofWithPublicInputs};
use plonky2_field::goldilocks_field::GoldilocksField as F;

type C = PoseidonGoldilocksConfig;
const D: usize = 2;

/// The honest prover is randomised (`randomize_unused_pi_wires`), so "the valid proof" is a set: the proof
/// made by this process plus the committed seed-corpus files, which were emitted by the honest prover in an
/// earlier process (`PV_FUZZ_EMIT_SEEDS`) and are admitted only while they still decode and verify.
struct Fixture {
    data: CircuitData<F, C, D>,
    plain_valid: Vec<serde_json::Value>,
    comp_valid: Vec<serde_json::Value>,
    own_plain: Vec<u8>,
    own_comp: Vec<u8>,
}

const SEED_PLAIN: &[u8] = include_bytes!("../corpus-seed/decode_proof/valid_plain");
const SEED_COMP: &[u8] = include_bytes!("../corpus-seed/decode_proof/valid_compressed");

fn fixture() -> &'static Fixture {
    static FX: OnceLock<Fixture> = OnceLock::new();
    FX.get_or_init(|| {
        // a small circuit with few FRI queries so that encodings are short (fast mutation), yet with the
        // margin lde_bits*queries + pow >= 48 of DESIGN.md so that a chance acceptance of a changed value
        // (probability <= 2^-48 per attempt) is out of reach of any campaign length
        let mut config = CircuitConfig::standard_recursion_config();
        config.fri_config.num_query_rounds = 8;
        config.fri_config.proof_of_work_bits = 8;
        config.security_bits = 32;
        let mut b = CircuitBuilder::<F, D>::new(config);
        let x = b.add_virtual_target();
        let y = b.add_virtual_target();
        let z = b.mul(x, y);
        let h = b.hash_n_to_hash_no_pad::<plonky2::hash::poseidon::PoseidonHash>(vec![x, y, z]);
        b.register_public_input(z);
        b.register_public_inputs(&h.elements);
        b.range_check(x, 20);
        let data = b.build::<C>();
        let mut pw = PartialWitness::new();
        pw.set_target(x, F::from_canonical_u64(1234)).unwrap();
        pw.set_target(y, F::from_canonical_u64(0xFFFF_FFFF_0000_0000)).unwrap();
        let proof = data.prove(pw).unwrap();
        let comp = data.compress(proof.clone()).unwrap();
        if std::env::var("PV_FUZZ_EMIT_SEEDS").is_ok() {
            let dir = std::env::var("PV_FUZZ_EMIT_SEEDS").unwrap();
            let mut a = vec![0u8];
            a.extend(proof.to_bytes());
            let mut c = vec![1u8];
            c.extend(comp.to_bytes());
            let _ = std::fs::write(format!("{dir}/valid_plain"), a);
            let _ = std::fs::write(format!("{dir}/valid_compressed"), c);
        }
        assert!(data.common.degree_bits() + config_rate_bits(&data) >= 5, "fixture margin");
        let mut plain_valid = vec![serde_json::to_value(&proof).unwrap()];
        let mut comp_valid = vec![strip_indices(serde_json::to_value(&comp).unwrap())];
        if SEED_PLAIN.len() > 1 {
            if let Ok(p) = ProofWithPublicInputs::<F, C, D>::from_bytes(SEED_PLAIN[1..].to_vec(), &data.common) {
                if data.verify(p.clone()).is_ok() {
                    plain_valid.push(serde_json::to_value(&p).unwrap());
                }
            }
        }
        if SEED_COMP.len() > 1 {
            if let Ok(p) = CompressedProofWithPublicInputs::<F, C, D>::from_bytes(SEED_COMP[1..].to_vec(), &data.common) {
                if data.verify_compressed(p.clone()).is_ok() {
                    comp_valid.push(strip_indices(serde_json::to_value(&p).unwrap()));
                }
            }
        }
        Fixture { data, plain_valid, comp_valid, own_plain: proof.to_bytes(), own_comp: comp.to_bytes() }
    })
}

fn config_rate_bits(data: &CircuitData<F, C, D>) -> usize {
    data.common.config.fri_config.rate_bits
}

fn all_diffs(a: &serde_json::Value, b: &serde_json::Value, path: String, out: &mut Vec<String>) {
    use serde_json::Value::*;
    match (a, b) {
        (Array(x), Array(y)) if x.len() == y.len() => x.iter().zip(y).enumerate().for_each(|(i, (p, q))| all_diffs(p, q, format!("{path}[{i}]"), out)),
        (Object(x), Object(y)) if x.len() == y.len() => x.iter().for_each(|(k, p)| {
            if let Some(q) = y.get(k) {
                all_diffs(p, q, format!("{path}.{k}"), out)
            }
        }),
        _ => {
            if !pv::props::c18::tree_field_eq(a, b) && out.len() < 12 {
                out.push(format!("{path}: {a} vs {b}"));
            }
        }
    }
}

fn first_diff(a: &serde_json::Value, b: &serde_json::Value) -> String {
    let mut v = vec![];
    all_diffs(a, b, String::new(), &mut v);
    if v.is_empty() {
        "a structural difference (lengths or keys)".into()
    } else {
        v.join(" | ")
    }
}

fn strip_indices(mut v: serde_json::Value) -> serde_json::Value {
    if let Some(serde_json::Value::Object(m)) = v.pointer_mut("/proof/opening_proof/query_round_proofs") {
        m.remove("indices");
    }
    v
}

fuzz_target!(|data: &[u8]| {
    let fx = fixture();
    if data.is_empty() {
        return;
    }
    let body = data[1..].to_vec();
    // non-trivial: the decoder accepted the bytes and they are not one of the honest encodings
    let honest = data == SEED_PLAIN || data == SEED_COMP || data[1..] == fx.own_plain[..] || data[1..] == fx.own_comp[..];
    let key = (!honest).then(|| pv::fuzz_support::fnv(data));
    let sample = || format!("len={} head={:02x?}", data.len(), &data[..data.len().min(12)]);
    if data[0] & 1 == 0 {
        match ProofWithPublicInputs::<F, C, D>::from_bytes(body, &fx.data.common) {
            Ok(p) => {
                if fx.data.verify(p.clone()).is_ok() {
                    pv::fuzz_support::record("plain:decoded,verify_ok", key, sample);
                    let t = serde_json::to_value(&p).unwrap();
                    assert!(
                        fx.plain_valid.iter().any(|v| pv::props::c18::tree_field_eq(&t, v)),
                        "verify accepted a decoded value that differs from every honestly proved one: {}",
                        first_diff(&t, &fx.plain_valid[0])
                    );
                } else {
                    pv::fuzz_support::record("plain:decoded,verify_err", key, sample);
                }
            }
            Err(_) => pv::fuzz_support::record("plain:decode_err", None, String::new),
        }
    } else {
        match CompressedProofWithPublicInputs::<F, C, D>::from_bytes(body, &fx.data.common) {
            Ok(p) => {
                if fx.data.verify_compressed(p.clone()).is_ok() {
                    pv::fuzz_support::record("compressed:decoded,verify_ok", key, sample);
                    let t = strip_indices(serde_json::to_value(&p).unwrap());
                    assert!(
                        fx.comp_valid.iter().any(|v| pv::props::c18::tree_field_eq(&t, v)),
                        "verify_compressed accepted a decoded value that differs from every honestly proved one: {}",
                        first_diff(&t, &fx.comp_valid[0])
                    );
                } else {
                    pv::fuzz_support::record("compressed:decoded,verify_err", key, sample);
                }
            }
            Err(_) => pv::fuzz_support::record("compressed:decode_err", None, String::new),
        }
    }
});
