//! C15 (coverage-guided, ASan): the `unsafe` in-place bit-reversal permutation and its out-of-place twin for
//! element sizes 8 B .. 4 KiB and every size class of the chunked strategy, against the index definition.
//! Input: byte 0 = lb_n (0..=13 scaled down for big elements), byte 1 = element-size class, rest = seed words.
#![no_main]
use libfuzzer_sys::fuzz_target;

fn rev(i: usize, bits: usize) -> usize {
    if bits == 0 {
        0
    } else {
        i.reverse_bits() >> (usize::BITS as usize - bits)
    }
}

fn run<T: Copy + PartialEq + core::fmt::Debug>(lb_n: usize, make: impl Fn(usize) -> T) {
    let n = 1usize << lb_n;
    let orig: Vec<T> = (0..n).map(&make).collect();
    let mut a = orig.clone();
    plonky2::util::reverse_index_bits_in_place(&mut a);
    for j in 0..n {
        assert_eq!(a[j], orig[rev(j, lb_n)], "in place: position {j} (lb_n {lb_n}, elem {} B)", core::mem::size_of::<T>());
    }
    let b = plonky2::util::reverse_index_bits(&orig);
    assert_eq!(a, b, "in-place and out-of-place results differ");
    plonky2::util::reverse_index_bits_in_place(&mut a);
    assert_eq!(a, orig, "not an involution");
}

fuzz_target!(|data: &[u8]| {
    if data.len() < 3 {
        pv::fuzz_support::record("too_short", None, String::new);
        return;
    }
    let class = data[1] % 5;
    let max = [13usize, 12, 10, 8, 6][class as usize];
    let lb_n = (data[0] as usize) % (max + 1);
    let s = data[2..].iter().fold(0x9e3779b97f4a7c15u64, |h, b| (h ^ *b as u64).wrapping_mul(0x100000001b3));
    let word = move |i: usize| s.wrapping_mul(2 * i as u64 + 1) ^ (i as u64) << 17;
    pv::fuzz_support::record(
        &format!("elem_class={} lb_n={}", class, lb_n),
        (lb_n >= 2).then(|| pv::fuzz_support::fnv(&[data[0] % (max as u8 + 1), class, (s & 0xff) as u8])),
        || format!("class={class} lb_n={lb_n}"),
    );
    match class {
        0 => run::<u64>(lb_n, word),
        1 => run::<[u64; 3]>(lb_n, |i| [word(i), !word(i), i as u64]),
        2 => run::<[u64; 16]>(lb_n, |i| [word(i); 16]),
        3 => run::<[u64; 100]>(lb_n, |i| [word(i) ^ i as u64; 100]),
        _ => run::<[u64; 512]>(lb_n, |i| [word(i).rotate_left(i as u32 % 64); 512]),
    }
});
